// C13 — compile-time evaluation versus run-time execution: the operations.
//
// Every operation is ONE constexpr function `ev_<table>(args...)` that calls the tetl function and encodes the
// result as a 64-bit integer.  It is evaluated
//   * by the constant evaluator, inside the generated `constexpr Row tbl_<table>[]` initialisers of
//     c13_tables.hpp (one row per case line, each on its own source line, so that a failure to constant-evaluate
//     is a compile error at the line of that case: the check maps it back to function and argument), and
//   * at run time on arguments parsed from the case file and passed through a volatile object.
// `etl::is_constant_evaluated()` therefore takes both values for the same call.
//
// This header is compiled three times: into libc13_O0.so (-O0), libc13_O2.so (-O2) (hidden visibility, so that
// the inline tetl functions of one build are not merged with those of another) and into the sanitized main
// harness (-O1, ASan + UBSan).
#pragma once
#include <etl/bit.hpp>
#include <etl/cctype.hpp>
#include <etl/cmath.hpp>
#include <etl/cstring.hpp>
#include <etl/numeric.hpp>
#include <etl/algorithm.hpp>
#include <etl/charconv.hpp>
#include <etl/chrono.hpp>
#include <etl/string.hpp>
#include <etl/string_view.hpp>
#include <etl/vector.hpp>

#include <bit>
#include <cctype>
#include <cmath>
#include <cstdint>
#include <cstring>
#include <string>
#include <type_traits>
#include <algorithm>
#include <charconv>
#include <chrono>
#include <string_view>
#include <vector>

#include "proto.hpp"

namespace c13 {

using u8  = std::uint8_t;
using u16 = std::uint16_t;
using u32 = std::uint32_t;
using u64 = std::uint64_t;
using i8  = std::int8_t;
using i16 = std::int16_t;
using i32 = std::int32_t;
using i64 = std::int64_t;

constexpr u64 CFAIL = 0xCFA11CFA11CFA11Full; // row value written by the check when the initialiser did not compile
constexpr u64 NULLP = 0xFFFFFFFFFFFFFFF1ull; // null pointer result

struct Row {
    u64 key;
    u64 val;
};

template <typename T>
[[gnu::noinline]] inline auto launder(T v) -> T
{
    volatile T x = v;
    return x;
}

constexpr auto F(u32 b) -> float { return __builtin_bit_cast(float, b); }
constexpr auto D(u64 b) -> double { return __builtin_bit_cast(double, b); }
constexpr auto E(float f) -> u64 { return __builtin_bit_cast(u32, f); }
constexpr auto E(double f) -> u64 { return __builtin_bit_cast(u64, f); }
constexpr auto E(bool b) -> u64 { return b ? 1 : 0; }
template <typename T>
    requires(std::is_integral_v<T> and not std::is_same_v<T, bool>)
constexpr auto E(T v) -> u64
{
    if constexpr (std::is_signed_v<T>) {
        return static_cast<u64>(static_cast<long long>(v));
    } else {
        return static_cast<u64>(v);
    }
}
constexpr auto sgn(int x) -> int { return x < 0 ? -1 : (x > 0 ? 1 : 0); }

// ---------------------------------------------------------------- cmath (bit patterns in, bit patterns out)
#define C13_F1(NAME, CALL)                                                                                             \
    constexpr auto ev_##NAME##_f32(u32 x) -> u64 { return E(CALL(F(x))); }                                            \
    constexpr auto ev_##NAME##_f64(u64 x) -> u64 { return E(CALL(D(x))); }
C13_F1(floor, etl::floor)
C13_F1(ceil, etl::ceil)
C13_F1(trunc, etl::trunc)
C13_F1(round, etl::round)
C13_F1(rint, etl::rint)
C13_F1(lrint, etl::lrint)
C13_F1(llrint, etl::llrint)
C13_F1(signbit, etl::signbit)
C13_F1(isnan, etl::isnan)
C13_F1(isinf, etl::isinf)
C13_F1(isfinite, etl::isfinite)
C13_F1(sqrt, etl::sqrt)
#undef C13_F1
constexpr auto ev_copysign_f32(u32 x, u32 y) -> u64 { return E(etl::copysign(F(x), F(y))); }
constexpr auto ev_copysign_f64(u64 x, u64 y) -> u64 { return E(etl::copysign(D(x), D(y))); }
constexpr auto ev_fma_f32(u32 x, u32 y, u32 z) -> u64 { return E(etl::fma(F(x), F(y), F(z))); }
constexpr auto ev_fma_f64(u64 x, u64 y, u64 z) -> u64 { return E(etl::fma(D(x), D(y), D(z))); }
constexpr auto ev_bit_cast_f32(u32 x) -> u64 { return E(etl::bit_cast<u32>(etl::bit_cast<float>(x))); }
constexpr auto ev_bit_cast_f64(u64 x) -> u64 { return E(etl::bit_cast<u64>(etl::bit_cast<double>(x))); }

// ---------------------------------------------------------------- cmath: the other spellings and overloads (review C13, T1..T3)
// (b) the `f`-suffixed spellings on binary32 patterns
#define C13_FF(NAME) constexpr auto ev_##NAME##_f32(u32 x) -> u64 { return E(etl::NAME(F(x))); }
C13_FF(floorf)
C13_FF(ceilf)
C13_FF(truncf)
C13_FF(roundf)
C13_FF(rintf)
C13_FF(lrintf)
C13_FF(llrintf)
#undef C13_FF
constexpr auto ev_copysignf_f32(u32 x, u32 y) -> u64 { return E(etl::copysignf(F(x), F(y))); }

// (a) long double (x87 extended: 64 significant bits).  The argument is the binary64 value D(x) with `d` further units
// in the 11 low bits of the 64-bit significand (1 unit = 2^-11 ulp of the binade of D(x)), added to the magnitude;
// `d` counts only when D(x) is a normal number with exponent field in [64, 2045] (every step exact, the sum stays inside
// the binade and inside the range of double), `n` negates the result of that (a negative NaN is `-(long double)NaN`).
constexpr auto LD(u64 x, u32 d, u32 n = 0) -> long double
{
    long double a = D(x);
    u64 const ef  = (x >> 52) & 0x7ffu;
    if (d != 0 and ef >= 64 and ef <= 2045) {
        long double const u = D((ef - 63) << 52); // 2^-11 ulp
        a                   = (x >> 63) != 0 ? a - static_cast<long double>(d) * u : a + static_cast<long double>(d) * u;
    }
    return n != 0 ? -a : a;
}
// A long double result r in two exact parts: p = 0: hi = r rounded to double (to nearest even); p = 1: r - hi (at most
// 11 significant bits: exact, and exactly a double).  NaN: (NaN with the sign of r, 0); hi infinite: (hi, 0).
constexpr auto PART(long double r, u32 p) -> u64
{
    if (r != r) {
        return p == 0 ? (__builtin_signbit(r) ? 0xfff8000000000000ull : 0x7ff8000000000000ull) : 0;
    }
    auto const hi = static_cast<double>(r);
    if (p == 0) return E(hi);
    if (hi == __builtin_inf() or hi == -__builtin_inf()) return 0;
    return E(static_cast<double>(r - static_cast<long double>(hi)));
}
#define C13_LD(OP, CALL) constexpr auto ev_##OP##_ld(u64 x, u32 d, u32 p) -> u64 { return PART(CALL(LD(x, d)), p); }
C13_LD(floorl, etl::floorl)
C13_LD(ceill, etl::ceill)
C13_LD(truncl, etl::truncl)
C13_LD(roundl, etl::roundl)
C13_LD(rintl, etl::rintl)
C13_LD(floor, etl::floor)
C13_LD(ceil, etl::ceil)
C13_LD(trunc, etl::trunc)
C13_LD(round, etl::round)
C13_LD(rint, etl::rint)
#undef C13_LD
#define C13_LDI(OP, CALL) constexpr auto ev_##OP##_ld(u64 x, u32 d) -> u64 { return E(CALL(LD(x, d))); }
C13_LDI(lrintl, etl::lrintl)
C13_LDI(llrintl, etl::llrintl)
C13_LDI(lrint, etl::lrint)
C13_LDI(llrint, etl::llrint)
#undef C13_LDI
#define C13_LDB(OP, CALL) constexpr auto ev_##OP##_ld(u64 x, u32 d, u32 n) -> u64 { return E(CALL(LD(x, d, n))); }
C13_LDB(signbit, etl::signbit)
C13_LDB(isnan, etl::isnan)
C13_LDB(isinf, etl::isinf)
C13_LDB(isfinite, etl::isfinite)
C13_LDB(signbit_fb, etl::detail::signbit_fallback<long double>)   // the `sizeof(T) not in {4, 8}` branch, never reached through etl::signbit
C13_LDB(signbit_fb_negnan, etl::detail::signbit_fallback<long double>) // the same function; this table holds the negative NaNs only
#undef C13_LDB
// copysign: both arguments are binary64 values; `n` bit 0 negates the first, bit 1 the second, after the conversion
constexpr auto ev_copysign_ld(u64 x, u64 y, u32 n) -> u64 { return PART(etl::copysign(LD(x, 0, n & 1u), LD(y, 0, (n >> 1) & 1u)), 0); }
constexpr auto ev_copysignl_ld(u64 x, u64 y, u32 n) -> u64 { return PART(etl::copysignl(LD(x, 0, n & 1u), LD(y, 0, (n >> 1) & 1u)), 0); }

// T2: detail::signbit_fallback for the 4- and 8-byte formats (GCC reaches __builtin_signbit instead)
constexpr auto ev_signbit_fb_f32(u32 x) -> u64 { return E(etl::detail::signbit_fallback(F(x))); }
constexpr auto ev_signbit_fb_f64(u64 x) -> u64 { return E(etl::detail::signbit_fallback(D(x))); }

// (c) the integral overloads: `f(Int) -> double` (lrint/llrint -> long/long long, isnan/isinf -> bool)
#define C13_INT(NAME)                                                                                                  \
    constexpr auto ev_##NAME##_i32(i32 x) -> u64 { return E(etl::NAME(x)); }                                          \
    constexpr auto ev_##NAME##_i64(i64 x) -> u64 { return E(etl::NAME(x)); }
C13_INT(floor)
C13_INT(ceil)
C13_INT(trunc)
C13_INT(round)
C13_INT(rint)
C13_INT(lrint)
C13_INT(llrint)
C13_INT(isnan)
C13_INT(isinf)
#undef C13_INT

// T5: byteswap of the one-byte and of the signed types
#define C13_BSX(S) constexpr auto ev_byteswap_##S(S x) -> u64 { return E(etl::byteswap(x)); }
C13_BSX(u8)
C13_BSX(i8)
C13_BSX(i16)
C13_BSX(i32)
C13_BSX(i64)
#undef C13_BSX

// ---------------------------------------------------------------- bit / numeric
#define C13_U(S)                                                                                                       \
    constexpr auto ev_popcount_##S(S x) -> u64 { return E(etl::popcount(x)); }
C13_U(u8)
C13_U(u16)
C13_U(u32)
C13_U(u64)
#undef C13_U
#define C13_BS(S)                                                                                                      \
    constexpr auto ev_byteswap_##S(S x) -> u64 { return E(etl::byteswap(x)); }                                        \
    constexpr auto ev_byteswap_fb_##S(S x) -> u64 { return E(etl::detail::byteswap_fallback(x)); }
C13_BS(u16)
C13_BS(u32)
C13_BS(u64)
#undef C13_BS
#define C13_AS(S)                                                                                                      \
    constexpr auto ev_add_sat_##S(S x, S y) -> u64 { return E(etl::add_sat<S>(x, y)); }                               \
    constexpr auto ev_add_sat_fb_##S(S x, S y) -> u64 { return E(etl::detail::add_sat_fallback<S>(x, y)); }
C13_AS(i8)
C13_AS(u8)
C13_AS(i16)
C13_AS(u16)
C13_AS(i32)
C13_AS(u32)
C13_AS(i64)
C13_AS(u64)
#undef C13_AS

// ---------------------------------------------------------------- T4: one constexpr row per remaining category
// (containers, strings, views, algorithms, integer conversion, chrono).  Single-path code: the obligation is that
// constant evaluation succeeds and gives what run time gives.  Every script is a template over the library (tetl / std).
struct IL { // a list argument of a constexpr row: c13::IL{n, {v0, v1, ...}}
    int n;
    int v[16];
};
template <typename Vec>
constexpr auto vec_script(IL a, int k, int j, int v) -> u64
{
    Vec s{};
    for (int i = 0; i < a.n; ++i) s.push_back(a.v[i]);
    if (k >= 0 and static_cast<std::size_t>(k) < s.size()) s.erase(s.begin() + k);
    if (j >= 0 and static_cast<std::size_t>(j) <= s.size() and s.size() < 8) s.insert(s.begin() + j, v);
    long long h = 1000 * static_cast<long long>(s.size());
    for (std::size_t i = 0; i < s.size(); ++i) h += static_cast<long long>(i + 1) * s[i];
    return E(h);
}
constexpr auto ev_vec(IL a, int k, int j, int v) -> u64 { return vec_script<etl::static_vector<int, 8>>(a, k, j, v); }
template <typename Str>
constexpr auto str_script(IL a, IL b, int c) -> u64
{
    Str s{};
    Str t{};
    for (int i = 0; i < a.n; ++i) s.push_back(static_cast<char>(a.v[i]));
    for (int i = 0; i < b.n; ++i) t.push_back(static_cast<char>(b.v[i]));
    s.append(t);
    auto const f = s.find(static_cast<char>(c));
    return E(static_cast<u64>(f == Str::npos ? 99 : f) + 100 * static_cast<u64>(s.size()));
}
constexpr auto ev_istr(IL a, IL b, int c) -> u64 { return str_script<etl::inplace_string<16>>(a, b, c); }
template <typename SV>
constexpr auto sv_script(IL a, int c, int i, int n) -> u64
{
    char buf[16]{};
    for (int q = 0; q < a.n; ++q) buf[q] = static_cast<char>(a.v[q]);
    SV const sv(buf, static_cast<std::size_t>(a.n));
    auto const sub = sv.substr(static_cast<std::size_t>(i), static_cast<std::size_t>(n)); // i <= a.n
    auto const f   = sub.find(static_cast<char>(c));
    return E(static_cast<u64>(f == SV::npos ? 99 : f) + 100 * static_cast<u64>(sub.size())
             + 10000 * static_cast<u64>(sgn(sub.compare(sv)) + 1));
}
constexpr auto ev_sview(IL a, int c, int i, int n) -> u64 { return sv_script<etl::string_view>(a, c, i, n); }
constexpr auto ev_sortlb(IL a, int v) -> u64
{
    etl::sort(a.v, a.v + a.n);
    auto const idx = etl::lower_bound(a.v, a.v + a.n, v) - a.v;
    long long h    = 0;
    for (int i = 0; i < a.n; ++i) h += static_cast<long long>(i + 1) * a.v[i];
    return E(static_cast<long long>(idx) + 100 * h);
}
inline auto ref_sortlb(IL a, int v) -> u64
{
    std::sort(a.v, a.v + a.n);
    auto const idx = std::lower_bound(a.v, a.v + a.n, v) - a.v;
    long long h    = 0;
    for (int i = 0; i < a.n; ++i) h += static_cast<long long>(i + 1) * a.v[i];
    return E(static_cast<long long>(idx) + 100 * h);
}
#define C13_CONV(FN, NS, QUAL)                                                                                         \
    QUAL auto FN(i32 x, int b) -> u64                                                                                  \
    {                                                                                                                  \
        char buf[40]{};                                                                                                \
        auto const r = NS::to_chars(buf, buf + 40, x, b);                                                              \
        u64 h        = 0;                                                                                              \
        for (char const* p = buf; p != r.ptr; ++p) h = h * 131 + static_cast<unsigned char>(*p);                       \
        i32 back      = 0;                                                                                             \
        auto const fr = NS::from_chars(static_cast<char const*>(buf), r.ptr, back, b);                                 \
        h             = h * 1000003ull + static_cast<u64>(static_cast<i64>(back));                                     \
        return h * 7 + (fr.ptr == r.ptr ? 1 : 0) + (fr.ec == decltype(fr.ec){} ? 2 : 0) + (r.ec == decltype(r.ec){} ? 0 : 4); \
    }
C13_CONV(ev_conv, etl, constexpr)
C13_CONV(ref_conv, std, inline)
#undef C13_CONV
constexpr auto ev_ymd(i32 n) -> u64
{
    auto const d = etl::chrono::year_month_day{etl::chrono::sys_days{etl::chrono::days{n}}};
    return E(static_cast<long long>(static_cast<int>(d.year())) * 10000 + static_cast<long long>(static_cast<unsigned>(d.month())) * 100
             + static_cast<long long>(static_cast<unsigned>(d.day())));
}
inline auto ref_ymd(i32 n) -> u64
{
    auto const d = std::chrono::year_month_day{std::chrono::sys_days{std::chrono::days{n}}};
    return E(static_cast<long long>(static_cast<int>(d.year())) * 10000 + static_cast<long long>(static_cast<unsigned>(d.month())) * 100
             + static_cast<long long>(static_cast<unsigned>(d.day())));
}

// ---------------------------------------------------------------- cstring / cctype
constexpr auto ev_strlen(char const* s) -> u64 { return E(etl::strlen(s)); }
constexpr auto ev_strcmp(char const* a, char const* b) -> u64 { return E(sgn(etl::strcmp(a, b))); }
constexpr auto ev_strncmp(char const* a, char const* b, u64 n) -> u64
{
    return E(sgn(etl::strncmp(a, b, static_cast<etl::size_t>(n))));
}
constexpr auto ev_strchr(char const* s, int c) -> u64
{
    auto const* p = etl::strchr(s, c);
    return p == nullptr ? NULLP : static_cast<u64>(p - s);
}
#define C13_CT(NAME)                                                                                                   \
    constexpr auto ev_ctype_##NAME(int c) -> u64                                                                       \
    {                                                                                                                  \
        return (#NAME[0] == 't') ? E(etl::NAME(c)) : E(etl::NAME(c) != 0);                                             \
    }
C13_CT(isalnum)
C13_CT(isalpha)
C13_CT(isblank)
C13_CT(iscntrl)
C13_CT(isdigit)
C13_CT(isgraph)
C13_CT(islower)
C13_CT(isprint)
C13_CT(ispunct)
C13_CT(isspace)
C13_CT(isupper)
C13_CT(isxdigit)
C13_CT(tolower)
C13_CT(toupper)
#undef C13_CT

} // namespace c13

// the compile-time half: generated by checks/props/c13.py from the cases of this run
#define C13_R(KEY, EXPR) c13::Row{KEY, EXPR}
#include "c13_tables.hpp"

namespace c13 {

enum Kind { KF32, KF64, KI, KU, KP, KX32, KX64, KS32, KS64 }; // KX*: raw bit pattern (NaN payloads kept); KS*: NaN as nan+ / nan- (sign kept, payload dropped)

inline auto fmt(Kind k, u64 v) -> std::string
{
    char buf[40];
    switch (k) {
        case KF32:
            if ((v & 0x7fffffffu) > 0x7f800000u) return "nan";
            std::snprintf(buf, sizeof buf, "%08llx", static_cast<unsigned long long>(v & 0xffffffffu));
            return buf;
        case KF64:
            if ((v & 0x7fffffffffffffffull) > 0x7ff0000000000000ull) return "nan";
            std::snprintf(buf, sizeof buf, "%016llx", static_cast<unsigned long long>(v));
            return buf;
        case KX32: std::snprintf(buf, sizeof buf, "%08llx", static_cast<unsigned long long>(v & 0xffffffffu)); return buf;
        case KX64: std::snprintf(buf, sizeof buf, "%016llx", static_cast<unsigned long long>(v)); return buf;
        case KI: return std::to_string(static_cast<long long>(v));
        case KU: return std::to_string(static_cast<unsigned long long>(v));
        case KS32:
            if ((v & 0x7fffffffu) > 0x7f800000u) return (v >> 31) & 1u ? "nan-" : "nan+";
            return fmt(KF32, v);
        case KS64:
            if ((v & 0x7fffffffffffffffull) > 0x7ff0000000000000ull) return (v >> 63) != 0 ? "nan-" : "nan+";
            return fmt(KF64, v);
        case KP: return v == NULLP ? std::string("null") : std::to_string(static_cast<unsigned long long>(v));
    }
    return "?";
}

// FNV-1a over the canonical text of a case line: `<op> k1=v1 k2=v2 ...`, keys in lexicographic order
inline auto canon(proto::Line const& l) -> std::string
{
    std::string s = l.op;
    for (auto const& kv : l.args) {
        s += " " + kv.first + "=" + kv.second.s;
    }
    return s;
}
inline auto fnv(std::string const& s) -> u64
{
    u64 h = 0xcbf29ce484222325ull;
    for (unsigned char c : s) {
        h ^= c;
        h *= 0x100000001b3ull;
    }
    return h;
}

inline auto cstr(proto::Line const& l, char const* k) -> std::string
{
    std::string s;
    for (auto v : l.list(k)) {
        s.push_back(static_cast<char>(static_cast<unsigned char>(v)));
    }
    return s; // case lines never contain a 0 unit: the terminator of c_str() is the only one
}
template <typename T>
inline auto arg(proto::Line const& l, char const* k) -> T
{
    return launder(static_cast<T>(static_cast<u64>(l.i(k))));
}

// a list argument at run time: every element through a volatile object
inline auto il(proto::Line const& l, char const* k) -> IL
{
    IL r{};
    auto const& v = l.list(k);
    r.n           = launder(static_cast<int>(v.size() <= 16 ? v.size() : 16));
    for (int i = 0; i < r.n; ++i) r.v[i] = launder(static_cast<int>(v[static_cast<std::size_t>(i)]));
    return r;
}

struct Op {
    char const* table;
    Kind kind;
    u64 (*rt)(proto::Line const&);  // tetl at run time
    u64 (*ref)(proto::Line const&); // libstdc++ / glibc at run time
    Row const* rows;
    std::size_t n;
};

template <typename T>
inline auto ref_add_sat(T x, T y) -> u64
{
    __int128 const s = static_cast<__int128>(x) + static_cast<__int128>(y);
    __int128 const lo = std::numeric_limits<T>::min();
    __int128 const hi = std::numeric_limits<T>::max();
    return E(static_cast<T>(s < lo ? lo : (s > hi ? hi : s)));
}
template <typename T>
inline auto ref_bswap(T x) -> u64
{
    T r = 0;
    for (unsigned k = 0; k < sizeof(T); ++k) {
        r = static_cast<T>((r << 8) | ((x >> (8 * k)) & 0xff));
    }
    return E(r);
}

#define L proto::Line const& l
#define C13_OPF1(NAME, KIND32, KIND64, STD)                                                                            \
    Op{#NAME "_f32", KIND32, [](L) { return ev_##NAME##_f32(arg<u32>(l, "x")); },                                      \
       [](L) { return E(STD(launder(F(arg<u32>(l, "x"))))); }, tbl_##NAME##_f32, n_##NAME##_f32},                      \
        Op{#NAME "_f64", KIND64, [](L) { return ev_##NAME##_f64(arg<u64>(l, "x")); },                                  \
           [](L) { return E(STD(launder(D(arg<u64>(l, "x"))))); }, tbl_##NAME##_f64, n_##NAME##_f64}
#define C13_OPPOP(S)                                                                                                   \
    Op{"popcount_" #S, KU, [](L) { return ev_popcount_##S(arg<S>(l, "x")); },                                          \
       [](L) { return E(std::popcount(arg<S>(l, "x"))); }, tbl_popcount_##S, n_popcount_##S}
#define C13_OPBS(S)                                                                                                    \
    Op{"byteswap_" #S, KU, [](L) { return ev_byteswap_##S(arg<S>(l, "x")); },                                          \
       [](L) { return ref_bswap(arg<S>(l, "x")); }, tbl_byteswap_##S, n_byteswap_##S},                                 \
        Op{"byteswap_fb_" #S, KU, [](L) { return ev_byteswap_fb_##S(arg<S>(l, "x")); },                                \
           [](L) { return ref_bswap(arg<S>(l, "x")); }, tbl_byteswap_fb_##S, n_byteswap_fb_##S}
#define C13_OPAS(S, KIND)                                                                                              \
    Op{"add_sat_" #S, KIND, [](L) { return ev_add_sat_##S(arg<S>(l, "x"), arg<S>(l, "y")); },                          \
       [](L) { return ref_add_sat(arg<S>(l, "x"), arg<S>(l, "y")); }, tbl_add_sat_##S, n_add_sat_##S},                 \
        Op{"add_sat_fb_" #S, KIND, [](L) { return ev_add_sat_fb_##S(arg<S>(l, "x"), arg<S>(l, "y")); },                \
           [](L) { return ref_add_sat(arg<S>(l, "x"), arg<S>(l, "y")); }, tbl_add_sat_fb_##S, n_add_sat_fb_##S}
#define C13_OPCT(NAME)                                                                                                 \
    Op{"ctype_" #NAME, KI, [](L) { return ev_ctype_##NAME(arg<int>(l, "c")); },                                        \
       [](L) { return E(#NAME[0] == 't' ? std::NAME(arg<int>(l, "c")) : int(std::NAME(arg<int>(l, "c")) != 0)); },     \
       tbl_ctype_##NAME, n_ctype_##NAME}

inline Op const ops[] = {
    C13_OPF1(floor, KF32, KF64, std::floor),
    C13_OPF1(ceil, KF32, KF64, std::ceil),
    C13_OPF1(trunc, KF32, KF64, std::trunc),
    C13_OPF1(round, KF32, KF64, std::round),
    C13_OPF1(rint, KF32, KF64, std::rint),
    C13_OPF1(lrint, KI, KI, std::lrint),
    C13_OPF1(llrint, KI, KI, std::llrint),
    C13_OPF1(signbit, KU, KU, std::signbit),
    C13_OPF1(isnan, KU, KU, std::isnan),
    C13_OPF1(isinf, KU, KU, std::isinf),
    C13_OPF1(isfinite, KU, KU, std::isfinite),
    C13_OPF1(sqrt, KF32, KF64, std::sqrt),
    Op{"copysign_f32", KS32, [](L) { return ev_copysign_f32(arg<u32>(l, "x"), arg<u32>(l, "y")); },
       [](L) { return E(std::copysign(launder(F(arg<u32>(l, "x"))), launder(F(arg<u32>(l, "y"))))); }, tbl_copysign_f32,
       n_copysign_f32},
    Op{"copysign_f64", KS64, [](L) { return ev_copysign_f64(arg<u64>(l, "x"), arg<u64>(l, "y")); },
       [](L) { return E(std::copysign(launder(D(arg<u64>(l, "x"))), launder(D(arg<u64>(l, "y"))))); }, tbl_copysign_f64,
       n_copysign_f64},
    Op{"fma_f32", KF32, [](L) { return ev_fma_f32(arg<u32>(l, "x"), arg<u32>(l, "y"), arg<u32>(l, "z")); },
       [](L) { return E(std::fma(launder(F(arg<u32>(l, "x"))), launder(F(arg<u32>(l, "y"))), launder(F(arg<u32>(l, "z"))))); },
       tbl_fma_f32, n_fma_f32},
    Op{"fma_f64", KF64, [](L) { return ev_fma_f64(arg<u64>(l, "x"), arg<u64>(l, "y"), arg<u64>(l, "z")); },
       [](L) { return E(std::fma(launder(D(arg<u64>(l, "x"))), launder(D(arg<u64>(l, "y"))), launder(D(arg<u64>(l, "z"))))); },
       tbl_fma_f64, n_fma_f64},
    Op{"bit_cast_f32", KX32, [](L) { return ev_bit_cast_f32(arg<u32>(l, "x")); },
       [](L) { return E(std::bit_cast<u32>(std::bit_cast<float>(arg<u32>(l, "x")))); }, tbl_bit_cast_f32, n_bit_cast_f32},
    Op{"bit_cast_f64", KX64, [](L) { return ev_bit_cast_f64(arg<u64>(l, "x")); },
       [](L) { return E(std::bit_cast<u64>(std::bit_cast<double>(arg<u64>(l, "x")))); }, tbl_bit_cast_f64, n_bit_cast_f64},
    C13_OPPOP(u8),
    C13_OPPOP(u16),
    C13_OPPOP(u32),
    C13_OPPOP(u64),
    C13_OPBS(u16),
    C13_OPBS(u32),
    C13_OPBS(u64),
    C13_OPAS(i8, KI),
    C13_OPAS(u8, KU),
    C13_OPAS(i16, KI),
    C13_OPAS(u16, KU),
    C13_OPAS(i32, KI),
    C13_OPAS(u32, KU),
    C13_OPAS(i64, KI),
    C13_OPAS(u64, KU),
    Op{"strlen", KU, [](L) { auto s = cstr(l, "s"); return ev_strlen(launder(s.c_str())); },
       [](L) { auto s = cstr(l, "s"); return E(std::strlen(launder(s.c_str()))); }, tbl_strlen, n_strlen},
    Op{"strcmp", KI, [](L) { auto a = cstr(l, "a"); auto b = cstr(l, "b"); return ev_strcmp(launder(a.c_str()), launder(b.c_str())); },
       [](L) { auto a = cstr(l, "a"); auto b = cstr(l, "b"); return E(sgn(std::strcmp(launder(a.c_str()), launder(b.c_str())))); },
       tbl_strcmp, n_strcmp},
    Op{"strncmp", KI,
       [](L) { auto a = cstr(l, "a"); auto b = cstr(l, "b"); return ev_strncmp(launder(a.c_str()), launder(b.c_str()), arg<u64>(l, "n")); },
       [](L) { auto a = cstr(l, "a"); auto b = cstr(l, "b"); return E(sgn(std::strncmp(launder(a.c_str()), launder(b.c_str()), arg<u64>(l, "n")))); },
       tbl_strncmp, n_strncmp},
    Op{"strchr", KP, [](L) { auto s = cstr(l, "s"); return ev_strchr(launder(s.c_str()), arg<int>(l, "c")); },
       [](L) {
           auto s        = cstr(l, "s");
           auto const* b = launder(s.c_str());
           auto const* p = std::strchr(b, arg<int>(l, "c"));
           return p == nullptr ? NULLP : static_cast<u64>(p - b);
       },
       tbl_strchr, n_strchr},
    C13_OPCT(isalnum),
    C13_OPCT(isalpha),
    C13_OPCT(isblank),
    C13_OPCT(iscntrl),
    C13_OPCT(isdigit),
    C13_OPCT(isgraph),
    C13_OPCT(islower),
    C13_OPCT(isprint),
    C13_OPCT(ispunct),
    C13_OPCT(isspace),
    C13_OPCT(isupper),
    C13_OPCT(isxdigit),
    C13_OPCT(tolower),
    C13_OPCT(toupper),
    // ---- the other spellings and overloads (T1..T3, T5)
#define C13_OPFF(NAME, KIND, STD)                                                                                      \
    Op{#NAME "_f32", KIND, [](L) { return ev_##NAME##_f32(arg<u32>(l, "x")); },                                        \
       [](L) { return E(STD(launder(F(arg<u32>(l, "x"))))); }, tbl_##NAME##_f32, n_##NAME##_f32}
    C13_OPFF(floorf, KF32, ::floorf),
    C13_OPFF(ceilf, KF32, ::ceilf),
    C13_OPFF(truncf, KF32, ::truncf),
    C13_OPFF(roundf, KF32, ::roundf),
    C13_OPFF(rintf, KF32, ::rintf),
    C13_OPFF(lrintf, KI, ::lrintf),
    C13_OPFF(llrintf, KI, ::llrintf),
    Op{"copysignf_f32", KS32, [](L) { return ev_copysignf_f32(arg<u32>(l, "x"), arg<u32>(l, "y")); },
       [](L) { return E(::copysignf(launder(F(arg<u32>(l, "x"))), launder(F(arg<u32>(l, "y"))))); }, tbl_copysignf_f32,
       n_copysignf_f32},
#define C13_LDARG launder(LD(arg<u64>(l, "x"), arg<u32>(l, "d")))
#define C13_OPLD(OP, STD)                                                                                              \
    Op{#OP "_ld", KF64, [](L) { return ev_##OP##_ld(arg<u64>(l, "x"), arg<u32>(l, "d"), arg<u32>(l, "p")); },          \
       [](L) { return PART(STD(C13_LDARG), arg<u32>(l, "p")); }, tbl_##OP##_ld, n_##OP##_ld}
    C13_OPLD(floorl, ::floorl),
    C13_OPLD(ceill, ::ceill),
    C13_OPLD(truncl, ::truncl),
    C13_OPLD(roundl, ::roundl),
    C13_OPLD(rintl, ::rintl),
    C13_OPLD(floor, std::floor),
    C13_OPLD(ceil, std::ceil),
    C13_OPLD(trunc, std::trunc),
    C13_OPLD(round, std::round),
    C13_OPLD(rint, std::rint),
#define C13_OPLDI(OP, STD)                                                                                             \
    Op{#OP "_ld", KI, [](L) { return ev_##OP##_ld(arg<u64>(l, "x"), arg<u32>(l, "d")); },                              \
       [](L) { return E(STD(C13_LDARG)); }, tbl_##OP##_ld, n_##OP##_ld}
    C13_OPLDI(lrintl, ::lrintl),
    C13_OPLDI(llrintl, ::llrintl),
    C13_OPLDI(lrint, std::lrint),
    C13_OPLDI(llrint, std::llrint),
#define C13_OPLDB(OP, STD)                                                                                             \
    Op{#OP "_ld", KU, [](L) { return ev_##OP##_ld(arg<u64>(l, "x"), arg<u32>(l, "d"), arg<u32>(l, "n")); },            \
       [](L) { return E(STD(launder(LD(arg<u64>(l, "x"), arg<u32>(l, "d"), arg<u32>(l, "n"))))); }, tbl_##OP##_ld,     \
       n_##OP##_ld}
    C13_OPLDB(signbit, std::signbit),
    C13_OPLDB(isnan, std::isnan),
    C13_OPLDB(isinf, std::isinf),
    C13_OPLDB(isfinite, std::isfinite),
    C13_OPLDB(signbit_fb, std::signbit),
    C13_OPLDB(signbit_fb_negnan, std::signbit),
#define C13_OPCSL(OP, STD)                                                                                             \
    Op{#OP "_ld", KS64, [](L) { return ev_##OP##_ld(arg<u64>(l, "x"), arg<u64>(l, "y"), arg<u32>(l, "n")); },          \
       [](L) {                                                                                                         \
           auto const n = arg<u32>(l, "n");                                                                            \
           return PART(STD(launder(LD(arg<u64>(l, "x"), 0, n & 1u)), launder(LD(arg<u64>(l, "y"), 0, (n >> 1) & 1u))), 0); \
       },                                                                                                              \
       tbl_##OP##_ld, n_##OP##_ld}
    C13_OPCSL(copysign, std::copysign),
    C13_OPCSL(copysignl, ::copysignl),
    Op{"signbit_fb_f32", KU, [](L) { return ev_signbit_fb_f32(arg<u32>(l, "x")); },
       [](L) { return E(std::signbit(launder(F(arg<u32>(l, "x"))))); }, tbl_signbit_fb_f32, n_signbit_fb_f32},
    Op{"signbit_fb_f64", KU, [](L) { return ev_signbit_fb_f64(arg<u64>(l, "x")); },
       [](L) { return E(std::signbit(launder(D(arg<u64>(l, "x"))))); }, tbl_signbit_fb_f64, n_signbit_fb_f64},
#define C13_OPINT(NAME, KIND, STD)                                                                                     \
    Op{#NAME "_i32", KIND, [](L) { return ev_##NAME##_i32(arg<i32>(l, "x")); },                                        \
       [](L) { return E(STD(arg<i32>(l, "x"))); }, tbl_##NAME##_i32, n_##NAME##_i32},                                  \
        Op{#NAME "_i64", KIND, [](L) { return ev_##NAME##_i64(arg<i64>(l, "x")); },                                    \
           [](L) { return E(STD(arg<i64>(l, "x"))); }, tbl_##NAME##_i64, n_##NAME##_i64}
    C13_OPINT(floor, KF64, std::floor),
    C13_OPINT(ceil, KF64, std::ceil),
    C13_OPINT(trunc, KF64, std::trunc),
    C13_OPINT(round, KF64, std::round),
    C13_OPINT(rint, KF64, std::rint),
    C13_OPINT(lrint, KI, std::lrint),
    C13_OPINT(llrint, KI, std::llrint),
    C13_OPINT(isnan, KU, std::isnan),
    C13_OPINT(isinf, KU, std::isinf),
#define C13_OPBSX(S, KIND)                                                                                             \
    Op{"byteswap_" #S, KIND, [](L) { return ev_byteswap_##S(arg<S>(l, "x")); },                                        \
       [](L) {                                                                                                         \
           using US = std::make_unsigned_t<S>;                                                                         \
           return E(static_cast<S>(static_cast<US>(ref_bswap(static_cast<US>(arg<S>(l, "x"))))));                      \
       },                                                                                                              \
       tbl_byteswap_##S, n_byteswap_##S}
    C13_OPBSX(u8, KU),
    C13_OPBSX(i8, KI),
    C13_OPBSX(i16, KI),
    C13_OPBSX(i32, KI),
    C13_OPBSX(i64, KI),
    // ---- T4_OPS
    Op{"vec", KI, [](L) { return ev_vec(il(l, "a"), arg<int>(l, "k"), arg<int>(l, "j"), arg<int>(l, "v")); },
       [](L) { return vec_script<std::vector<int>>(il(l, "a"), arg<int>(l, "k"), arg<int>(l, "j"), arg<int>(l, "v")); }, tbl_vec, n_vec},
    Op{"istr", KU, [](L) { return ev_istr(il(l, "a"), il(l, "b"), arg<int>(l, "c")); },
       [](L) { return str_script<std::string>(il(l, "a"), il(l, "b"), arg<int>(l, "c")); }, tbl_istr, n_istr},
    Op{"sview", KU, [](L) { return ev_sview(il(l, "a"), arg<int>(l, "c"), arg<int>(l, "i"), arg<int>(l, "n")); },
       [](L) { return sv_script<std::string_view>(il(l, "a"), arg<int>(l, "c"), arg<int>(l, "i"), arg<int>(l, "n")); }, tbl_sview, n_sview},
    Op{"sortlb", KI, [](L) { return ev_sortlb(il(l, "a"), arg<int>(l, "v")); },
       [](L) { return ref_sortlb(il(l, "a"), arg<int>(l, "v")); }, tbl_sortlb, n_sortlb},
    Op{"conv", KU, [](L) { return ev_conv(arg<i32>(l, "x"), arg<int>(l, "b")); },
       [](L) { return ref_conv(arg<i32>(l, "x"), arg<int>(l, "b")); }, tbl_conv, n_conv},
    Op{"ymd", KI, [](L) { return ev_ymd(arg<i32>(l, "n")); }, [](L) { return ref_ymd(arg<i32>(l, "n")); }, tbl_ymd, n_ymd},
};
#undef L

inline auto table_of(proto::Line const& l) -> std::string
{
    return l.op == "ctype" ? "ctype_" + l.str("f") : l.op;
}

inline auto find_op(proto::Line const& l) -> Op const*
{
    auto const t = table_of(l);
    for (auto const& o : ops) {
        if (t == o.table) return &o;
    }
    return nullptr;
}

// "<ct>/<rt>" of this build for one case line; "bad-op" when the line is not in the compile-time table
inline auto eval(proto::Line const& l) -> std::string
{
    auto const* o = find_op(l);
    if (o == nullptr) return "bad-op";
    auto const key = fnv(canon(l));
    std::size_t lo = 0;
    std::size_t hi = o->n;
    while (lo < hi) {
        auto const mid = (lo + hi) / 2;
        if (o->rows[mid].key < key) {
            lo = mid + 1;
        } else {
            hi = mid;
        }
    }
    if (lo >= o->n or o->rows[lo].key != key) return "bad-op";
    auto const ctv = o->rows[lo].val;
    auto const ct  = ctv == CFAIL ? std::string("cfail") : fmt(o->kind, ctv);
    return ct + "/" + fmt(o->kind, o->rt(l));
}

} // namespace c13
