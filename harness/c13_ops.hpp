// C13 — compile-time evaluation versus run-time execution: the operations.
//
// Every operation is ONE constexpr function `ev_<table>(args...)` that calls the tetl function and encodes the
// result as a 64-bit integer.  It is evaluated
//   * by the constant evaluator, inside the generated `constexpr Row tbl_<table>[]` initialisers of
//     c13_tables.hpp (one row per case line, each on its own source line, so that a failure to constant-evaluate
//     is a compile error at the line of that case: the check maps it back to function and argument), and
//   * at run time on arguments parsed from the case file and passed through a volatile object.
// `etl::is_constant_evaluated()` therefore takes both values for the same call.
//
// This header is compiled three times: into libc13_O0.so (-O0), libc13_O2.so (-O2) (hidden visibility, so that
// the inline tetl functions of one build are not merged with those of another) and into the sanitized main
// harness (-O1, ASan + UBSan).
#pragma once
#include <etl/bit.hpp>
#include <etl/cctype.hpp>
#include <etl/cmath.hpp>
#include <etl/cstring.hpp>
#include <etl/numeric.hpp>

#include <bit>
#include <cctype>
#include <cmath>
#include <cstdint>
#include <cstring>
#include <string>
#include <type_traits>

#include "proto.hpp"

namespace c13 {

using u8  = std::uint8_t;
using u16 = std::uint16_t;
using u32 = std::uint32_t;
using u64 = std::uint64_t;
using i8  = std::int8_t;
using i16 = std::int16_t;
using i32 = std::int32_t;
using i64 = std::int64_t;

constexpr u64 CFAIL = 0xCFA11CFA11CFA11Full; // row value written by the check when the initialiser did not compile
constexpr u64 NULLP = 0xFFFFFFFFFFFFFFF1ull; // null pointer result

struct Row {
    u64 key;
    u64 val;
};

template <typename T>
[[gnu::noinline]] inline auto launder(T v) -> T
{
    volatile T x = v;
    return x;
}

constexpr auto F(u32 b) -> float { return __builtin_bit_cast(float, b); }
constexpr auto D(u64 b) -> double { return __builtin_bit_cast(double, b); }
constexpr auto E(float f) -> u64 { return __builtin_bit_cast(u32, f); }
constexpr auto E(double f) -> u64 { return __builtin_bit_cast(u64, f); }
constexpr auto E(bool b) -> u64 { return b ? 1 : 0; }
template <typename T>
    requires(std::is_integral_v<T> and not std::is_same_v<T, bool>)
constexpr auto E(T v) -> u64
{
    if constexpr (std::is_signed_v<T>) {
        return static_cast<u64>(static_cast<long long>(v));
    } else {
        return static_cast<u64>(v);
    }
}
constexpr auto sgn(int x) -> int { return x < 0 ? -1 : (x > 0 ? 1 : 0); }

// ---------------------------------------------------------------- cmath (bit patterns in, bit patterns out)
#define C13_F1(NAME, CALL)                                                                                             \
    constexpr auto ev_##NAME##_f32(u32 x) -> u64 { return E(CALL(F(x))); }                                            \
    constexpr auto ev_##NAME##_f64(u64 x) -> u64 { return E(CALL(D(x))); }
C13_F1(floor, etl::floor)
C13_F1(ceil, etl::ceil)
C13_F1(trunc, etl::trunc)
C13_F1(round, etl::round)
C13_F1(rint, etl::rint)
C13_F1(lrint, etl::lrint)
C13_F1(llrint, etl::llrint)
C13_F1(signbit, etl::signbit)
C13_F1(isnan, etl::isnan)
C13_F1(isinf, etl::isinf)
C13_F1(isfinite, etl::isfinite)
C13_F1(sqrt, etl::sqrt)
#undef C13_F1
constexpr auto ev_copysign_f32(u32 x, u32 y) -> u64 { return E(etl::copysign(F(x), F(y))); }
constexpr auto ev_copysign_f64(u64 x, u64 y) -> u64 { return E(etl::copysign(D(x), D(y))); }
constexpr auto ev_fma_f32(u32 x, u32 y, u32 z) -> u64 { return E(etl::fma(F(x), F(y), F(z))); }
constexpr auto ev_fma_f64(u64 x, u64 y, u64 z) -> u64 { return E(etl::fma(D(x), D(y), D(z))); }
constexpr auto ev_bit_cast_f32(u32 x) -> u64 { return E(etl::bit_cast<u32>(etl::bit_cast<float>(x))); }
constexpr auto ev_bit_cast_f64(u64 x) -> u64 { return E(etl::bit_cast<u64>(etl::bit_cast<double>(x))); }

// ---------------------------------------------------------------- bit / numeric
#define C13_U(S)                                                                                                       \
    constexpr auto ev_popcount_##S(S x) -> u64 { return E(etl::popcount(x)); }
C13_U(u8)
C13_U(u16)
C13_U(u32)
C13_U(u64)
#undef C13_U
#define C13_BS(S)                                                                                                      \
    constexpr auto ev_byteswap_##S(S x) -> u64 { return E(etl::byteswap(x)); }                                        \
    constexpr auto ev_byteswap_fb_##S(S x) -> u64 { return E(etl::detail::byteswap_fallback(x)); }
C13_BS(u16)
C13_BS(u32)
C13_BS(u64)
#undef C13_BS
#define C13_AS(S)                                                                                                      \
    constexpr auto ev_add_sat_##S(S x, S y) -> u64 { return E(etl::add_sat<S>(x, y)); }                               \
    constexpr auto ev_add_sat_fb_##S(S x, S y) -> u64 { return E(etl::detail::add_sat_fallback<S>(x, y)); }
C13_AS(i8)
C13_AS(u8)
C13_AS(i16)
C13_AS(u16)
C13_AS(i32)
C13_AS(u32)
C13_AS(i64)
C13_AS(u64)
#undef C13_AS

// ---------------------------------------------------------------- cstring / cctype
constexpr auto ev_strlen(char const* s) -> u64 { return E(etl::strlen(s)); }
constexpr auto ev_strcmp(char const* a, char const* b) -> u64 { return E(sgn(etl::strcmp(a, b))); }
constexpr auto ev_strncmp(char const* a, char const* b, u64 n) -> u64
{
    return E(sgn(etl::strncmp(a, b, static_cast<etl::size_t>(n))));
}
constexpr auto ev_strchr(char const* s, int c) -> u64
{
    auto const* p = etl::strchr(s, c);
    return p == nullptr ? NULLP : static_cast<u64>(p - s);
}
#define C13_CT(NAME)                                                                                                   \
    constexpr auto ev_ctype_##NAME(int c) -> u64                                                                       \
    {                                                                                                                  \
        return (#NAME[0] == 't') ? E(etl::NAME(c)) : E(etl::NAME(c) != 0);                                             \
    }
C13_CT(isalnum)
C13_CT(isalpha)
C13_CT(isblank)
C13_CT(iscntrl)
C13_CT(isdigit)
C13_CT(isgraph)
C13_CT(islower)
C13_CT(isprint)
C13_CT(ispunct)
C13_CT(isspace)
C13_CT(isupper)
C13_CT(isxdigit)
C13_CT(tolower)
C13_CT(toupper)
#undef C13_CT

} // namespace c13

// the compile-time half: generated by checks/props/c13.py from the cases of this run
#define C13_R(KEY, EXPR) c13::Row{KEY, EXPR}
#include "c13_tables.hpp"

namespace c13 {

enum Kind { KF32, KF64, KI, KU, KP, KX32, KX64 }; // KX*: raw bit pattern (NaN payloads kept)

inline auto fmt(Kind k, u64 v) -> std::string
{
    char buf[40];
    switch (k) {
        case KF32:
            if ((v & 0x7fffffffu) > 0x7f800000u) return "nan";
            std::snprintf(buf, sizeof buf, "%08llx", static_cast<unsigned long long>(v & 0xffffffffu));
            return buf;
        case KF64:
            if ((v & 0x7fffffffffffffffull) > 0x7ff0000000000000ull) return "nan";
            std::snprintf(buf, sizeof buf, "%016llx", static_cast<unsigned long long>(v));
            return buf;
        case KX32: std::snprintf(buf, sizeof buf, "%08llx", static_cast<unsigned long long>(v & 0xffffffffu)); return buf;
        case KX64: std::snprintf(buf, sizeof buf, "%016llx", static_cast<unsigned long long>(v)); return buf;
        case KI: return std::to_string(static_cast<long long>(v));
        case KU: return std::to_string(static_cast<unsigned long long>(v));
        case KP: return v == NULLP ? std::string("null") : std::to_string(static_cast<unsigned long long>(v));
    }
    return "?";
}

// FNV-1a over the canonical text of a case line: `<op> k1=v1 k2=v2 ...`, keys in lexicographic order
inline auto canon(proto::Line const& l) -> std::string
{
    std::string s = l.op;
    for (auto const& kv : l.args) {
        s += " " + kv.first + "=" + kv.second.s;
    }
    return s;
}
inline auto fnv(std::string const& s) -> u64
{
    u64 h = 0xcbf29ce484222325ull;
    for (unsigned char c : s) {
        h ^= c;
        h *= 0x100000001b3ull;
    }
    return h;
}

inline auto cstr(proto::Line const& l, char const* k) -> std::string
{
    std::string s;
    for (auto v : l.list(k)) {
        s.push_back(static_cast<char>(static_cast<unsigned char>(v)));
    }
    return s; // case lines never contain a 0 unit: the terminator of c_str() is the only one
}
template <typename T>
inline auto arg(proto::Line const& l, char const* k) -> T
{
    return launder(static_cast<T>(static_cast<u64>(l.i(k))));
}

struct Op {
    char const* table;
    Kind kind;
    u64 (*rt)(proto::Line const&);  // tetl at run time
    u64 (*ref)(proto::Line const&); // libstdc++ / glibc at run time
    Row const* rows;
    std::size_t n;
};

template <typename T>
inline auto ref_add_sat(T x, T y) -> u64
{
    __int128 const s = static_cast<__int128>(x) + static_cast<__int128>(y);
    __int128 const lo = std::numeric_limits<T>::min();
    __int128 const hi = std::numeric_limits<T>::max();
    return E(static_cast<T>(s < lo ? lo : (s > hi ? hi : s)));
}
template <typename T>
inline auto ref_bswap(T x) -> u64
{
    T r = 0;
    for (unsigned k = 0; k < sizeof(T); ++k) {
        r = static_cast<T>((r << 8) | ((x >> (8 * k)) & 0xff));
    }
    return E(r);
}

#define L proto::Line const& l
#define C13_OPF1(NAME, KIND32, KIND64, STD)                                                                            \
    Op{#NAME "_f32", KIND32, [](L) { return ev_##NAME##_f32(arg<u32>(l, "x")); },                                      \
       [](L) { return E(STD(launder(F(arg<u32>(l, "x"))))); }, tbl_##NAME##_f32, n_##NAME##_f32},                      \
        Op{#NAME "_f64", KIND64, [](L) { return ev_##NAME##_f64(arg<u64>(l, "x")); },                                  \
           [](L) { return E(STD(launder(D(arg<u64>(l, "x"))))); }, tbl_##NAME##_f64, n_##NAME##_f64}
#define C13_OPPOP(S)                                                                                                   \
    Op{"popcount_" #S, KU, [](L) { return ev_popcount_##S(arg<S>(l, "x")); },                                          \
       [](L) { return E(std::popcount(arg<S>(l, "x"))); }, tbl_popcount_##S, n_popcount_##S}
#define C13_OPBS(S)                                                                                                    \
    Op{"byteswap_" #S, KU, [](L) { return ev_byteswap_##S(arg<S>(l, "x")); },                                          \
       [](L) { return ref_bswap(arg<S>(l, "x")); }, tbl_byteswap_##S, n_byteswap_##S},                                 \
        Op{"byteswap_fb_" #S, KU, [](L) { return ev_byteswap_fb_##S(arg<S>(l, "x")); },                                \
           [](L) { return ref_bswap(arg<S>(l, "x")); }, tbl_byteswap_fb_##S, n_byteswap_fb_##S}
#define C13_OPAS(S, KIND)                                                                                              \
    Op{"add_sat_" #S, KIND, [](L) { return ev_add_sat_##S(arg<S>(l, "x"), arg<S>(l, "y")); },                          \
       [](L) { return ref_add_sat(arg<S>(l, "x"), arg<S>(l, "y")); }, tbl_add_sat_##S, n_add_sat_##S},                 \
        Op{"add_sat_fb_" #S, KIND, [](L) { return ev_add_sat_fb_##S(arg<S>(l, "x"), arg<S>(l, "y")); },                \
           [](L) { return ref_add_sat(arg<S>(l, "x"), arg<S>(l, "y")); }, tbl_add_sat_fb_##S, n_add_sat_fb_##S}
#define C13_OPCT(NAME)                                                                                                 \
    Op{"ctype_" #NAME, KI, [](L) { return ev_ctype_##NAME(arg<int>(l, "c")); },                                        \
       [](L) { return E(#NAME[0] == 't' ? std::NAME(arg<int>(l, "c")) : int(std::NAME(arg<int>(l, "c")) != 0)); },     \
       tbl_ctype_##NAME, n_ctype_##NAME}

inline Op const ops[] = {
    C13_OPF1(floor, KF32, KF64, std::floor),
    C13_OPF1(ceil, KF32, KF64, std::ceil),
    C13_OPF1(trunc, KF32, KF64, std::trunc),
    C13_OPF1(round, KF32, KF64, std::round),
    C13_OPF1(rint, KF32, KF64, std::rint),
    C13_OPF1(lrint, KI, KI, std::lrint),
    C13_OPF1(llrint, KI, KI, std::llrint),
    C13_OPF1(signbit, KU, KU, std::signbit),
    C13_OPF1(isnan, KU, KU, std::isnan),
    C13_OPF1(isinf, KU, KU, std::isinf),
    C13_OPF1(isfinite, KU, KU, std::isfinite),
    C13_OPF1(sqrt, KF32, KF64, std::sqrt),
    Op{"copysign_f32", KF32, [](L) { return ev_copysign_f32(arg<u32>(l, "x"), arg<u32>(l, "y")); },
       [](L) { return E(std::copysign(launder(F(arg<u32>(l, "x"))), launder(F(arg<u32>(l, "y"))))); }, tbl_copysign_f32,
       n_copysign_f32},
    Op{"copysign_f64", KF64, [](L) { return ev_copysign_f64(arg<u64>(l, "x"), arg<u64>(l, "y")); },
       [](L) { return E(std::copysign(launder(D(arg<u64>(l, "x"))), launder(D(arg<u64>(l, "y"))))); }, tbl_copysign_f64,
       n_copysign_f64},
    Op{"fma_f32", KF32, [](L) { return ev_fma_f32(arg<u32>(l, "x"), arg<u32>(l, "y"), arg<u32>(l, "z")); },
       [](L) { return E(std::fma(launder(F(arg<u32>(l, "x"))), launder(F(arg<u32>(l, "y"))), launder(F(arg<u32>(l, "z"))))); },
       tbl_fma_f32, n_fma_f32},
    Op{"fma_f64", KF64, [](L) { return ev_fma_f64(arg<u64>(l, "x"), arg<u64>(l, "y"), arg<u64>(l, "z")); },
       [](L) { return E(std::fma(launder(D(arg<u64>(l, "x"))), launder(D(arg<u64>(l, "y"))), launder(D(arg<u64>(l, "z"))))); },
       tbl_fma_f64, n_fma_f64},
    Op{"bit_cast_f32", KX32, [](L) { return ev_bit_cast_f32(arg<u32>(l, "x")); },
       [](L) { return E(std::bit_cast<u32>(std::bit_cast<float>(arg<u32>(l, "x")))); }, tbl_bit_cast_f32, n_bit_cast_f32},
    Op{"bit_cast_f64", KX64, [](L) { return ev_bit_cast_f64(arg<u64>(l, "x")); },
       [](L) { return E(std::bit_cast<u64>(std::bit_cast<double>(arg<u64>(l, "x")))); }, tbl_bit_cast_f64, n_bit_cast_f64},
    C13_OPPOP(u8),
    C13_OPPOP(u16),
    C13_OPPOP(u32),
    C13_OPPOP(u64),
    C13_OPBS(u16),
    C13_OPBS(u32),
    C13_OPBS(u64),
    C13_OPAS(i8, KI),
    C13_OPAS(u8, KU),
    C13_OPAS(i16, KI),
    C13_OPAS(u16, KU),
    C13_OPAS(i32, KI),
    C13_OPAS(u32, KU),
    C13_OPAS(i64, KI),
    C13_OPAS(u64, KU),
    Op{"strlen", KU, [](L) { auto s = cstr(l, "s"); return ev_strlen(launder(s.c_str())); },
       [](L) { auto s = cstr(l, "s"); return E(std::strlen(launder(s.c_str()))); }, tbl_strlen, n_strlen},
    Op{"strcmp", KI, [](L) { auto a = cstr(l, "a"); auto b = cstr(l, "b"); return ev_strcmp(launder(a.c_str()), launder(b.c_str())); },
       [](L) { auto a = cstr(l, "a"); auto b = cstr(l, "b"); return E(sgn(std::strcmp(launder(a.c_str()), launder(b.c_str())))); },
       tbl_strcmp, n_strcmp},
    Op{"strncmp", KI,
       [](L) { auto a = cstr(l, "a"); auto b = cstr(l, "b"); return ev_strncmp(launder(a.c_str()), launder(b.c_str()), arg<u64>(l, "n")); },
       [](L) { auto a = cstr(l, "a"); auto b = cstr(l, "b"); return E(sgn(std::strncmp(launder(a.c_str()), launder(b.c_str()), arg<u64>(l, "n")))); },
       tbl_strncmp, n_strncmp},
    Op{"strchr", KP, [](L) { auto s = cstr(l, "s"); return ev_strchr(launder(s.c_str()), arg<int>(l, "c")); },
       [](L) {
           auto s        = cstr(l, "s");
           auto const* b = launder(s.c_str());
           auto const* p = std::strchr(b, arg<int>(l, "c"));
           return p == nullptr ? NULLP : static_cast<u64>(p - b);
       },
       tbl_strchr, n_strchr},
    C13_OPCT(isalnum),
    C13_OPCT(isalpha),
    C13_OPCT(isblank),
    C13_OPCT(iscntrl),
    C13_OPCT(isdigit),
    C13_OPCT(isgraph),
    C13_OPCT(islower),
    C13_OPCT(isprint),
    C13_OPCT(ispunct),
    C13_OPCT(isspace),
    C13_OPCT(isupper),
    C13_OPCT(isxdigit),
    C13_OPCT(tolower),
    C13_OPCT(toupper),
};
#undef L

inline auto table_of(proto::Line const& l) -> std::string
{
    return l.op == "ctype" ? "ctype_" + l.str("f") : l.op;
}

inline auto find_op(proto::Line const& l) -> Op const*
{
    auto const t = table_of(l);
    for (auto const& o : ops) {
        if (t == o.table) return &o;
    }
    return nullptr;
}

// "<ct>/<rt>" of this build for one case line; "bad-op" when the line is not in the compile-time table
inline auto eval(proto::Line const& l) -> std::string
{
    auto const* o = find_op(l);
    if (o == nullptr) return "bad-op";
    auto const key = fnv(canon(l));
    std::size_t lo = 0;
    std::size_t hi = o->n;
    while (lo < hi) {
        auto const mid = (lo + hi) / 2;
        if (o->rows[mid].key < key) {
            lo = mid + 1;
        } else {
            hi = mid;
        }
    }
    if (lo >= o->n or o->rows[lo].key != key) return "bad-op";
    auto const ctv = o->rows[lo].val;
    auto const ct  = ctv == CFAIL ? std::string("cfail") : fmt(o->kind, ctv);
    return ct + "/" + fmt(o->kind, o->rt(l));
}

} // namespace c13
