// C14 harness: tetl bit / integer utilities vs libstdc++ <bit>/<numeric>/<utility> and exact __int128
// reference arithmetic, on the same case lines as the Lean driver (lean/Tetl/C14/Driver.lean).
//   <op> t=<type> [u=<type>] a=<int>|as=[..] [b=<int>|bs=[..]]
//   midpoint_ptr t=i64 n=<len> a=<index> b=<index>|bs=[..]      (pointer overload; pointers/result as indices)
// Types: the ten builtin integer types (u8 u16 u32 u64 ull i8 i16 i32 i64 ll) for everything, and the character
// types ch = char, wch = wchar_t, ch8 = char8_t, ch16 = char16_t, ch32 = char32_t for the functions whose
// constraint is `integral` / `is_integral_v` (byteswap, abs<T>, ilog2, ipow, ipow<2>, idiv, midpoint, gcd, lcm);
// every one of them compiles with tetl AND with the libstdc++ reference, so no `*` is needed.  `bool` is not
// instantiated: ilog2<bool> does not compile (`++result`), midpoint/lcm exclude it, and a conversion to bool is
// not the modular conversion of the model.  The functions constrained by `builtin_integer` /
// `builtin_unsigned_integer` (<bit>, add_sat, div_sat, saturate_cast, cmp_*, in_range) reject the character
// types, so they are not compiled for them.
// The harness is built WITHOUT TETL_ENABLE_CONTRACT_CHECKS: `TETL_PRECONDITION` expands to nothing, so a failing
// precondition (e.g. test_bit with pos >= digits, in particular pos >= 2^31) cannot be observed here — the call
// would just run into the undefined shift.  Such positions are therefore not accepted below (bad-op); the failing
// side of these preconditions is driven by the C05 harness (contract-check builds, forked children).
// Values are parsed from the raw text (the shared proto parser is limited to long long).
#include "proto.hpp"

#include <etl/bit.hpp>
#include <etl/cmath.hpp>
#include <etl/numeric.hpp>
#include <etl/utility.hpp>
#include <etl/experimental/net/byte_order.hpp>

#include <arpa/inet.h>

#include <bit>
#include <cstdint>
#include <limits>
#include <numeric>
#include <type_traits>
#include <utility>

using proto::Line;
using W  = __int128;
using UW = unsigned __int128;

static W parse_w(std::string const& s)
{
    std::size_t k = 0;
    bool neg      = false;
    if (k < s.size() && (s[k] == '-' || s[k] == '+')) { neg = s[k] == '-'; ++k; }
    if (k >= s.size()) { std::fprintf(stderr, "c14: bad integer '%s'\n", s.c_str()); std::exit(2); }
    UW v = 0;
    for (; k < s.size(); ++k) {
        if (s[k] < '0' || s[k] > '9') { std::fprintf(stderr, "c14: bad integer '%s'\n", s.c_str()); std::exit(2); }
        v = v * 10 + static_cast<unsigned>(s[k] - '0');
    }
    return neg ? -static_cast<W>(v) : static_cast<W>(v);
}

static std::string fmt_w(W v)
{
    if (v == 0) return "0";
    bool neg = v < 0;
    UW u     = neg ? UW(0) - static_cast<UW>(v) : static_cast<UW>(v);
    std::string r;
    while (u != 0) { r.insert(r.begin(), static_cast<char>('0' + static_cast<int>(u % 10))); u /= 10; }
    return neg ? "-" + r : r;
}

static std::vector<W> parse_list(std::string const& s)
{
    std::vector<W> r;
    if (s.size() < 2 || s.front() != '[' || s.back() != ']') { std::fprintf(stderr, "c14: bad list\n"); std::exit(2); }
    std::size_t i = 1;
    while (i < s.size() - 1) {
        auto j = s.find(',', i);
        if (j == std::string::npos || j > s.size() - 1) j = s.size() - 1;
        r.push_back(parse_w(s.substr(i, j - i)));
        i = j + 1;
    }
    return r;
}

template <typename T>
static bool fits(W v)
{
    return v >= static_cast<W>(std::numeric_limits<T>::min()) && v <= static_cast<W>(std::numeric_limits<T>::max());
}
template <typename T>
static W clampT(W v)
{
    W lo = std::numeric_limits<T>::min(), hi = std::numeric_limits<T>::max();
    return v < lo ? lo : (v > hi ? hi : v);
}
static std::string fb(bool b) { return b ? "1" : "0"; }

template <typename T>
inline constexpr bool is_char_type = std::is_same_v<T, char> || std::is_same_v<T, wchar_t> || std::is_same_v<T, char8_t>
                                  || std::is_same_v<T, char16_t> || std::is_same_v<T, char32_t>;

struct Res {
    std::string impl, ref;
    bool ok = true;
};
static Res bad() { return Res{"bad-op", "bad-op", false}; }
static Res mk(W i, W r) { return Res{fmt_w(i), fmt_w(r), true}; }
static Res mkb(bool i, bool r) { return Res{fb(i), fb(r), true}; }

// ---------------------------------------------------------------- single-type ops
template <typename T>
static Res eval1(std::string const& op, W a, bool has_b, W b)
{
    using L = std::numeric_limits<T>;
    if constexpr (std::is_unsigned_v<T> && !is_char_type<T>) {
        if (fits<T>(a)) {
            T const x = static_cast<T>(a);
            constexpr int D = L::digits;
            if (!has_b) {
                if (op == "popcount") return mk(etl::popcount(x), std::popcount(x));
                if (op == "popcount_fb") return mk(etl::detail::popcount_fallback(x), std::popcount(x));
                if (op == "countl_zero") return mk(etl::countl_zero(x), std::countl_zero(x));
                if (op == "countl_one") return mk(etl::countl_one(x), std::countl_one(x));
                if (op == "countr_zero") return mk(etl::countr_zero(x), std::countr_zero(x));
                if (op == "countr_one") return mk(etl::countr_one(x), std::countr_one(x));
                if (op == "bit_width") return mk(etl::bit_width(x), static_cast<W>(std::bit_width(x)));
                if (op == "bit_ceil") return mk(etl::bit_ceil(x), std::bit_ceil(x));
                if (op == "bit_floor") return mk(etl::bit_floor(x), std::bit_floor(x));
                if (op == "has_single_bit") return mkb(etl::has_single_bit(x), std::has_single_bit(x));
                if (op == "byteswap_fb") {
                    if constexpr (std::is_same_v<T, std::uint16_t> || std::is_same_v<T, std::uint32_t>
                                  || std::is_same_v<T, std::uint64_t>) {
                        UW r = 0;
                        for (unsigned k = 0; k < sizeof(T); ++k) r |= static_cast<UW>((x >> (8 * k)) & 0xFF) << (8 * (sizeof(T) - 1 - k));
                        return mk(etl::detail::byteswap_fallback(x), static_cast<W>(r));
                    } else {
                        return bad();
                    }
                }
                if (op == "ntoh" || op == "hton") {
                    namespace net = etl::experimental::net;
                    if constexpr (std::is_same_v<T, std::uint8_t>) {
                        return mk(op == "ntoh" ? net::ntoh(x) : net::hton(x), x);
                    } else if constexpr (std::is_same_v<T, std::uint16_t>) {
                        return mk(op == "ntoh" ? net::ntoh(x) : net::hton(x), op == "ntoh" ? ::ntohs(x) : ::htons(x));
                    } else if constexpr (std::is_same_v<T, std::uint32_t>) {
                        return mk(op == "ntoh" ? net::ntoh(x) : net::hton(x), op == "ntoh" ? ::ntohl(x) : ::htonl(x));
                    } else {
                        return bad();
                    }
                }
            } else {
                if (op == "rotl" || op == "rotr") {
                    if (!fits<int>(b)) return bad();
                    int const s = static_cast<int>(b);
                    if (op == "rotl") return mk(etl::rotl(x, s), std::rotl(x, s));
                    return mk(etl::rotr(x, s), std::rotr(x, s));
                }
                bool const bitop = op == "test_bit" || op == "set_bit" || op == "reset_bit" || op == "flip_bit"
                                || op == "set_bit_1" || op == "set_bit_0";
                if (bitop) {
                    // pos >= digits fails TETL_PRECONDITION(pos < static_cast<UInt>(digits)); the macro is empty in
                    // this build (see the head of the file), so the failing side is not observable: never generated
                    if (b < 0 || b >= D) return bad();
                    T const p  = static_cast<T>(b);
                    UW const m = UW(1) << static_cast<unsigned>(b);
                    UW const v = x;
                    if (op == "test_bit") return mkb(etl::test_bit(x, p), (v & m) != 0);
                    if (op == "set_bit") return mk(etl::set_bit(x, p), static_cast<W>(v | m));
                    if (op == "reset_bit") return mk(etl::reset_bit(x, p), static_cast<W>(v & ~m));
                    if (op == "flip_bit") return mk(etl::flip_bit(x, p), static_cast<W>(v ^ m));
                    if (op == "set_bit_1") return mk(etl::set_bit(x, p, true), static_cast<W>(v | m));
                    if (op == "set_bit_0") return mk(etl::set_bit(x, p, false), static_cast<W>(v & ~m));
                }
            }
        }
    }
    if (!fits<T>(a)) return bad();
    T const x = static_cast<T>(a);
    if (!has_b) {
        if (op == "byteswap") {
            using U = std::make_unsigned_t<T>;
            U const ux = static_cast<U>(x);
            U r        = 0;
            for (unsigned k = 0; k < sizeof(T); ++k) r = static_cast<U>(r | static_cast<U>(static_cast<U>((ux >> (8 * k)) & 0xFF) << (8 * (sizeof(T) - 1 - k))));
            return mk(etl::byteswap(x), static_cast<T>(r));
        }
        if (op == "abs") return mk(etl::abs<T>(x), a < 0 ? -a : a);
        if (op == "mabs") {
            if constexpr (std::is_same_v<T, int> || std::is_same_v<T, long> || std::is_same_v<T, long long>) {
                return mk(etl::abs(x), a < 0 ? -a : a);
            } else {
                return bad();
            }
        }
        if (op == "ilog2") {
            // x >= 1: floor(log2 x) = std::bit_width(x) - 1.  x <= 0 (zero and every negative value of a signed
            // type): the logarithm does not exist and there is no std counterpart; tetl's documented behaviour
            // (the loop `x > Int(1)` never runs; theorem ilog2_eq) is 0, restated here as the reference value.
            if (a < 1) return mk(etl::ilog2(x), 0);
            return mk(etl::ilog2(x), std::bit_width(static_cast<unsigned long long>(a)) - 1);
        }
        if (op == "ipow2") {
            if (a < 0 || a > 126) return bad();
            return mk(etl::ipow<T(2)>(x), static_cast<W>(UW(1) << static_cast<unsigned>(a)));
        }
        return bad();
    }
    if (!fits<T>(b)) return bad();
    T const y = static_cast<T>(b);
    if constexpr (!is_char_type<T>) {
        if (op == "add_sat") return mk(etl::add_sat(x, y), clampT<T>(a + b));
        // add_sat itself never dispatches to the fallback under GCC/clang (`#else` branch): called directly
        if (op == "add_sat_fb") return mk(etl::detail::add_sat_fallback(x, y), clampT<T>(a + b));
        if (op == "div_sat") {
            if (b == 0) return bad();
            return mk(etl::div_sat(x, y), clampT<T>(a / b));
        }
    }
    if (op == "midpoint") return mk(etl::midpoint(x, y), std::midpoint(x, y));
    if (op == "idiv") {
        if (b == 0) return bad();
        auto const r = etl::idiv(x, y);
        return Res{fmt_w(r.quot) + "/" + fmt_w(r.rem), fmt_w(a / b) + "/" + fmt_w(a % b), true};
    }
    if (op == "ipow") {
        if (b < 0 || b > 100000) return bad();
        W r = 1;
        for (W k = 0; k < b; ++k) r *= a; // the generator keeps the exact result inside the type
        return mk(etl::ipow(x, y), r);
    }
    return bad();
}

// ---------------------------------------------------------------- two-type ops
template <typename T, typename U>
static Res eval2(std::string const& op, W a, bool has_b, W b)
{
    if (!has_b) {
        // t = To / R, u = From / T; `a` is a value of U
        if (!fits<U>(a)) return bad();
        U const x = static_cast<U>(a);
        if (op == "saturate_cast") return mk(etl::saturate_cast<T>(x), clampT<T>(a));
        if (op == "in_range") return mkb(etl::in_range<T>(x), std::in_range<T>(x));
        return bad();
    }
    if (!fits<T>(a) || !fits<U>(b)) return bad();
    T const x = static_cast<T>(a);
    U const y = static_cast<U>(b);
    if (op == "gcd") return mk(etl::gcd(x, y), std::gcd(x, y));
    if (op == "lcm") return mk(etl::lcm(x, y), std::lcm(x, y));
    if (op == "cmp") {
        std::string i = fb(etl::cmp_equal(x, y)) + fb(etl::cmp_not_equal(x, y)) + fb(etl::cmp_less(x, y))
                      + fb(etl::cmp_greater(x, y)) + fb(etl::cmp_less_equal(x, y)) + fb(etl::cmp_greater_equal(x, y));
        std::string r = fb(std::cmp_equal(x, y)) + fb(std::cmp_not_equal(x, y)) + fb(std::cmp_less(x, y))
                      + fb(std::cmp_greater(x, y)) + fb(std::cmp_less_equal(x, y)) + fb(std::cmp_greater_equal(x, y));
        return Res{i, r, true};
    }
    return bad();
}

// gcd / lcm of two values of one character type (the mixed pairs are covered by the builtin types)
template <typename T>
static Res eval_gl(std::string const& op, W a, bool has_b, W b)
{
    if (!has_b || !fits<T>(a) || !fits<T>(b)) return bad();
    T const x = static_cast<T>(a);
    T const y = static_cast<T>(b);
    if (op == "gcd") return mk(etl::gcd(x, y), std::gcd(x, y));
    if (op == "lcm") return mk(etl::lcm(x, y), std::lcm(x, y));
    return bad();
}

// midpoint(Ptr, Ptr): pointers into an exactly sized heap array (ASan red zones on both sides), result as index
static Res eval_midptr(int* base, W n, W ia, W ib)
{
    if (ia < 0 || ia > n || ib < 0 || ib > n) return bad(); // not into the same array: never generated
    int* const a       = base + static_cast<std::ptrdiff_t>(ia);
    int* const b       = base + static_cast<std::ptrdiff_t>(ib);
    int const* const c = b;
    int* const r       = etl::midpoint(a, b);
    int const* const q = etl::midpoint<int const*>(a, c);
    if (q != r) return Res{"const-overload-differs", fmt_w(std::midpoint(a, b) - base), true};
    return mk(r - base, std::midpoint(a, b) - base);
}

template <typename F>
static bool with_char_type(std::string const& n, F f)
{
    if (n == "ch") { f(std::type_identity<char>{}); return true; }
    if (n == "wch") { f(std::type_identity<wchar_t>{}); return true; }
    if (n == "ch8") { f(std::type_identity<char8_t>{}); return true; }
    if (n == "ch16") { f(std::type_identity<char16_t>{}); return true; }
    if (n == "ch32") { f(std::type_identity<char32_t>{}); return true; }
    return false;
}

template <typename F>
static bool with_type(std::string const& n, F f)
{
    if (n == "u8") { f(std::type_identity<std::uint8_t>{}); return true; }
    if (n == "u16") { f(std::type_identity<std::uint16_t>{}); return true; }
    if (n == "u32") { f(std::type_identity<std::uint32_t>{}); return true; }
    if (n == "u64") { f(std::type_identity<std::uint64_t>{}); return true; }
    if (n == "ull") { f(std::type_identity<unsigned long long>{}); return true; }
    if (n == "i8") { f(std::type_identity<std::int8_t>{}); return true; }
    if (n == "i16") { f(std::type_identity<std::int16_t>{}); return true; }
    if (n == "i32") { f(std::type_identity<std::int32_t>{}); return true; }
    if (n == "i64") { f(std::type_identity<std::int64_t>{}); return true; }
    if (n == "ll") { f(std::type_identity<long long>{}); return true; }
    return false;
}

static Res eval(std::string const& op, std::string const& t, std::string const* u, W a, bool has_b, W b)
{
    Res r   = bad();
    bool ok = false;
    static_assert(std::is_signed_v<char> && sizeof(wchar_t) == 4 && std::is_signed_v<wchar_t>,
                  "the model maps char to signed 8 and wchar_t to signed 32 (x86-64 Linux)");
    if (with_char_type(t, [&](auto tt) {
            using T = typename decltype(tt)::type;
            if (u == nullptr) r = eval1<T>(op, a, has_b, b);
            else if (*u == t) r = eval_gl<T>(op, a, has_b, b);
        })) {
        return r;
    }
    if (u != nullptr) {
        ok = with_type(t, [&](auto tt) {
            using T = typename decltype(tt)::type;
            ok      = with_type(*u, [&](auto uu) {
                using U = typename decltype(uu)::type;
                r       = eval2<T, U>(op, a, has_b, b);
            });
        });
    } else {
        ok = with_type(t, [&](auto tt) {
            using T = typename decltype(tt)::type;
            r       = eval1<T>(op, a, has_b, b);
        });
    }
    (void)ok;
    return r;
}

static std::string step(Line const& l)
{
    std::string const badline = "bad-op\tbad-op";
    if (!l.has("t")) return badline;
    std::string const t  = l.str("t");
    std::string ustr     = l.has("u") ? l.str("u") : std::string();
    std::string const* u = l.has("u") ? &ustr : nullptr;
    bool const has_a = l.has("a"), has_as = l.has("as"), has_b = l.has("b"), has_bs = l.has("bs");
    if (l.op == "midpoint_ptr") {
        if (t != "i64" || !l.has("n") || !has_a || has_as || (has_b == has_bs)) return badline;
        W const n = parse_w(l.str("n"));
        if (n < 0 || n > (W(1) << 24)) return badline;
        proto::heap_buf<int> buf(static_cast<std::size_t>(n));
        W const a = parse_w(l.str("a"));
        if (has_b) {
            Res r = eval_midptr(buf.p, n, a, parse_w(l.str("b")));
            return r.ok ? r.impl + "\t" + r.ref : badline;
        }
        std::string impl = "[", ref = "[";
        bool first = true;
        for (W b : parse_list(l.str("bs"))) {
            Res r = eval_midptr(buf.p, n, a, b);
            if (!r.ok) return badline;
            if (!first) { impl += ","; ref += ","; }
            first = false;
            impl += r.impl;
            ref += r.ref;
        }
        return impl + "]\t" + ref + "]";
    }
    if (has_a && !has_as && !has_bs) {
        Res r = eval(l.op, t, u, parse_w(l.str("a")), has_b, has_b ? parse_w(l.str("b")) : W(0));
        return r.ok ? r.impl + "\t" + r.ref : badline;
    }
    std::string impl = "[", ref = "[";
    bool first = true;
    auto push  = [&](Res const& r) {
        if (!first) { impl += ","; ref += ","; }
        first = false;
        impl += r.impl;
        ref += r.ref;
        return r.ok;
    };
    if (has_as && !has_a && !has_bs) {
        W const b = has_b ? parse_w(l.str("b")) : W(0);
        for (W a : parse_list(l.str("as"))) {
            if (!push(eval(l.op, t, u, a, has_b, b))) return badline;
        }
        return impl + "]\t" + ref + "]";
    }
    if (has_a && has_bs && !has_b && !has_as) {
        W const a = parse_w(l.str("a"));
        for (W b : parse_list(l.str("bs"))) {
            if (!push(eval(l.op, t, u, a, true, b))) return badline;
        }
        return impl + "]\t" + ref + "]";
    }
    return badline;
}

int main(int argc, char** argv) { return proto::run(argc, argv, step); }
