// C06 harness: every function of etl/algorithm.hpp and the folds of etl/numeric.hpp against the
// libstdc++ algorithm of the same name, on the same case lines as the Lean driver (see
// lean/Tetl/C06/Driver.lean for the element/comparator/predicate conventions and output formats).
//
// Storage `a=[..]` is an exact-size heap array (ASan red zones on both sides); the range is
// [a+f, a+l) and the elements around it are context with key 7: predicates/comparators set a flag
// when they are applied to a key-7 element (printed as `!pred-oob`), writes to the context show up
// in the printed storage.
// Algorithms that write through an output iterator get a destination storage `dp` context elements (800..), a
// window of exactly as many positions as the std result needs plus `slack` (filled -1,-2,..), one context element
// (899), then the ASan red zone; both sides print the returned iterator as an index into it and the WHOLE destination.
// `it=ra` runs a random-access algorithm on a range-checked iterator: arithmetic that leaves [first,last] or a
// dereference outside [first,last) is printed as `!iter-oob` (pointer arithmetic outside the object is UB that
// neither ASan nor UBSan report when nothing is dereferenced).
// `it=in1` runs an input-iterator algorithm on a GENUINELY single-pass iterator (`sp_it`: every copy shares one
// cursor, like istream_iterator): dereferencing or incrementing a copy that the stream has already left behind
// (a second traversal, `distance(first,last)` before the loop, re-reading a passed position) is printed as `!multipass`.
// `ty=sc|uc|c|sh|b` (arith_step) runs the comparison-based algorithms on arrays of signed char / unsigned char / char /
// short / bool through raw pointers; `ce=1` adds the result of the SAME etl call evaluated by the compiler (constexpr
// tables over a small alphabet), so a run-time-only fast path that disagrees with the constant-evaluated path shows.
#if !defined(C06_PART) || C06_PART != -2 // -2: link step only (the objects of the two parts are on the command line)
#include "proto.hpp"

#include <etl/algorithm.hpp>
#include <etl/functional.hpp>
#include <etl/iterator.hpp>
#include <etl/numeric.hpp>
#include <etl/utility.hpp>

#include <algorithm>
#include <array>
#include <functional>
#include <memory>
#include <numeric>
#include <string>
#include <utility>
#include <vector>

using proto::Line;
using LL = long long;

// Translation units (checks/props/c06.py compiles them in parallel): -DC06_PART=0 the arithmetic-element part,
// -DC06_PART=-1 everything else + main, -DC06_PART=-2 nothing (link step); without -DC06_PART one translation unit.
#ifndef C06_PART
#define C06_PART 99
#endif
std::string arith_step(Line const& ln);

#if C06_PART == 0 || C06_PART == 99
// ---------------------------------------------------------------- arithmetic element types through raw pointers (ty=)
// Elements are the values themselves (no tags): comparison is the built-in `<` / `==` of the type (dflt) or a functor
// (less / greater / eq). With ce=1 every element comes from the alphabet of the type and the lengths are <= 2 (two
// ranges) / <= 3 (one range): the result of the same etl call, evaluated by the compiler, is appended as ` ce=…`.
template <typename T> struct alpha { static constexpr int K = 5; };
template <> struct alpha<signed char> { static constexpr int K = 5; static constexpr signed char v[5] = {-128, -1, 0, 1, 127}; };
template <> struct alpha<unsigned char> { static constexpr int K = 5; static constexpr unsigned char v[5] = {0, 1, 127, 128, 255}; };
template <> struct alpha<char> { static constexpr int K = 5; static constexpr char v[5] = {static_cast<char>(-128), static_cast<char>(-1), 0, 1, 127}; };
template <> struct alpha<short> { static constexpr int K = 5; static constexpr short v[5] = {-32768, -1, 0, 1, 32767}; };
template <> struct alpha<bool> { static constexpr int K = 2; static constexpr bool v[2] = {false, true}; };
constexpr int nseq(int K, int L) { int s = 0, p = 1; for (int n = 0; n <= L; ++n) { s += p; p *= K; } return s; }
template <typename T> struct seq { T d[3] = {}; int n = 0; };
template <typename T> constexpr seq<T> dec(int idx)
{
    constexpr int K = alpha<T>::K;
    seq<T> s;
    int p = 1;
    while (idx >= p) { idx -= p; p *= K; ++s.n; }
    for (int k = s.n - 1; k >= 0; --k) { s.d[k] = alpha<T>::v[idx % K]; idx /= K; }
    return s;
}
template <typename T> constexpr int enc(T const* d, int n)
{
    constexpr int K = alpha<T>::K;
    int base = 0, p = 1, idx = 0;
    for (int k = 0; k < n; ++k) { base += p; p *= K; }
    for (int k = 0; k < n; ++k) {
        int dig = -1;
        for (int q = 0; q < K; ++q) if (alpha<T>::v[q] == d[k]) dig = q;
        if (dig < 0) return -1;
        idx = idx * K + dig;
    }
    return base + idx;
}
template <typename T, typename F> constexpr auto table2(F fn) // both ranges of length <= 2
{
    constexpr int S = nseq(alpha<T>::K, 2);
    std::array<short, S * S> t{};
    for (int i = 0; i < S; ++i)
        for (int j = 0; j < S; ++j) { auto x = dec<T>(i); auto y = dec<T>(j); t[i * S + j] = static_cast<short>(fn(x.d, x.n, y.d, y.n)); }
    return t;
}
template <typename T, typename F> constexpr auto table1(F fn) // one range of length <= 3, one value
{
    constexpr int S = nseq(alpha<T>::K, 3);
    constexpr int K = alpha<T>::K;
    std::array<short, S * K> t{};
    for (int i = 0; i < S; ++i)
        for (int q = 0; q < K; ++q) { auto x = dec<T>(i); t[i * K + q] = static_cast<short>(fn(x.d, x.n, alpha<T>::v[q])); }
    return t;
}
struct ACmp { int kind; template <typename T> constexpr bool operator()(T const& a, T const& b) const { return kind == 1 ? b < a : a < b; } };
struct AEq { template <typename T> constexpr bool operator()(T const& a, T const& b) const { return a == b; } };
template <typename T> struct ce_tab {
    using P = T const*;
    static constexpr auto lex    = table2<T>([](P a, int n, P b, int m) { return etl::lexicographical_compare(a, a + n, b, b + m) ? 1 : 0; });
    static constexpr auto lexc   = table2<T>([](P a, int n, P b, int m) { return etl::lexicographical_compare(a, a + n, b, b + m, ACmp{0}) ? 1 : 0; });
    static constexpr auto equal4 = table2<T>([](P a, int n, P b, int m) { return etl::equal(a, a + n, b, b + m) ? 1 : 0; });
    static constexpr auto equal3 = table2<T>([](P a, int n, P b, int m) { return m < n ? -1 : etl::equal(a, a + n, b) ? 1 : 0; });
    static constexpr auto mism   = table2<T>([](P a, int n, P b, int m) { return static_cast<int>(etl::mismatch(a, a + n, b, b + m).first - a); });
    static constexpr auto search = table2<T>([](P a, int n, P b, int m) { return static_cast<int>(etl::search(a, a + n, b, b + m) - a); });
    static constexpr auto minel  = table1<T>([](P a, int n, T) { return static_cast<int>(etl::min_element(a, a + n) - a); });
    static constexpr auto maxel  = table1<T>([](P a, int n, T) { return static_cast<int>(etl::max_element(a, a + n) - a); });
    static constexpr auto find   = table1<T>([](P a, int n, T v) { return static_cast<int>(etl::find(a, a + n, v) - a); });
    static constexpr auto count  = table1<T>([](P a, int n, T v) { return static_cast<int>(etl::count(a, a + n, v)); });
    static constexpr auto sort   = table1<T>([](P a, int n, T) { T c[3] = {a[0], a[1], a[2]}; etl::sort(c, c + n); return enc<T>(c, n); });
    static constexpr auto ssort  = table1<T>([](P a, int n, T) { T c[3] = {a[0], a[1], a[2]}; etl::stable_sort(c, c + n); return enc<T>(c, n); });
};

template <typename T> static std::string arith(Line const& ln)
{
    auto ri = [](std::ptrdiff_t i) { return "r=" + std::to_string(i); };
    auto rb = [](bool b) { return std::string("r=") + (b ? "1" : "0"); };
    using AB = proto::heap_buf<T>;
    std::string const& op = ln.op;
    std::vector<LL> av    = ln.has("a") ? ln.list("a") : std::vector<LL>{};
    std::vector<LL> bv    = ln.has("b") ? ln.list("b") : std::vector<LL>{};
    std::size_t const N = av.size(), H = bv.size();
    std::size_t const f = ln.has("f") ? static_cast<std::size_t>(ln.i("f")) : 0;
    std::size_t const l = ln.has("l") ? static_cast<std::size_t>(ln.i("l")) : N;
    if (!(f <= l && l <= N)) return "bad-op\tbad-op";
    int const n = static_cast<int>(l - f), m = static_cast<int>(H);
    std::string const cs = ln.has("cmp") ? ln.str("cmp") : "dflt";
    bool const d         = cs == "dflt";
    ACmp const cmp{cs == "greater" ? 1 : 0};
    bool const eqd = !ln.has("eq") || ln.str("eq") == "dflt";
    AEq const eq{};
    std::string const ov = ln.has("ov") ? ln.str("ov") : "";
    bool const ce        = ln.i("ce", 0) != 0;
    T const v            = static_cast<T>(ln.i("v", 0));
    AB a(av), b(bv), s(av);
    T *F = a.p + f, *L = a.p + l, *G = b.p, *Hh = b.p + H, *SF = s.p + f, *SL = s.p + l;
    int i1 = -1, i2 = -1, vq = -1;
    constexpr int S2 = nseq(alpha<T>::K, 2), K = alpha<T>::K;
    if (ce) {
        i1 = n <= 3 ? enc<T>(F, n) : -1;
        i2 = m <= 2 ? enc<T>(G, m) : -1;
        for (int q = 0; q < K; ++q) if (alpha<T>::v[q] == v) vq = q;
        if (i1 < 0) return "bad-op\tbad-op";
    }
    auto out = [](std::string x, std::string y) { return x + "\t" + y; };
    auto t2 = [&](auto const& tab) { return (ce && n <= 2 && i2 >= 0) ? static_cast<int>(tab[static_cast<std::size_t>(i1 * S2 + i2)]) : -99; };
    auto t1 = [&](auto const& tab) { return ce ? static_cast<int>(tab[static_cast<std::size_t>(i1 * K + (vq < 0 ? 0 : vq))]) : -99; };
    auto rbc = [&](bool r, int c) { return rb(r) + (ce ? " ce=" + std::to_string(c) : ""); };
    auto ric = [&](std::ptrdiff_t r, int c) { return ri(r) + (ce ? " ce=" + std::to_string(static_cast<std::ptrdiff_t>(f) + c) : ""); };
    auto srb = [&](bool r) { return rb(r) + (ce ? std::string(" ce=") + (r ? "1" : "0") : ""); };   // oracle column: its own result twice
    auto sri = [&](std::ptrdiff_t r) { return ri(r) + (ce ? " ce=" + std::to_string(r) : ""); };
    using ct = ce_tab<T>;
    if (op == "lexicographical_compare")
        return out(rbc(d ? etl::lexicographical_compare(F, L, G, Hh) : etl::lexicographical_compare(F, L, G, Hh, cmp), t2(d ? ct::lex : ct::lexc)),
            srb(d ? std::lexicographical_compare(F, L, G, Hh) : std::lexicographical_compare(F, L, G, Hh, cmp)));
    if (op == "equal") {
        if (ov == "4") return out(rbc(eqd ? etl::equal(F, L, G, Hh) : etl::equal(F, L, G, Hh, eq), t2(ct::equal4)), srb(eqd ? std::equal(F, L, G, Hh) : std::equal(F, L, G, Hh, eq)));
        if (m < n) return "bad-op\tbad-op";
        return out(rbc(eqd ? etl::equal(F, L, G) : etl::equal(F, L, G, eq), t2(ct::equal3)), srb(eqd ? std::equal(F, L, G) : std::equal(F, L, G, eq)));
    }
    if (op == "mismatch") {
        auto fmt2 = [](std::ptrdiff_t x, std::ptrdiff_t y) { return "r=" + std::to_string(x) + "," + std::to_string(y); };
        auto re = eqd ? etl::mismatch(F, L, G, Hh) : etl::mismatch(F, L, G, Hh, eq);
        auto rs = eqd ? std::mismatch(F, L, G, Hh) : std::mismatch(F, L, G, Hh, eq);
        return out(fmt2(re.first - a.p, re.second - b.p) + (ce ? " ce=" + std::to_string(static_cast<int>(f) + t2(ct::mism)) : ""), fmt2(rs.first - a.p, rs.second - b.p) + (ce ? " ce=" + std::to_string(rs.first - a.p) : ""));
    }
    if (op == "search") return out(ric((eqd ? etl::search(F, L, G, Hh) : etl::search(F, L, G, Hh, eq)) - a.p, t2(ct::search)), sri((eqd ? std::search(F, L, G, Hh) : std::search(F, L, G, Hh, eq)) - a.p));
    if (op == "find_end") return out(ri((eqd ? etl::find_end(F, L, G, Hh) : etl::find_end(F, L, G, Hh, eq)) - a.p), ri((eqd ? std::find_end(F, L, G, Hh) : std::find_end(F, L, G, Hh, eq)) - a.p));
    if (op == "includes") return out(rb(d ? etl::includes(F, L, G, Hh) : etl::includes(F, L, G, Hh, cmp)), rb(d ? std::includes(F, L, G, Hh) : std::includes(F, L, G, Hh, cmp)));
    if (op == "is_permutation") return out(rb(etl::is_permutation(F, L, G, Hh)), rb(std::is_permutation(F, L, G, Hh)));
    if (op == "min_element") return out(ric((d ? etl::min_element(F, L) : etl::min_element(F, L, cmp)) - a.p, t1(ct::minel)), sri((d ? std::min_element(F, L) : std::min_element(F, L, cmp)) - a.p));
    if (op == "max_element") return out(ric((d ? etl::max_element(F, L) : etl::max_element(F, L, cmp)) - a.p, t1(ct::maxel)), sri((d ? std::max_element(F, L) : std::max_element(F, L, cmp)) - a.p));
    if (op == "minmax_element") {
        auto fmt2 = [](std::ptrdiff_t x, std::ptrdiff_t y) { return "r=" + std::to_string(x) + "," + std::to_string(y); };
        auto re = d ? etl::minmax_element(F, L) : etl::minmax_element(F, L, cmp);
        auto rs = d ? std::minmax_element(F, L) : std::minmax_element(F, L, cmp);
        return out(fmt2(re.first - a.p, re.second - a.p), fmt2(rs.first - a.p, rs.second - a.p));
    }
    if (op == "is_sorted_until") return out(ri((d ? etl::is_sorted_until(F, L) : etl::is_sorted_until(F, L, cmp)) - a.p), ri((d ? std::is_sorted_until(F, L) : std::is_sorted_until(F, L, cmp)) - a.p));
    if (op == "find") return out(ric(etl::find(F, L, v) - a.p, t1(ct::find)), sri(std::find(F, L, v) - a.p));
    if (op == "count") return out(ri(etl::count(F, L, v)) + (ce ? " ce=" + std::to_string(t1(ct::count)) : ""), sri(std::count(F, L, v)));
    if (op == "lower_bound") return out(ri((d ? etl::lower_bound(F, L, v) : etl::lower_bound(F, L, v, cmp)) - a.p), ri((d ? std::lower_bound(F, L, v) : std::lower_bound(F, L, v, cmp)) - a.p));
    if (op == "upper_bound") return out(ri((d ? etl::upper_bound(F, L, v) : etl::upper_bound(F, L, v, cmp)) - a.p), ri((d ? std::upper_bound(F, L, v) : std::upper_bound(F, L, v, cmp)) - a.p));
    {
        auto arrs = [&](AB const& x) { return "a=" + proto::fmt_list(x.to_list()); };
        auto cev  = [&](int code) { // the constant-evaluated sorted range, decoded
            if (!ce) return std::string();
            auto q = dec<T>(code);
            std::vector<LL> r;
            for (int k = 0; k < q.n; ++k) r.push_back(static_cast<LL>(q.d[k]));
            return " ce=" + proto::fmt_list(r);
        };
        auto sorts = [&](auto etl_sort, bool stable, int code) {
            etl_sort();
            if (stable) { if (d) std::stable_sort(SF, SL); else std::stable_sort(SF, SL, cmp); }
            else { if (d) std::sort(SF, SL); else std::sort(SF, SL, cmp); }
            std::vector<LL> sr;
            for (T* q = SF; q != SL; ++q) sr.push_back(static_cast<LL>(*q));
            return out(arrs(a) + (d ? cev(code) : std::string()), arrs(s) + (ce ? " ce=" + proto::fmt_list(sr) : std::string()));
        };
        if (ce && !d) return "bad-op\tbad-op";
        if (op == "sort") return sorts([&] { if (d) etl::sort(F, L); else etl::sort(F, L, cmp); }, false, ce ? t1(ct::sort) : 0);
        if (op == "stable_sort") return sorts([&] { if (d) etl::stable_sort(F, L); else etl::stable_sort(F, L, cmp); }, true, ce ? t1(ct::ssort) : 0);
        if (ce) return "bad-op\tbad-op";
        if (op == "insertion_sort") return sorts([&] { if (d) etl::insertion_sort(F, L); else etl::insertion_sort(F, L, cmp); }, true, 0);
        if (op == "merge_sort") return sorts([&] { if (d) etl::merge_sort(F, L); else etl::merge_sort(F, L, cmp); }, true, 0);
        if (op == "gnome_sort") return sorts([&] { if (d) etl::gnome_sort(F, L); else etl::gnome_sort(F, L, cmp); }, false, 0);
        if (op == "bubble_sort") return sorts([&] { if (d) etl::bubble_sort(F, L); else etl::bubble_sort(F, L, cmp); }, false, 0);
        if (op == "exchange_sort") return sorts([&] { if (d) etl::exchange_sort(F, L); else etl::exchange_sort(F, L, cmp); }, false, 0);
    }
    return "bad-op\tbad-op";
}
std::string arith_step(Line const& ln)
{
    std::string const ty = ln.str("ty");
    if (ty == "sc") return arith<signed char>(ln);
    if (ty == "uc") return arith<unsigned char>(ln);
    if (ty == "c") return arith<char>(ln);
    if (ty == "sh") return arith<short>(ln);
    if (ty == "b") return arith<bool>(ln);
    return "bad-op\tbad-op";
}

#endif // arithmetic part

#if C06_PART == -1 || C06_PART == 99

static bool g_ctx_touched = false;
static bool g_iter_oob    = false;
static bool g_multipass   = false;

struct E {
    int v = 0;
    E() = default;
    E(int x) : v(x) { }
    explicit operator long long() const { return v; }
};
static int key(E const& e)
{
    int k = e.v / 100;
    if (k >= 7) g_ctx_touched = true;
    return k;
}
static bool operator==(E const& a, E const& b) { return key(a) == key(b); }
static bool operator<(E const& a, E const& b) { return key(a) < key(b); }

struct Cmp {
    int kind; // 0 less, 1 greater, 2 mod3
    bool operator()(E const& a, E const& b) const
    {
        int x = key(a), y = key(b);
        return kind == 1 ? x > y : kind == 2 ? x % 3 < y % 3 : x < y;
    }
};
struct Eq {
    int kind; // 0 eq, 1 eqmod
    bool operator()(E const& a, E const& b) const
    {
        int x = key(a), y = key(b);
        return kind == 1 ? x % 2 == y % 2 : x == y;
    }
};
struct Pred {
    unsigned mask;
    bool operator()(E const& e) const { return ((mask >> key(e)) & 1U) != 0; }
};
struct Visit { // for_each's functor: the RETURNED copy carries the number of calls
    std::vector<LL>* seen;
    int n = 0;
    void operator()(E const& e) { seen->push_back(e.v); ++n; }
};
// An element type whose exchange is observable: a user-provided swap (found by argument-dependent lookup only) exchanges
// the payload and keeps the per-cell tag; the generic three-move swap moves the tag along.  [alg.swap]: iter_swap is
// `swap(*a, *b)` (unqualified), reverse applies iter_swap exactly (last - first) / 2 times, swap_ranges calls swap n times.
namespace adl {
static int g_user_swaps = 0;
struct S {
    int v    = 0;
    int home = 0;
};
inline void swap(S& a, S& b) noexcept
{
    int t = a.v;
    a.v   = b.v;
    b.v   = t;
    ++g_user_swaps;
}
} // namespace adl

struct ND { // no default constructor: shift_right's `if constexpr (is_default_constructible_v<value_type>)` else-branch
    int v;
    ND() = delete;
    ND(int x) : v(x) { }
};
static int cls(int cmpKind, E e) { return cmpKind == 2 ? (e.v / 100) % 3 : e.v / 100; }

// ---------------------------------------------------------------- iterator wrappers
template <typename T, typename Cat>
struct wit {
    using iterator_category = Cat;
    using value_type        = T;
    using difference_type   = std::ptrdiff_t;
    using pointer           = T*;
    using reference         = T&;
    T* p                    = nullptr;
    wit()                   = default;
    explicit wit(T* q) : p(q) { }
    reference operator*() const { return *p; }
    pointer operator->() const { return p; }
    wit& operator++() { ++p; return *this; }
    wit operator++(int) { auto t = *this; ++p; return t; }
    wit& operator--()
        requires(std::is_base_of_v<etl::bidirectional_iterator_tag, Cat>)
    { --p; return *this; }
    wit operator--(int)
        requires(std::is_base_of_v<etl::bidirectional_iterator_tag, Cat>)
    { auto t = *this; --p; return t; }
    friend bool operator==(wit a, wit b) { return a.p == b.p; }
    friend bool operator!=(wit a, wit b) { return a.p != b.p; }
};
template <typename T>
struct out_it { // output iterator: write-only, single pass
    using iterator_category = etl::output_iterator_tag;
    using value_type        = void;
    using difference_type   = std::ptrdiff_t;
    using pointer           = void;
    using reference         = void;
    T* p                    = nullptr;
    struct proxy { T* q; proxy& operator=(T const& x) { *q = x; return *this; } };
    proxy operator*() const { return proxy{p}; }
    out_it& operator++() { ++p; return *this; }
    out_it operator++(int) { auto t = *this; ++p; return t; }
};
// genuinely single-pass input iterator: all copies made from one iterator share the position of the underlying
// stream; a copy is usable (dereference, increment) only while it stands AT that position ([input.iterators]:
// after ++r, copies of the previous value of r are not required to be dereferenceable). Dereferencing the current
// position more than once is allowed (lexicographical_compare reads `*first1` twice per step, like libstdc++).
template <typename T>
struct sp_it {
    using iterator_category = etl::input_iterator_tag;
    using value_type        = T;
    using difference_type   = std::ptrdiff_t;
    using pointer           = T*;
    using reference         = T&;
    T* p                    = nullptr;
    std::shared_ptr<T*> cur; // where the stream stands
    sp_it() = default;
    explicit sp_it(T* q) : p(q), cur(std::make_shared<T*>(q)) { }
    void fresh() const { if (*cur != p) g_multipass = true; }
    reference operator*() const { fresh(); return *p; }
    pointer operator->() const { fresh(); return p; }
    sp_it& operator++()
    {
        if (*cur != p) { g_multipass = true; p = *cur; return *this; } // the stream has moved on: the copy lands where the stream is
        ++p;
        *cur = p;
        return *this;
    }
    struct post { T* q; T& operator*() const { return *q; } }; // `*r++` is all that an input iterator promises
    post operator++(int) { post r{p}; ++*this; return r; }
    friend bool operator==(sp_it const& a, sp_it const& b) { return a.p == b.p; }
    friend bool operator!=(sp_it const& a, sp_it const& b) { return a.p != b.p; }
};
// random-access iterator that knows the range it was handed (indices relative to the storage base)
template <typename T>
struct rait {
    using iterator_category = etl::random_access_iterator_tag;
    using value_type        = T;
    using difference_type   = std::ptrdiff_t;
    using pointer           = T*;
    using reference         = T&;
    T* b                    = nullptr;
    difference_type i = 0, lo = 0, hi = 0;
    rait() = default;
    rait(T* b_, difference_type i_, difference_type lo_, difference_type hi_) : b(b_), i(i_), lo(lo_), hi(hi_) { chk(); }
    void chk() const { if (i < lo || i > hi) g_iter_oob = true; }
    reference operator*() const
    {
        static T dummy{};
        if (i < lo || i >= hi) { g_iter_oob = true; return dummy; }
        return b[i];
    }
    pointer operator->() const { return &**this; }
    reference operator[](difference_type k) const { return *(*this + k); }
    rait& operator++() { ++i; chk(); return *this; }
    rait operator++(int) { auto t = *this; ++i; chk(); return t; }
    rait& operator--() { --i; chk(); return *this; }
    rait operator--(int) { auto t = *this; --i; chk(); return t; }
    rait& operator+=(difference_type k) { i += k; chk(); return *this; }
    rait& operator-=(difference_type k) { i -= k; chk(); return *this; }
    friend rait operator+(rait a, difference_type k) { a += k; return a; }
    friend rait operator+(difference_type k, rait a) { a += k; return a; }
    friend rait operator-(rait a, difference_type k) { a -= k; return a; }
    friend difference_type operator-(rait a, rait c) { return a.i - c.i; }
    friend bool operator==(rait a, rait c) { return a.i == c.i; }
    friend bool operator!=(rait a, rait c) { return a.i != c.i; }
    friend bool operator<(rait a, rait c) { return a.i < c.i; }
    friend bool operator>(rait a, rait c) { return a.i > c.i; }
    friend bool operator<=(rait a, rait c) { return a.i <= c.i; }
    friend bool operator>=(rait a, rait c) { return a.i >= c.i; }
};
template <typename T> static T* base(rait<T> w) { return w.b + (w.i < w.lo ? w.lo : w.i > w.hi ? w.hi : w.i); }
template <typename T> static T* base(T* p) { return p; }
template <typename T, typename C> static T* base(wit<T, C> w) { return w.p; }
template <typename T> static T* base(out_it<T> w) { return w.p; }
template <typename T> static T* base(sp_it<T> const& w) { return w.p; }

struct mk_ptr { template <typename T> T* operator()(T* p) const { return p; } };
template <typename Cat> struct mk_wit { template <typename T> wit<T, Cat> operator()(T* p) const { return wit<T, Cat>(p); } };
using mk_in   = mk_wit<etl::input_iterator_tag>;
struct mk_in1 { template <typename T> sp_it<T> operator()(T* p) const { return sp_it<T>(p); } };
using mk_fwd  = mk_wit<etl::forward_iterator_tag>;
using mk_bidi = mk_wit<etl::bidirectional_iterator_tag>;
struct mk_ra { // range-checked random access over [b+lo, b+hi]
    void* b0; std::ptrdiff_t lo, hi;
    template <typename T> rait<T> operator()(T* p) const { return rait<T>(static_cast<T*>(b0), p - static_cast<T*>(b0), lo, hi); }
};
struct mk_outp { template <typename T> T* operator()(T* p) const { return p; } };
struct mk_outw { template <typename T> out_it<T> operator()(T* p) const { return out_it<T>{p}; } };

[[noreturn]] static void bad_kind(std::string const& it, char const* what)
{
    std::fprintf(stderr, "c06: iterator kind %s not valid for %s\n", it.c_str(), what);
    std::exit(2);
}
// callers: fn(mk) where mk(ptr) builds the iterator
template <typename F> static std::string with_in(std::string const& it, F fn)
{
    if (it == "ptr") return fn(mk_ptr{});
    if (it == "in") return fn(mk_in{});
    if (it == "in1") return fn(mk_in1{});
    if (it == "fwd") return fn(mk_fwd{});
    if (it == "bidi") return fn(mk_bidi{});
    bad_kind(it, "input");
}
template <typename F> static std::string with_fwd(std::string const& it, F fn)
{
    if (it == "ptr") return fn(mk_ptr{});
    if (it == "fwd") return fn(mk_fwd{});
    if (it == "bidi") return fn(mk_bidi{});
    bad_kind(it, "forward");
}
template <typename F> static std::string with_bidi(std::string const& it, F fn)
{
    if (it == "ptr") return fn(mk_ptr{});
    if (it == "bidi") return fn(mk_bidi{});
    bad_kind(it, "bidirectional");
}
// input kind for the source and pointer / output-iterator for the destination (it=in => output wrapper too)
template <typename F> static std::string with_in_out(std::string const& it, F fn)
{
    if (it == "ptr") return fn(mk_ptr{}, mk_outp{});
    if (it == "in") return fn(mk_in{}, mk_outw{});
    if (it == "in1") return fn(mk_in1{}, mk_outw{});
    if (it == "fwd") return fn(mk_fwd{}, mk_outw{});
    if (it == "bidi") return fn(mk_bidi{}, mk_outp{});
    bad_kind(it, "input/output");
}

template <typename F> static std::string with_bidi_outp(std::string const& it, F fn)
{
    if (it == "ptr") return fn(mk_ptr{}, mk_outp{});
    if (it == "bidi") return fn(mk_bidi{}, mk_outw{});
    bad_kind(it, "bidirectional source");
}
template <typename F> static std::string with_fwd_out(std::string const& it, F fn)
{
    if (it == "ptr") return fn(mk_ptr{}, mk_outp{});
    if (it == "fwd") return fn(mk_fwd{}, mk_outw{});
    if (it == "bidi") return fn(mk_bidi{}, mk_outp{});
    bad_kind(it, "forward source");
}

// ---------------------------------------------------------------- formatting
using Buf = proto::heap_buf<E>;
static std::vector<LL> vals(E const* p, std::size_t n)
{
    std::vector<LL> r;
    for (std::size_t k = 0; k < n; ++k) r.push_back(p[k].v);
    return r;
}
static std::string fl(std::vector<LL> const& v) { return proto::fmt_list(v); }
static std::string fmt_mask(E const* p, std::size_t n, std::size_t lo, std::size_t hi)
{
    std::string r = "[";
    for (std::size_t k = 0; k < n; ++k) {
        if (k) r += ",";
        r += (lo <= k && k < hi) ? std::string("_") : std::to_string(p[k].v);
    }
    return r + "]";
}
template <typename MaskFn> static std::string fmt_maskf(E const* p, std::size_t n, MaskFn masked)
{
    std::string r = "[";
    for (std::size_t k = 0; k < n; ++k) {
        if (k) r += ",";
        r += masked(k) ? std::string("_") : std::to_string(p[k].v);
    }
    return r + "]";
}
static std::vector<LL> sorted(std::vector<LL> v) { std::sort(v.begin(), v.end()); return v; }
static std::vector<LL> classes(int ck, E const* p, std::size_t lo, std::size_t hi)
{
    std::vector<LL> r;
    for (std::size_t k = lo; k < hi; ++k) r.push_back(cls(ck, p[k]));
    return r;
}
static std::string canon_sort(int ck, E const* p, std::size_t n, std::size_t f, std::size_t l)
{
    return "c=" + fl(classes(ck, p, f, l)) + " s=" + fl(sorted(vals(p + f, l - f))) + " a=" + fmt_mask(p, n, f, l);
}
static std::string canon_nth(int ck, E const* p, std::size_t n, std::size_t f, std::size_t m, std::size_t l)
{
    std::string nth = m < l ? std::to_string(cls(ck, p[m])) : "-";
    return "lo=" + fl(sorted(classes(ck, p, f, m))) + " nth=" + nth + " hi="
         + fl(sorted(m < l ? classes(ck, p, m + 1, l) : std::vector<LL>{})) + " s=" + fl(sorted(vals(p + f, l - f)))
         + " a=" + fmt_mask(p, n, f, l);
}
static std::string canon_partial(int ck, E const* p, std::size_t n, std::size_t f, std::size_t m, std::size_t l)
{
    return "c=" + fl(classes(ck, p, f, m)) + " hi=" + fl(sorted(classes(ck, p, m, l))) + " s="
         + fl(sorted(vals(p + f, l - f))) + " a=" + fmt_mask(p, n, f, l);
}
static std::string canon_partition(E const* p, std::size_t n, std::size_t f, std::size_t l, std::size_t r)
{
    return "r=" + std::to_string(r) + " lo=" + fl(sorted(vals(p + f, r - f))) + " hi=" + fl(sorted(vals(p + r, l - r)))
         + " a=" + fmt_mask(p, n, f, l);
}
static std::string ri(std::ptrdiff_t i) { return "r=" + std::to_string(i); }
static std::string rb(bool b) { return std::string("r=") + (b ? "1" : "0"); }

static int cmp_kind(Line const& l)
{
    std::string s = l.has("cmp") ? l.str("cmp") : "dflt";
    return s == "greater" ? 1 : s == "mod3" ? 2 : 0;
}
static bool cmp_dflt(Line const& l) { return !l.has("cmp") || l.str("cmp") == "dflt"; }
static int eq_kind(Line const& l) { return l.has("eq") && l.str("eq") == "eqmod" ? 1 : 0; }
static bool eq_dflt(Line const& l) { return !l.has("eq") || l.str("eq") == "dflt"; }

// runs the etl side with the context flag armed; appends the flag to the result
template <typename F> static std::string impl(F fn)
{
    g_ctx_touched = false;
    g_iter_oob    = false;
    g_multipass   = false;
    std::string r = fn();
    if (g_ctx_touched) r += " !pred-oob";
    if (g_iter_oob) r += " !iter-oob";
    if (g_multipass) r += " !multipass";
    g_ctx_touched = false;
    g_iter_oob    = false;
    g_multipass   = false;
    return r;
}

static std::string step(Line const& ln)
{
    if (ln.has("ty")) return arith_step(ln);
    auto out = [](std::string a, std::string b) { return a + "\t" + b; };
    std::string const& op = ln.op;
    std::string it        = ln.has("it") ? ln.str("it") : "ptr";
    std::string ov        = ln.has("ov") ? ln.str("ov") : "";
    std::vector<LL> av    = ln.has("a") ? ln.list("a") : std::vector<LL>{};
    std::vector<LL> bv    = ln.has("b") ? ln.list("b") : std::vector<LL>{};
    std::size_t const N   = av.size();
    std::size_t const f   = ln.has("f") ? static_cast<std::size_t>(ln.i("f")) : 0;
    std::size_t const l   = ln.has("l") ? static_cast<std::size_t>(ln.i("l")) : N;
    if (!(f <= l && l <= N)) return "bad-op\tbad-op";
    std::size_t const n = l - f;
    std::size_t const H = bv.size();
    LL const cnt        = ln.i("n", 0);
    E const v{static_cast<int>(ln.i("v", 0))};
    E const w{static_cast<int>(ln.i("w", 0))};
    Pred const p{static_cast<unsigned>(ln.i("p", 0))};
    Cmp const cmp{cmp_kind(ln)};
    Eq const eq{eq_kind(ln)};
    int const ck = cmp.kind;
    std::size_t const dp    = static_cast<std::size_t>(ln.i("dp", 0));
    std::size_t const slack = static_cast<std::size_t>(ln.i("slack", 0));
    std::size_t const G0    = static_cast<std::size_t>(ln.i("g", 0));
    std::size_t const H0    = ln.has("h") ? static_cast<std::size_t>(ln.i("h")) : H;
    if (!(G0 <= H0 && H0 <= H)) return "bad-op\tbad-op";
    auto mk_dest = [&](std::size_t room) {
        std::vector<LL> dv;
        for (std::size_t t = 0; t < dp; ++t) dv.push_back(800 + static_cast<LL>(t));
        for (std::size_t t = 0; t < room; ++t) dv.push_back(-1 - static_cast<LL>(t));
        dv.push_back(899);
        return dv;
    };

    // ---- read-only single range -------------------------------------------------------------
    auto ro = [&](auto etl_fn, auto std_fn) { // both return std::string given (first,last) iterators / pointers
        Buf a(av);
        std::string re = impl([&] { return with_in(it, [&](auto mk) { return etl_fn(mk(a.p + f), mk(a.p + l), a.p); }); });
        std::string rs = std_fn(a.p + f, a.p + l, a.p);
        return out(re, rs);
    };
    auto ro_fwd = [&](auto etl_fn, auto std_fn) {
        Buf a(av);
        std::string re = impl([&] { return with_fwd(it, [&](auto mk) { return etl_fn(mk(a.p + f), mk(a.p + l), a.p); }); });
        std::string rs = std_fn(a.p + f, a.p + l, a.p);
        return out(re, rs);
    };
#define IDX(x) ri(base(x) - a0)
    if (op == "find") return ro([&](auto F, auto L, E* a0) { return IDX(etl::find(F, L, v)); }, [&](E* F, E* L, E* a0) { return IDX(std::find(F, L, v)); });
    if (op == "find_if") return ro([&](auto F, auto L, E* a0) { return IDX(etl::find_if(F, L, p)); }, [&](E* F, E* L, E* a0) { return IDX(std::find_if(F, L, p)); });
    if (op == "find_if_not") return ro([&](auto F, auto L, E* a0) { return IDX(etl::find_if_not(F, L, p)); }, [&](E* F, E* L, E* a0) { return IDX(std::find_if_not(F, L, p)); });
    if (op == "all_of") return ro([&](auto F, auto L, E*) { return rb(etl::all_of(F, L, p)); }, [&](E* F, E* L, E*) { return rb(std::all_of(F, L, p)); });
    if (op == "any_of") return ro([&](auto F, auto L, E*) { return rb(etl::any_of(F, L, p)); }, [&](E* F, E* L, E*) { return rb(std::any_of(F, L, p)); });
    if (op == "none_of") return ro([&](auto F, auto L, E*) { return rb(etl::none_of(F, L, p)); }, [&](E* F, E* L, E*) { return rb(std::none_of(F, L, p)); });
    if (op == "count") return ro([&](auto F, auto L, E*) { return ri(etl::count(F, L, v)); }, [&](E* F, E* L, E*) { return ri(std::count(F, L, v)); });
    if (op == "count_if") return ro([&](auto F, auto L, E*) { return ri(etl::count_if(F, L, p)); }, [&](E* F, E* L, E*) { return ri(std::count_if(F, L, p)); });
    if (op == "for_each") {
        return ro(
            [&](auto F, auto L, E*) { std::vector<LL> seen; auto r = etl::for_each(F, L, Visit{&seen}); return fl(seen) + " fn=" + std::to_string(r.n); },
            [&](E* F, E* L, E*) { std::vector<LL> seen; auto r = std::for_each(F, L, Visit{&seen}); return fl(seen) + " fn=" + std::to_string(r.n); });
    }
    if (op == "for_each_n") {
        return ro(
            [&](auto F, auto, E* a0) { std::vector<LL> seen; auto r = etl::for_each_n(F, cnt, [&seen](E const& e) { seen.push_back(e.v); }); return IDX(r) + " v=" + fl(seen); },
            [&](E* F, E*, E* a0) { std::vector<LL> seen; auto r = std::for_each_n(F, cnt, [&seen](E const& e) { seen.push_back(e.v); }); return IDX(r) + " v=" + fl(seen); });
    }
    if (op == "adjacent_find") {
        if (eq_dflt(ln)) return ro_fwd([&](auto F, auto L, E* a0) { return IDX(etl::adjacent_find(F, L)); }, [&](E* F, E* L, E* a0) { return IDX(std::adjacent_find(F, L)); });
        return ro_fwd([&](auto F, auto L, E* a0) { return IDX(etl::adjacent_find(F, L, eq)); }, [&](E* F, E* L, E* a0) { return IDX(std::adjacent_find(F, L, eq)); });
    }
    if (op == "is_sorted") {
        if (cmp_dflt(ln)) return ro_fwd([&](auto F, auto L, E*) { return rb(etl::is_sorted(F, L)); }, [&](E* F, E* L, E*) { return rb(std::is_sorted(F, L)); });
        return ro_fwd([&](auto F, auto L, E*) { return rb(etl::is_sorted(F, L, cmp)); }, [&](E* F, E* L, E*) { return rb(std::is_sorted(F, L, cmp)); });
    }
    if (op == "is_sorted_until") {
        if (cmp_dflt(ln)) return ro_fwd([&](auto F, auto L, E* a0) { return IDX(etl::is_sorted_until(F, L)); }, [&](E* F, E* L, E* a0) { return IDX(std::is_sorted_until(F, L)); });
        return ro_fwd([&](auto F, auto L, E* a0) { return IDX(etl::is_sorted_until(F, L, cmp)); }, [&](E* F, E* L, E* a0) { return IDX(std::is_sorted_until(F, L, cmp)); });
    }
    if (op == "is_partitioned") return ro([&](auto F, auto L, E*) { return rb(etl::is_partitioned(F, L, p)); }, [&](E* F, E* L, E*) { return rb(std::is_partitioned(F, L, p)); });
    if (op == "partition_point") return ro_fwd([&](auto F, auto L, E* a0) { return IDX(etl::partition_point(F, L, p)); }, [&](E* F, E* L, E* a0) { return IDX(std::partition_point(F, L, p)); });
    if (op == "min_element") {
        if (cmp_dflt(ln)) return ro_fwd([&](auto F, auto L, E* a0) { return IDX(etl::min_element(F, L)); }, [&](E* F, E* L, E* a0) { return IDX(std::min_element(F, L)); });
        return ro_fwd([&](auto F, auto L, E* a0) { return IDX(etl::min_element(F, L, cmp)); }, [&](E* F, E* L, E* a0) { return IDX(std::min_element(F, L, cmp)); });
    }
    if (op == "max_element") {
        if (cmp_dflt(ln)) return ro_fwd([&](auto F, auto L, E* a0) { return IDX(etl::max_element(F, L)); }, [&](E* F, E* L, E* a0) { return IDX(std::max_element(F, L)); });
        return ro_fwd([&](auto F, auto L, E* a0) { return IDX(etl::max_element(F, L, cmp)); }, [&](E* F, E* L, E* a0) { return IDX(std::max_element(F, L, cmp)); });
    }
    if (op == "minmax_element") {
        auto fmt2 = [](std::ptrdiff_t x, std::ptrdiff_t y) { return "r=" + std::to_string(x) + "," + std::to_string(y); };
        if (cmp_dflt(ln))
            return ro_fwd([&](auto F, auto L, E* a0) { auto r = etl::minmax_element(F, L); return fmt2(base(r.first) - a0, base(r.second) - a0); },
                [&](E* F, E* L, E* a0) { auto r = std::minmax_element(F, L); return fmt2(r.first - a0, r.second - a0); });
        return ro_fwd([&](auto F, auto L, E* a0) { auto r = etl::minmax_element(F, L, cmp); return fmt2(base(r.first) - a0, base(r.second) - a0); },
            [&](E* F, E* L, E* a0) { auto r = std::minmax_element(F, L, cmp); return fmt2(r.first - a0, r.second - a0); });
    }
    if (op == "min" || op == "max" || op == "minmax" || op == "clamp") {
        auto one = [](E const& e) { return "r=" + std::to_string(e.v); };
        auto two = [](E const& x, E const& y) { return "r=" + std::to_string(x.v) + "," + std::to_string(y.v); };
        bool d   = cmp_dflt(ln);
        if (op == "min") return out(impl([&] { return one(d ? etl::min(v, w) : etl::min(v, w, cmp)); }), one(d ? std::min(v, w) : std::min(v, w, cmp)));
        if (op == "max") return out(impl([&] { return one(d ? etl::max(v, w) : etl::max(v, w, cmp)); }), one(d ? std::max(v, w) : std::max(v, w, cmp)));
        if (op == "minmax") {
            return out(impl([&] { auto r = d ? etl::minmax(v, w) : etl::minmax(v, w, cmp); return two(r.first, r.second); }),
                [&] { auto r = d ? std::minmax(v, w) : std::minmax(v, w, cmp); return two(r.first, r.second); }());
        }
        E const lo{static_cast<int>(ln.i("lo"))}, hi{static_cast<int>(ln.i("hi"))};
        return out(impl([&] { return one(d ? etl::clamp(v, lo, hi) : etl::clamp(v, lo, hi, cmp)); }), one(d ? std::clamp(v, lo, hi) : std::clamp(v, lo, hi, cmp)));
    }
    if (op == "lower_bound") {
        if (cmp_dflt(ln)) return ro_fwd([&](auto F, auto L, E* a0) { return IDX(etl::lower_bound(F, L, v)); }, [&](E* F, E* L, E* a0) { return IDX(std::lower_bound(F, L, v)); });
        return ro_fwd([&](auto F, auto L, E* a0) { return IDX(etl::lower_bound(F, L, v, cmp)); }, [&](E* F, E* L, E* a0) { return IDX(std::lower_bound(F, L, v, cmp)); });
    }
    if (op == "upper_bound") {
        if (cmp_dflt(ln)) return ro_fwd([&](auto F, auto L, E* a0) { return IDX(etl::upper_bound(F, L, v)); }, [&](E* F, E* L, E* a0) { return IDX(std::upper_bound(F, L, v)); });
        return ro_fwd([&](auto F, auto L, E* a0) { return IDX(etl::upper_bound(F, L, v, cmp)); }, [&](E* F, E* L, E* a0) { return IDX(std::upper_bound(F, L, v, cmp)); });
    }
    if (op == "equal_range") {
        auto fmt2 = [](std::ptrdiff_t x, std::ptrdiff_t y) { return "r=" + std::to_string(x) + "," + std::to_string(y); };
        if (cmp_dflt(ln))
            return ro_fwd([&](auto F, auto L, E* a0) { auto r = etl::equal_range(F, L, v); return fmt2(base(r.first) - a0, base(r.second) - a0); },
                [&](E* F, E* L, E* a0) { auto r = std::equal_range(F, L, v); return fmt2(r.first - a0, r.second - a0); });
        return ro_fwd([&](auto F, auto L, E* a0) { auto r = etl::equal_range(F, L, v, cmp); return fmt2(base(r.first) - a0, base(r.second) - a0); },
            [&](E* F, E* L, E* a0) { auto r = std::equal_range(F, L, v, cmp); return fmt2(r.first - a0, r.second - a0); });
    }
    if (op == "binary_search") {
        if (cmp_dflt(ln)) return ro_fwd([&](auto F, auto L, E*) { return rb(etl::binary_search(F, L, v)); }, [&](E* F, E* L, E*) { return rb(std::binary_search(F, L, v)); });
        return ro_fwd([&](auto F, auto L, E*) { return rb(etl::binary_search(F, L, v, cmp)); }, [&](E* F, E* L, E*) { return rb(std::binary_search(F, L, v, cmp)); });
    }
    if (op == "search_n") {
#ifdef C06_SEARCH_N_PTR_ONLY // the unrepaired search_n only compiles for pointers (`ForwardIt found = nullptr`)
        it = "ptr";
        auto ro_p = [&](auto etl_fn, auto std_fn) { Buf a(av); std::string re = impl([&] { return etl_fn(a.p + f, a.p + l, a.p); }); return out(re, std_fn(a.p + f, a.p + l, a.p)); };
        if (eq_dflt(ln)) return ro_p([&](auto F, auto L, E* a0) { return IDX(etl::search_n(F, L, cnt, v)); }, [&](E* F, E* L, E* a0) { return IDX(std::search_n(F, L, cnt, v)); });
        return ro_p([&](auto F, auto L, E* a0) { return IDX(etl::search_n(F, L, cnt, v, eq)); }, [&](E* F, E* L, E* a0) { return IDX(std::search_n(F, L, cnt, v, eq)); });
#else
        if (eq_dflt(ln)) return ro_fwd([&](auto F, auto L, E* a0) { return IDX(etl::search_n(F, L, cnt, v)); }, [&](E* F, E* L, E* a0) { return IDX(std::search_n(F, L, cnt, v)); });
        return ro_fwd([&](auto F, auto L, E* a0) { return IDX(etl::search_n(F, L, cnt, v, eq)); }, [&](E* F, E* L, E* a0) { return IDX(std::search_n(F, L, cnt, v, eq)); });
#endif
    }

    // ---- read-only, two ranges --------------------------------------------------------------
    auto ro2 = [&](auto etl_fn, auto std_fn) {
        Buf a(av);
        Buf b(bv);
        std::string re = impl([&] {
            return with_in(it, [&](auto mk) { return etl_fn(mk(a.p + f), mk(a.p + l), mk(b.p + G0), mk(b.p + H0), a.p, b.p); });
        });
        std::string rs = std_fn(a.p + f, a.p + l, b.p + G0, b.p + H0, a.p, b.p);
        return out(re, rs);
    };
    // first range through any input kind, the second one must be multi-pass (find_first_of re-traverses the needle)
    auto ro2n = [&](auto etl_fn, auto std_fn) {
        Buf a(av);
        Buf b(bv);
        std::string re = impl([&] {
            if (it == "in1") return etl_fn(mk_in1{}(a.p + f), mk_in1{}(a.p + l), mk_fwd{}(b.p + G0), mk_fwd{}(b.p + H0), a.p, b.p);
            return with_in(it, [&](auto mk) { return etl_fn(mk(a.p + f), mk(a.p + l), mk(b.p + G0), mk(b.p + H0), a.p, b.p); });
        });
        std::string rs = std_fn(a.p + f, a.p + l, b.p + G0, b.p + H0, a.p, b.p);
        return out(re, rs);
    };
    auto ro2_fwd = [&](auto etl_fn, auto std_fn) {
        Buf a(av);
        Buf b(bv);
        std::string re = impl([&] {
            return with_fwd(it, [&](auto mk) { return etl_fn(mk(a.p + f), mk(a.p + l), mk(b.p + G0), mk(b.p + H0), a.p, b.p); });
        });
        std::string rs = std_fn(a.p + f, a.p + l, b.p + G0, b.p + H0, a.p, b.p);
        return out(re, rs);
    };
    if (op == "search") {
        if (eq_dflt(ln)) return ro2_fwd([&](auto F, auto L, auto G, auto Hh, E* a0, E*) { return IDX(etl::search(F, L, G, Hh)); }, [&](E* F, E* L, E* G, E* Hh, E* a0, E*) { return IDX(std::search(F, L, G, Hh)); });
        return ro2_fwd([&](auto F, auto L, auto G, auto Hh, E* a0, E*) { return IDX(etl::search(F, L, G, Hh, eq)); }, [&](E* F, E* L, E* G, E* Hh, E* a0, E*) { return IDX(std::search(F, L, G, Hh, eq)); });
    }
    if (op == "find_end") {
        if (eq_dflt(ln)) return ro2_fwd([&](auto F, auto L, auto G, auto Hh, E* a0, E*) { return IDX(etl::find_end(F, L, G, Hh)); }, [&](E* F, E* L, E* G, E* Hh, E* a0, E*) { return IDX(std::find_end(F, L, G, Hh)); });
        return ro2_fwd([&](auto F, auto L, auto G, auto Hh, E* a0, E*) { return IDX(etl::find_end(F, L, G, Hh, eq)); }, [&](E* F, E* L, E* G, E* Hh, E* a0, E*) { return IDX(std::find_end(F, L, G, Hh, eq)); });
    }
    if (op == "find_first_of") {
        if (eq_dflt(ln)) return ro2n([&](auto F, auto L, auto G, auto Hh, E* a0, E*) { return IDX(etl::find_first_of(F, L, G, Hh)); }, [&](E* F, E* L, E* G, E* Hh, E* a0, E*) { return IDX(std::find_first_of(F, L, G, Hh)); });
        return ro2n([&](auto F, auto L, auto G, auto Hh, E* a0, E*) { return IDX(etl::find_first_of(F, L, G, Hh, eq)); }, [&](E* F, E* L, E* G, E* Hh, E* a0, E*) { return IDX(std::find_first_of(F, L, G, Hh, eq)); });
    }
    if (op == "mismatch") {
        auto fmt2 = [](std::ptrdiff_t x, std::ptrdiff_t y) { return "r=" + std::to_string(x) + "," + std::to_string(y); };
        bool d = eq_dflt(ln);
        if (ov == "4")
            return ro2([&](auto F, auto L, auto G, auto Hh, E* a0, E* b0) { auto r = d ? etl::mismatch(F, L, G, Hh) : etl::mismatch(F, L, G, Hh, eq); return fmt2(base(r.first) - a0, base(r.second) - b0); },
                [&](E* F, E* L, E* G, E* Hh, E* a0, E* b0) { auto r = d ? std::mismatch(F, L, G, Hh) : std::mismatch(F, L, G, Hh, eq); return fmt2(r.first - a0, r.second - b0); });
        return ro2([&](auto F, auto L, auto G, auto, E* a0, E* b0) { auto r = d ? etl::mismatch(F, L, G) : etl::mismatch(F, L, G, eq); return fmt2(base(r.first) - a0, base(r.second) - b0); },
            [&](E* F, E* L, E* G, E*, E* a0, E* b0) { auto r = d ? std::mismatch(F, L, G) : std::mismatch(F, L, G, eq); return fmt2(r.first - a0, r.second - b0); });
    }
    if (op == "equal") {
        bool d = eq_dflt(ln);
        if (ov == "4")
            return ro2([&](auto F, auto L, auto G, auto Hh, E*, E*) { return rb(d ? etl::equal(F, L, G, Hh) : etl::equal(F, L, G, Hh, eq)); },
                [&](E* F, E* L, E* G, E* Hh, E*, E*) { return rb(d ? std::equal(F, L, G, Hh) : std::equal(F, L, G, Hh, eq)); });
        return ro2([&](auto F, auto L, auto G, auto, E*, E*) { return rb(d ? etl::equal(F, L, G) : etl::equal(F, L, G, eq)); },
            [&](E* F, E* L, E* G, E*, E*, E*) { return rb(d ? std::equal(F, L, G) : std::equal(F, L, G, eq)); });
    }
    if (op == "lexicographical_compare") {
        bool d = cmp_dflt(ln);
        return ro2([&](auto F, auto L, auto G, auto Hh, E*, E*) { return rb(d ? etl::lexicographical_compare(F, L, G, Hh) : etl::lexicographical_compare(F, L, G, Hh, cmp)); },
            [&](E* F, E* L, E* G, E* Hh, E*, E*) { return rb(d ? std::lexicographical_compare(F, L, G, Hh) : std::lexicographical_compare(F, L, G, Hh, cmp)); });
    }
    if (op == "is_permutation") {
        if (ov == "4")
            return ro2_fwd([&](auto F, auto L, auto G, auto Hh, E*, E*) { return rb(etl::is_permutation(F, L, G, Hh)); },
                [&](E* F, E* L, E* G, E* Hh, E*, E*) { return rb(std::is_permutation(F, L, G, Hh)); });
        return ro2_fwd([&](auto F, auto L, auto G, auto, E*, E*) { return rb(etl::is_permutation(F, L, G)); },
            [&](E* F, E* L, E* G, E*, E*, E*) { return rb(std::is_permutation(F, L, G)); });
    }
    if (op == "includes") {
        bool d = cmp_dflt(ln);
        return ro2([&](auto F, auto L, auto G, auto Hh, E*, E*) { return rb(d ? etl::includes(F, L, G, Hh) : etl::includes(F, L, G, Hh, cmp)); },
            [&](E* F, E* L, E* G, E* Hh, E*, E*) { return rb(d ? std::includes(F, L, G, Hh) : std::includes(F, L, G, Hh, cmp)); });
    }

    // ---- in place ---------------------------------------------------------------------------
    // etl_fn / std_fn mutate their own copy of the storage and return the formatted result
    auto inplace_fwd = [&](auto etl_fn, auto std_fn) {
        Buf a(av);
        Buf s(av);
        std::string re = impl([&] { return with_fwd(it, [&](auto mk) { return etl_fn(mk(a.p + f), mk(a.p + l), a.p, mk); }); });
        std::string rs = std_fn(s.p + f, s.p + l, s.p, mk_ptr{});
        return out(re, rs);
    };
    auto inplace_bidi = [&](auto etl_fn, auto std_fn) {
        Buf a(av);
        Buf s(av);
        std::string re = impl([&] { return with_bidi(it, [&](auto mk) { return etl_fn(mk(a.p + f), mk(a.p + l), a.p, mk); }); });
        std::string rs = std_fn(s.p + f, s.p + l, s.p, mk_ptr{});
        return out(re, rs);
    };
    auto inplace_ra = [&](auto etl_fn, auto std_fn) {
        Buf a(av);
        Buf s(av);
        std::string re = impl([&] {
            if (it == "ra") {
                mk_ra mk{a.p, static_cast<std::ptrdiff_t>(f), static_cast<std::ptrdiff_t>(l)};
                return etl_fn(mk(a.p + f), mk(a.p + l), a.p, mk);
            }
            if (it != "ptr") bad_kind(it, "random access");
            return etl_fn(a.p + f, a.p + l, a.p, mk_ptr{});
        });
        std::string rs = std_fn(s.p + f, s.p + l, s.p, mk_ptr{});
        return out(re, rs);
    };
    auto arr = [&](E* a0) { return "a=" + fl(vals(a0, N)); };
    std::size_t const m = ln.has("m") ? static_cast<std::size_t>(ln.i("m")) : f;

    if (op == "rotate")
        return inplace_fwd([&](auto F, auto L, E* a0, auto mk) { auto r = etl::rotate(F, mk(a0 + m), L); return IDX(r) + " " + arr(a0); },
            [&](E* F, E* L, E* a0, auto) { auto r = std::rotate(F, a0 + m, L); return IDX(r) + " " + arr(a0); });
    if (op == "adl_swap") { // n elements; the number of user-swap calls and the payload/tag layout after each of the three algorithms
        std::size_t const k = static_cast<std::size_t>(ln.i("n", 0));
        auto run = [&](auto iter_swap_fn, auto reverse_fn, auto swap_ranges_fn) {
            std::vector<adl::S> x(k + 2), y(k + 2);
            auto fill = [&] { for (std::size_t t = 0; t < k + 2; ++t) { x[t] = adl::S{static_cast<int>(10 + t), static_cast<int>(t)}; y[t] = adl::S{static_cast<int>(50 + t), static_cast<int>(100 + t)}; } };
            auto show = [&] {
                std::string r = " u=" + std::to_string(adl::g_user_swaps) + " x=";
                for (auto const& e : x) r += std::to_string(e.v) + "@" + std::to_string(e.home) + ",";
                r += " y=";
                for (auto const& e : y) r += std::to_string(e.v) + "@" + std::to_string(e.home) + ",";
                return r;
            };
            std::string r;
            fill(); adl::g_user_swaps = 0; iter_swap_fn(x.data(), y.data() + 1); r += "is" + show();
            fill(); adl::g_user_swaps = 0; reverse_fn(x.data() + 1, x.data() + 1 + k); r += " rv" + show();
            fill(); adl::g_user_swaps = 0; swap_ranges_fn(x.data() + 1, x.data() + 1 + k, y.data() + 1); r += " sr" + show();
            return r;
        };
        std::string re = impl([&] { return run([](auto a0, auto b0) { etl::iter_swap(a0, b0); }, [](auto F, auto L) { etl::reverse(F, L); }, [](auto F, auto L, auto D) { etl::swap_ranges(F, L, D); }); });
        std::string rs = run([](auto a0, auto b0) { std::iter_swap(a0, b0); }, [](auto F, auto L) { std::reverse(F, L); }, [](auto F, auto L, auto D) { std::swap_ranges(F, L, D); });
        return out(re, rs);
    }
    if (op == "reverse" && it == "rptr") { // the same range seen through reverse_iterators (random access: `first < last`)
        Buf a(av), s(av);
        std::string re = impl([&] { etl::reverse(etl::make_reverse_iterator(a.p + l), etl::make_reverse_iterator(a.p + f)); return arr(a.p); });
        std::reverse(std::make_reverse_iterator(s.p + l), std::make_reverse_iterator(s.p + f));
        return out(re, arr(s.p));
    }
    if (op == "rit_rel") { // relational operators of reverse_iterator: positions i, j of the base iterators
        Buf a(av);
        auto const i = static_cast<std::size_t>(ln.i("i")), j = static_cast<std::size_t>(ln.i("j"));
        auto e1 = etl::make_reverse_iterator(a.p + i), e2 = etl::make_reverse_iterator(a.p + j);
        auto s1 = std::make_reverse_iterator(a.p + i), s2 = std::make_reverse_iterator(a.p + j);
        auto f6 = [](bool a0, bool b0, bool c0, bool d0, bool e0, bool g0) {
            std::string r;
            for (bool x : {a0, b0, c0, d0, e0, g0}) r += x ? '1' : '0';
            return r + "";
        };
        std::string re = impl([&] { return f6(e1 == e2, e1 != e2, e1 < e2, e1 <= e2, e1 > e2, e1 >= e2) + " d=" + std::to_string(e2 - e1); });
        return out(re, f6(s1 == s2, s1 != s2, s1 < s2, s1 <= s2, s1 > s2, s1 >= s2) + " d=" + std::to_string(s2 - s1));
    }
    if (op == "reverse")
        return inplace_bidi([&](auto F, auto L, E* a0, auto) { etl::reverse(F, L); return arr(a0); }, [&](E* F, E* L, E* a0, auto) { std::reverse(F, L); return arr(a0); });
    if (op == "swap_ranges") {
        Buf a(av), s(av), b1(bv), b2(bv);
        std::string re = impl([&] {
            return with_fwd(it, [&](auto mk) {
                auto r = etl::swap_ranges(mk(a.p + f), mk(a.p + l), mk(b1.p));
                return ri(base(r) - b1.p) + " a=" + fl(vals(a.p, N)) + " b=" + fl(vals(b1.p, H));
            });
        });
        auto r = std::swap_ranges(s.p + f, s.p + l, b2.p);
        return out(re, ri(r - b2.p) + " a=" + fl(vals(s.p, N)) + " b=" + fl(vals(b2.p, H)));
    }
    if (op == "copy" || op == "move" || op == "copy_backward" || op == "move_backward") {
        std::size_t const d = static_cast<std::size_t>(ln.i("d"));
        bool const back     = op == "copy_backward" || op == "move_backward";
        bool const mv       = op == "move" || op == "move_backward";
        std::size_t const dlo = back ? d - n : d, dhi = back ? d : d + n;
        auto show = [&](E* a0) {
            return "a=" + fmt_maskf(a0, N, [&](std::size_t k) { return mv && f <= k && k < l && !(dlo <= k && k < dhi); });
        };
        Buf a(av), s(av);
        std::string re = impl([&] {
            if (back)
                return with_bidi(it, [&](auto mk) {
                    auto r = mv ? etl::move_backward(mk(a.p + f), mk(a.p + l), mk(a.p + d)) : etl::copy_backward(mk(a.p + f), mk(a.p + l), mk(a.p + d));
                    return ri(base(r) - a.p) + " " + show(a.p);
                });
            return with_in(it, [&](auto mk) {
                auto r = mv ? etl::move(mk(a.p + f), mk(a.p + l), mk(a.p + d)) : etl::copy(mk(a.p + f), mk(a.p + l), mk(a.p + d));
                return ri(base(r) - a.p) + " " + show(a.p);
            });
        });
        E* r = back ? (mv ? std::move_backward(s.p + f, s.p + l, s.p + d) : std::copy_backward(s.p + f, s.p + l, s.p + d))
                    : (mv ? std::move(s.p + f, s.p + l, s.p + d) : std::copy(s.p + f, s.p + l, s.p + d));
        return out(re, ri(r - s.p) + " " + show(s.p));
    }

    // ---- output-stream algorithms: std first (sizes the exact-fit destination) ---------------
    // std_fn(F,L,G,H,dest) -> end of output ; etl_fn(F,L,G,H,dest) -> end (iterator)
    auto to_out_with = [&](auto disp, auto etl_fn, auto std_fn) {
        Buf a(av), b(bv);
        std::vector<E> big(N + H + 8);
        E* se = std_fn(a.p + f, a.p + l, b.p, b.p + H, big.data());
        std::size_t const k      = static_cast<std::size_t>(se - big.data());
        std::vector<LL> const dv = mk_dest(k + slack);
        Buf ds(dv), de(dv);
        E* sr          = std_fn(a.p + f, a.p + l, b.p, b.p + H, ds.p + dp);
        std::string rs = ri(sr - ds.p) + " d=" + fl(vals(ds.p, dv.size()));
        std::string re = impl([&] {
            return disp(it, [&](auto mk, auto mko) {
                auto r = etl_fn(mk(a.p + f), mk(a.p + l), mk(b.p), mk(b.p + H), mko(de.p + dp));
                return ri(base(r) - de.p) + " d=" + fl(vals(de.p, dv.size()));
            });
        });
        return out(re, rs);
    };
    auto d_inout = [](std::string const& k, auto fn) { return with_in_out(k, fn); };
    auto d_bidip = [](std::string const& k, auto fn) { return with_bidi_outp(k, fn); };
    auto d_fwdo  = [](std::string const& k, auto fn) { return with_fwd_out(k, fn); };
    auto to_out  = [&](auto etl_fn, auto std_fn) { return to_out_with(d_inout, etl_fn, std_fn); };
#define OUT1(NAME, ...)                                                                                                \
    return to_out([&](auto F, auto L, auto, auto, auto D) { return etl::NAME(F, L, D, ##__VA_ARGS__); },               \
        [&](E* F, E* L, E*, E*, E* D) { return std::NAME(F, L, D, ##__VA_ARGS__); })
#define OUT1B(NAME, ...)                                                                                               \
    return to_out_with(d_bidip, [&](auto F, auto L, auto, auto, auto D) { return etl::NAME(F, L, D, ##__VA_ARGS__); }, \
        [&](E* F, E* L, E*, E*, E* D) { return std::NAME(F, L, D, ##__VA_ARGS__); })
#define OUT2(NAME, ...)                                                                                                \
    return to_out([&](auto F, auto L, auto G, auto Hh, auto D) { return etl::NAME(F, L, G, Hh, D, ##__VA_ARGS__); },   \
        [&](E* F, E* L, E* G, E* Hh, E* D) { return std::NAME(F, L, G, Hh, D, ##__VA_ARGS__); })
    if (op == "copy_out") OUT1(copy);
    if (op == "move_out")
        return to_out([&](auto F, auto L, auto, auto, auto D) { return etl::move(F, L, D); }, [&](E* F, E* L, E*, E*, E* D) { return std::move(F, L, D); });
    if (op == "copy_if") OUT1(copy_if, p);
    if (op == "copy_n")
        return to_out([&](auto F, auto, auto, auto, auto D) { return etl::copy_n(F, cnt, D); }, [&](E* F, E*, E*, E*, E* D) { return std::copy_n(F, cnt, D); });
    if (op == "remove_copy") OUT1(remove_copy, v);
    if (op == "remove_copy_if") OUT1(remove_copy_if, p);
    if (op == "unique_copy") {
        // pointer destination: the read-back branch; output-iterator wrapper (it=in|fwd): the value-copy branch
        if (eq_dflt(ln)) OUT1(unique_copy);
        OUT1(unique_copy, eq);
    }
    if (op == "reverse_copy") {
        OUT1B(reverse_copy);
    }
    if (op == "rotate_copy") {
        return to_out_with(d_fwdo, [&](auto F, auto L, auto, auto, auto D) { auto M = F; for (std::size_t t = f; t < m; ++t) ++M; return etl::rotate_copy(F, M, L, D); },
            [&](E* F, E* L, E*, E*, E* D) { return std::rotate_copy(F, F + (m - f), L, D); });
    }
    if (op == "transform") {
        auto inc = [](E const& e) { return E{e.v + 10}; };
        OUT1(transform, inc);
    }
    if (op == "transform2") {
        auto add = [](E const& x, E const& y) { return E{x.v + 100 * y.v}; };
        return to_out([&](auto F, auto L, auto G, auto, auto D) { return etl::transform(F, L, G, D, add); },
            [&](E* F, E* L, E* G, E*, E* D) { return std::transform(F, L, G, D, add); });
    }
    if (op == "merge") { if (cmp_dflt(ln)) OUT2(merge); OUT2(merge, cmp); }
    if (op == "set_difference") { if (cmp_dflt(ln)) OUT2(set_difference); OUT2(set_difference, cmp); }
    if (op == "set_intersection") { if (cmp_dflt(ln)) OUT2(set_intersection); OUT2(set_intersection, cmp); }
    if (op == "set_symmetric_difference") { if (cmp_dflt(ln)) OUT2(set_symmetric_difference); OUT2(set_symmetric_difference, cmp); }
    if (op == "set_union") { if (cmp_dflt(ln)) OUT2(set_union); OUT2(set_union, cmp); }
    if (op == "partition_copy") {
        Buf a(av);
        std::vector<E> t1(N + 1), t2(N + 1);
        auto s0 = std::partition_copy(a.p + f, a.p + l, t1.data(), t2.data(), p);
        std::size_t k1 = static_cast<std::size_t>(s0.first - t1.data()), k2 = static_cast<std::size_t>(s0.second - t2.data());
        std::vector<LL> const v1 = mk_dest(k1 + slack), v2 = mk_dest(k2 + slack);
        Buf s1(v1), s2(v2), d1(v1), d2(v2);
        auto show = [&](std::ptrdiff_t r1, std::ptrdiff_t r2, E* x, E* y) {
            return "r=" + std::to_string(r1) + "," + std::to_string(r2) + " d=" + fl(vals(x, v1.size())) + " e=" + fl(vals(y, v2.size()));
        };
        auto sr        = std::partition_copy(a.p + f, a.p + l, s1.p + dp, s2.p + dp, p);
        std::string re = impl([&] {
            return with_in_out(it, [&](auto mk, auto mko) {
                auto r = etl::partition_copy(mk(a.p + f), mk(a.p + l), mko(d1.p + dp), mko(d2.p + dp), p);
                return show(base(r.first) - d1.p, base(r.second) - d2.p, d1.p, d2.p);
            });
        });
        return out(re, show(sr.first - s1.p, sr.second - s2.p, s1.p, s2.p));
    }

    // ---- in place, continued ----------------------------------------------------------------
    if (op == "fill")
        return inplace_fwd([&](auto F, auto L, E* a0, auto) { etl::fill(F, L, v); return arr(a0); }, [&](E* F, E* L, E* a0, auto) { std::fill(F, L, v); return arr(a0); });
    if (op == "fill_n")
        return inplace_fwd([&](auto F, auto, E* a0, auto) { auto r = etl::fill_n(F, cnt, v); return IDX(r) + " " + arr(a0); },
            [&](E* F, E*, E* a0, auto) { auto r = std::fill_n(F, cnt, v); return IDX(r) + " " + arr(a0); });
    if (op == "generate")
        return inplace_fwd([&](auto F, auto L, E* a0, auto) { int k = 0; etl::generate(F, L, [&k] { return E{100 + 10 * k++}; }); return arr(a0); },
            [&](E* F, E* L, E* a0, auto) { int k = 0; std::generate(F, L, [&k] { return E{100 + 10 * k++}; }); return arr(a0); });
    if (op == "generate_n")
        return inplace_fwd([&](auto F, auto, E* a0, auto) { int k = 0; auto r = etl::generate_n(F, cnt, [&k] { return E{100 + 10 * k++}; }); return IDX(r) + " " + arr(a0); },
            [&](E* F, E*, E* a0, auto) { int k = 0; auto r = std::generate_n(F, cnt, [&k] { return E{100 + 10 * k++}; }); return IDX(r) + " " + arr(a0); });
    if (op == "replace")
        return inplace_fwd([&](auto F, auto L, E* a0, auto) { etl::replace(F, L, v, w); return arr(a0); }, [&](E* F, E* L, E* a0, auto) { std::replace(F, L, v, w); return arr(a0); });
    if (op == "replace_if")
        return inplace_fwd([&](auto F, auto L, E* a0, auto) { etl::replace_if(F, L, p, w); return arr(a0); }, [&](E* F, E* L, E* a0, auto) { std::replace_if(F, L, p, w); return arr(a0); });
    if (op == "remove" || op == "remove_if" || op == "unique") {
        auto show = [&](E* a0, E* r) { return ri(r - a0) + " a=" + fmt_mask(a0, N, static_cast<std::size_t>(r - a0), l); };
        if (op == "remove")
            return inplace_fwd([&](auto F, auto L, E* a0, auto) { return show(a0, base(etl::remove(F, L, v))); }, [&](E* F, E* L, E* a0, auto) { return show(a0, std::remove(F, L, v)); });
        if (op == "remove_if")
            return inplace_fwd([&](auto F, auto L, E* a0, auto) { return show(a0, base(etl::remove_if(F, L, p))); }, [&](E* F, E* L, E* a0, auto) { return show(a0, std::remove_if(F, L, p)); });
        if (eq_dflt(ln))
            return inplace_fwd([&](auto F, auto L, E* a0, auto) { return show(a0, base(etl::unique(F, L))); }, [&](E* F, E* L, E* a0, auto) { return show(a0, std::unique(F, L)); });
        return inplace_fwd([&](auto F, auto L, E* a0, auto) { return show(a0, base(etl::unique(F, L, eq))); }, [&](E* F, E* L, E* a0, auto) { return show(a0, std::unique(F, L, eq)); });
    }
    if (op == "shift_left") {
        bool const moved = cnt > 0 && static_cast<std::size_t>(cnt) < n;
        auto show = [&](E* a0, E* r) { std::size_t k = static_cast<std::size_t>(r - a0); return ri(r - a0) + " a=" + fmt_mask(a0, N, k, moved ? l : k); };
        return inplace_fwd([&](auto F, auto L, E* a0, auto) { return show(a0, base(etl::shift_left(F, L, cnt))); },
            [&](E* F, E* L, E* a0, auto) { return show(a0, std::shift_left(F, L, cnt)); });
    }
    if (op == "shift_right" && ov == "nd") { // value type without default constructor: no clean-up loop
        bool const moved = cnt > 0 && static_cast<std::size_t>(cnt) < n;
        proto::heap_buf<ND> a(av), s2(av);
        auto show = [&](ND* a0, ND* r) {
            std::size_t k = static_cast<std::size_t>(r - a0);
            std::string o = ri(r - a0) + " a=[";
            for (std::size_t t = 0; t < N; ++t) o += (t ? "," : "") + (((moved ? f : k) <= t && t < k) ? std::string("_") : std::to_string(a0[t].v));
            return o + "]";
        };
        std::string re = impl([&] { return with_bidi(it, [&](auto mk) { return show(a.p, base(etl::shift_right(mk(a.p + f), mk(a.p + l), cnt))); }); });
        return out(re, show(s2.p, std::shift_right(s2.p + f, s2.p + l, cnt)));
    }
    if (op == "shift_right") {
        bool const moved = cnt > 0 && static_cast<std::size_t>(cnt) < n;
        auto show = [&](E* a0, E* r) { std::size_t k = static_cast<std::size_t>(r - a0); return ri(r - a0) + " a=" + fmt_mask(a0, N, moved ? f : k, k); };
        return inplace_bidi([&](auto F, auto L, E* a0, auto) { return show(a0, base(etl::shift_right(F, L, cnt))); },
            [&](E* F, E* L, E* a0, auto) { return show(a0, std::shift_right(F, L, cnt)); });
    }
    if (op == "partition")
        return inplace_fwd([&](auto F, auto L, E* a0, auto) { auto r = etl::partition(F, L, p); return canon_partition(a0, N, f, l, static_cast<std::size_t>(base(r) - a0)); },
            [&](E* F, E* L, E* a0, auto) { auto r = std::partition(F, L, p); return canon_partition(a0, N, f, l, static_cast<std::size_t>(r - a0)); });
    if (op == "stable_partition")
        return inplace_bidi([&](auto F, auto L, E* a0, auto) { auto r = etl::stable_partition(F, L, p); return IDX(r) + " " + arr(a0); },
            [&](E* F, E* L, E* a0, auto) { auto r = std::stable_partition(F, L, p); return IDX(r) + " " + arr(a0); });
    if (op == "sort" || op == "gnome_sort" || op == "bubble_sort" || op == "exchange_sort") {
        bool d = cmp_dflt(ln);
        auto stdf = [&](E* F, E* L, E* a0, auto) { if (d) std::sort(F, L); else std::sort(F, L, cmp); return canon_sort(ck, a0, N, f, l); };
        if (op == "sort") return inplace_ra([&](auto F, auto L, E* a0, auto) { if (d) etl::sort(F, L); else etl::sort(F, L, cmp); return canon_sort(ck, a0, N, f, l); }, stdf);
        if (op == "gnome_sort") return inplace_bidi([&](auto F, auto L, E* a0, auto) { if (d) etl::gnome_sort(F, L); else etl::gnome_sort(F, L, cmp); return canon_sort(ck, a0, N, f, l); }, stdf);
        if (op == "bubble_sort") return inplace_ra([&](auto F, auto L, E* a0, auto) { if (d) etl::bubble_sort(F, L); else etl::bubble_sort(F, L, cmp); return canon_sort(ck, a0, N, f, l); }, stdf);
        return inplace_ra([&](auto F, auto L, E* a0, auto) { if (d) etl::exchange_sort(F, L); else etl::exchange_sort(F, L, cmp); return canon_sort(ck, a0, N, f, l); }, stdf);
    }
    if (op == "nth_element") {
        bool d = cmp_dflt(ln);
        return inplace_ra([&](auto F, auto L, E* a0, auto mk) { if (d) etl::nth_element(F, mk(a0 + m), L); else etl::nth_element(F, mk(a0 + m), L, cmp); return canon_nth(ck, a0, N, f, m, l); },
            [&](E* F, E* L, E* a0, auto) { if (d) std::nth_element(F, a0 + m, L); else std::nth_element(F, a0 + m, L, cmp); return canon_nth(ck, a0, N, f, m, l); });
    }
    if (op == "partial_sort") {
        bool d = cmp_dflt(ln);
        return inplace_ra([&](auto F, auto L, E* a0, auto mk) { if (d) etl::partial_sort(F, mk(a0 + m), L); else etl::partial_sort(F, mk(a0 + m), L, cmp); return canon_partial(ck, a0, N, f, m, l); },
            [&](E* F, E* L, E* a0, auto) { if (d) std::partial_sort(F, a0 + m, L); else std::partial_sort(F, a0 + m, L, cmp); return canon_partial(ck, a0, N, f, m, l); });
    }
    if (op == "stable_sort" || op == "insertion_sort" || op == "merge_sort") {
        bool d = cmp_dflt(ln);
        auto stdf = [&](E* F, E* L, E* a0, auto) { if (d) std::stable_sort(F, L); else std::stable_sort(F, L, cmp); return arr(a0); };
        if (op == "stable_sort") return inplace_ra([&](auto F, auto L, E* a0, auto) { if (d) etl::stable_sort(F, L); else etl::stable_sort(F, L, cmp); return arr(a0); }, stdf);
        if (op == "insertion_sort") return inplace_ra([&](auto F, auto L, E* a0, auto) { if (d) etl::insertion_sort(F, L); else etl::insertion_sort(F, L, cmp); return arr(a0); }, stdf);
        return inplace_ra([&](auto F, auto L, E* a0, auto) { if (d) etl::merge_sort(F, L); else etl::merge_sort(F, L, cmp); return arr(a0); }, stdf);
    }
    if (op == "inplace_merge") {
        bool d = cmp_dflt(ln);
        return inplace_bidi([&](auto F, auto L, E* a0, auto mk) { if (d) etl::inplace_merge(F, mk(a0 + m), L); else etl::inplace_merge(F, mk(a0 + m), L, cmp); return arr(a0); },
            [&](E* F, E* L, E* a0, auto) { if (d) std::inplace_merge(F, a0 + m, L); else std::inplace_merge(F, a0 + m, L, cmp); return arr(a0); });
    }

    // ---- numeric (plain integers) -----------------------------------------------------------
    {
        std::string nop = ln.has("op") ? ln.str("op") : "dflt";
        auto f2 = [nop](LL x, LL y) { return nop == "minus" ? x - y : nop == "mul2" ? 2 * x + y : x + y; };
        LL const init = ln.i("init", 0);
        using NB = proto::heap_buf<LL>;
        auto rl = [](LL x) { return "r=" + std::to_string(x); };
        auto num_in = [&](auto fn) {
            if (it == "ptr") return fn(mk_ptr{});
            if (it == "in") return fn(mk_in{});
            if (it == "in1") return fn(mk_in1{});
            return fn(mk_fwd{});
        };
        if (op == "iota") {
            NB a(av), s(av);
            num_in([&](auto mk) { etl::iota(mk(a.p + f), mk(a.p + l), static_cast<LL>(v.v)); return 0; });
            std::iota(s.p + f, s.p + l, static_cast<LL>(v.v));
            return out("a=" + fl(a.to_list()), "a=" + fl(s.to_list()));
        }
        if (op == "accumulate" || op == "reduce") {
            NB a(av);
            LL re = num_in([&](auto mk) {
                auto F = mk(a.p + f); auto L = mk(a.p + l);
                if (op == "accumulate") return nop == "dflt" ? etl::accumulate(F, L, init) : etl::accumulate(F, L, init, f2);
                if (ov == "noinit") return static_cast<LL>(etl::reduce(F, L));
                return nop == "dflt" ? etl::reduce(F, L, init) : etl::reduce(F, L, init, f2);
            });
            LL rs = nop == "dflt" ? std::accumulate(a.p + f, a.p + l, init) : std::accumulate(a.p + f, a.p + l, init, f2);
            return out(rl(re), rl(rs));
        }
        if (op == "inner_product" || op == "transform_reduce") {
            NB a(av), b(bv);
            auto g2 = [](LL x, LL y) { return x - 2 * y; };
            LL re   = num_in([&](auto mk) {
                auto F = mk(a.p + f); auto L = mk(a.p + l); auto G = mk(b.p);
                if (op == "inner_product") return nop == "dflt" ? etl::inner_product(F, L, G, init) : etl::inner_product(F, L, G, init, f2, g2);
                return nop == "dflt" ? etl::transform_reduce(F, L, G, init) : etl::transform_reduce(F, L, G, init, f2, g2);
            });
            LL rs = nop == "dflt" ? std::inner_product(a.p + f, a.p + l, b.p, init) : std::inner_product(a.p + f, a.p + l, b.p, init, f2, g2);
            return out(rl(re), rl(rs));
        }
        if (op == "transform_reduce1") {
            NB a(av);
            auto tr = [](LL x) { return 3 * x + 1; };
            LL re   = num_in([&](auto mk) { return etl::transform_reduce(mk(a.p + f), mk(a.p + l), init, f2, tr); });
            LL rs   = init;
            for (std::size_t k = f; k < l; ++k) rs = f2(rs, tr(a.p[k])); // std::transform_reduce is unordered: sequential oracle
            return out(rl(re), rl(rs));
        }
        if (op == "partial_sum" || op == "adjacent_difference") {
            NB a(av);
            std::vector<LL> big(N + 1);
            auto d2    = [&](LL x, LL y) { return nop == "dflt" ? x - y : f2(x, y); };
            auto stdfn = [&](LL* D) {
                return op == "partial_sum" ? (nop == "dflt" ? std::partial_sum(a.p + f, a.p + l, D) : std::partial_sum(a.p + f, a.p + l, D, f2))
                                           : std::adjacent_difference(a.p + f, a.p + l, D, d2);
            };
            std::size_t const k      = static_cast<std::size_t>(stdfn(big.data()) - big.data());
            std::vector<LL> const dv = mk_dest(k + slack);
            NB ds(dv), de(dv);
            LL* sr = stdfn(ds.p + dp);
            auto show = [&](std::ptrdiff_t r, NB const& x) { return ri(r) + " d=" + fl(x.to_list()); };
            std::ptrdiff_t re = 0;
            auto run = [&](auto mk, auto D) {
                auto F = mk(a.p + f); auto L = mk(a.p + l);
                if (op == "partial_sum") return base(nop == "dflt" ? etl::partial_sum(F, L, D) : etl::partial_sum(F, L, D, f2)) - de.p;
                return base(nop == "dflt" ? etl::adjacent_difference(F, L, D) : etl::adjacent_difference(F, L, D, d2)) - de.p;
            };
            if (it == "ptr") re = run(mk_ptr{}, de.p + dp);
            else if (it == "in") re = run(mk_in{}, out_it<LL>{de.p + dp});
            else if (it == "in1") re = run(mk_in1{}, out_it<LL>{de.p + dp});
            else re = run(mk_fwd{}, out_it<LL>{de.p + dp});
            return out(show(re, de), show(sr - ds.p, ds));
        }
    }
    return "bad-op\tbad-op";
}

int main(int argc, char** argv) { return proto::run(argc, argv, step); }
#endif // main part
#endif // C06_PART != -2
