// C12 harness: etl::chrono duration / time_point arithmetic and rounding casts vs std::chrono (libstdc++),
// on the same case lines as the Lean driver (lean/Tetl/C12/Driver.lean).
//
//   <op> r1=<i16|i32|i64|u32|f64> p1=<k> [r2=<..> p2=<k>] [rs=<i32|i64>] a=<int>|as=[..] [b=<int>] [ns=1]
//
// p1/p2 index the period table below (the Lean driver has the same table).  A count is given as an
// integer; for an f64 representation the count is `a / 8.0` (so that halves, quarters and eighths occur).
// With a list argument the op is evaluated for every element and the results are printed as `[r1,r2,...]`.
// Integer results are printed in decimal, f64 results as `x<16 hex digits>` (the IEEE-754 bit pattern).
// ns=1: the std:: column of the line is `*` and std::chrono is not called (inputs on which libstdc++ has undefined behaviour,
// or a result the standard does not sanction: the known findings of the property, see checks/props/c12.py).
// rs is the type of the scalar operand of duration * rep, rep * duration, duration / rep, duration % rep (default: r1).
// adda2 / moda2 / tp_adda2: `D1 x{a}; x += D2{b}; x -= D2{b}` / `x %= D2{b}` / the same `+=`, `-=` of time_point<Clock, D1>: compound
// assignment with a duration of ANOTHER type (converted by the implicit converting constructor; `n/a` when it does not take part).
// Representation pairs: see rc_of (i32/i64 mixtures, f64, the narrow and unsigned ones, and unsigned / narrow next to wider).
// If one of the free functions of [time.duration.nonmember] / [time.point.nonmember] is not declared (a requires-expression
// checks it) the harness still compiles and prints `missing` for that operation: a violation, not a build failure.
#include "proto.hpp"

#include <etl/chrono.hpp>
#include <etl/ratio.hpp>

#include <chrono>
#include <cstdint>
#include <cstring>
#include <ratio>
#include <type_traits>

using proto::Line;
using ll = long long;

// ---------------------------------------------------------------- the two libraries behind one interface
struct eclock {
    using rep        = std::int64_t;
    using period     = etl::ratio<1>;
    using duration   = etl::chrono::duration<rep, period>;
    using time_point = etl::chrono::time_point<eclock>;
};

struct E {
    template <ll N, ll D>
    using ratio = etl::ratio<N, D>;
    template <typename R, typename P>
    using dur = etl::chrono::duration<R, P>;
    template <typename D>
    using tp = etl::chrono::time_point<eclock, D>;
    template <typename... T>
    using common = etl::common_type_t<T...>;
    template <typename To, typename D>
    static constexpr auto cast(D d) { return etl::chrono::duration_cast<To>(d); }
    template <typename To, typename D>
    static constexpr auto floor(D d) { return etl::chrono::floor<To>(d); }
    template <typename To, typename D>
    static constexpr auto ceil(D d) { return etl::chrono::ceil<To>(d); }
    template <typename To, typename D>
    static constexpr auto round(D d) { return etl::chrono::round<To>(d); }
    template <typename To, typename D>
    static constexpr auto tp_cast(D d) { return etl::chrono::time_point_cast<To>(d); }
    template <typename D>
    static constexpr auto abs(D d) { return etl::chrono::abs(d); }
};

struct S {
    template <ll N, ll D>
    using ratio = std::ratio<N, D>;
    template <typename R, typename P>
    using dur = std::chrono::duration<R, P>;
    template <typename D>
    using tp = std::chrono::time_point<std::chrono::system_clock, D>;
    template <typename... T>
    using common = std::common_type_t<T...>;
    template <typename To, typename D>
    static constexpr auto cast(D d) { return std::chrono::duration_cast<To>(d); }
    template <typename To, typename D>
    static constexpr auto floor(D d) { return std::chrono::floor<To>(d); }
    template <typename To, typename D>
    static constexpr auto ceil(D d) { return std::chrono::ceil<To>(d); }
    template <typename To, typename D>
    static constexpr auto round(D d) { return std::chrono::round<To>(d); }
    template <typename To, typename D>
    static constexpr auto tp_cast(D d) { return std::chrono::time_point_cast<To>(d); }
    template <typename D>
    static constexpr auto abs(D d) { return std::chrono::abs(d); }
};

// ---------------------------------------------------------------- period table (same order in Driver.lean / c12.py)
template <typename L, int K>
struct per;
#define C12_PER(K, N, D)                                                                                               \
    template <typename L>                                                                                              \
    struct per<L, K> {                                                                                                 \
        using type = typename L::template ratio<N, D>;                                                                 \
    };
C12_PER(0, 1, 1000000000)
C12_PER(1, 1, 1000000)
C12_PER(2, 1, 1000)
C12_PER(3, 1, 1)
C12_PER(4, 60, 1)
C12_PER(5, 3600, 1)
C12_PER(6, 86400, 1)
C12_PER(7, 1, 3)
C12_PER(8, 5, 7)
C12_PER(9, 1001, 30000)
C12_PER(10, 10, 14)          // not in lowest terms: duration<R, ratio<10,14>>::period is ratio<5,7>
C12_PER(11, -1001, -30000)   // both negative
constexpr int NPER = 12;

// ---------------------------------------------------------------- results (no strings in the templated code: compile time)
struct Out {
    int n       = 0;         // number of values
    int special = 0;         // 1 = `missing` (free function not declared), 2 = `n/a` (ill-formed for this representation in std too)
    bool cmp    = false;     // values are six comparison flags
    bool fp[5]{};
    ll i[6]{};
    double d[5]{};
    template <typename T>
    void put(T v)
    {
        if constexpr (std::is_floating_point_v<T>) { fp[n] = true; d[n] = static_cast<double>(v); }
        else { i[n] = static_cast<ll>(v); }
        ++n;
    }
};

static std::string fmt(Out const& o)
{
    if (o.special == 1) return "missing";
    if (o.special == 2) return "n/a";
    if (o.special == 3) return "bad-op";
    std::string r;
    if (o.cmp) {
        for (int k = 0; k < 6; ++k) r += o.i[k] ? '1' : '0';
        return r;
    }
    for (int k = 0; k < o.n; ++k) {
        if (k) r += ";";
        if (o.fp[k]) {
            std::uint64_t u;
            std::memcpy(&u, &o.d[k], sizeof u);
            char buf[24];
            std::snprintf(buf, sizeof buf, "x%016llx", static_cast<unsigned long long>(u));
            r += buf;
        } else r += std::to_string(o.i[k]);
    }
    return r;
}

// the count `a` of the case line as a value of the representation R
template <typename R>
static R mk(ll a)
{
    if constexpr (std::is_floating_point_v<R>) return static_cast<R>(a) / static_cast<R>(8);
    else return static_cast<R>(a);
}

template <typename R>
constexpr bool is_fp = std::is_floating_point_v<R>;

// ---------------------------------------------------------------- two-type operations
enum Op2 { CAST, FLOOR, CEIL, ROUND, ADD, SUB, DIV, MOD, CMP, COMMON, CTYPE, CONV, ADDA2, MODA2, TP_CAST, TP_FLOOR, TP_CEIL, TP_ROUND,
           TP_CMP, TP_DIFF, TP_PLUS, TP_MINUS, TP_CONV, TP_ADDA2, OP2_BAD };

static Op2 op2_of(std::string const& s)
{
    static char const* names[] = {"cast", "floor", "ceil", "round", "add", "sub", "div", "mod", "cmp", "common", "ctype", "conv",
                                  "adda2", "moda2", "tp_cast", "tp_floor", "tp_ceil", "tp_round", "tp_cmp", "tp_diff", "tp_plus",
                                  "tp_minus", "tp_conv", "tp_adda2"};
    for (int i = 0; i < OP2_BAD; ++i)
        if (s == names[i]) return static_cast<Op2>(i);
    return OP2_BAD;
}

template <typename A, typename B>
static void six(Out& o, A const& x, B const& y)
{
    o.cmp  = true;
    o.i[0] = x == y; o.i[1] = x != y; o.i[2] = x < y; o.i[3] = x <= y; o.i[4] = x > y; o.i[5] = x >= y;
}

// TP: the time_point operations are instantiated for this combination (see tp_enabled)
template <typename L, typename R1, int K1, typename R2, int K2, bool TP>
static void run2(Op2 op, ll a, ll b, Out& o)
{
    using D1 = typename L::template dur<R1, typename per<L, K1>::type>;
    using D2 = typename L::template dur<R2, typename per<L, K2>::type>;
    using CD = typename L::template common<D1, D2>;
    using T1 = typename L::template tp<D1>;
    using T2 = typename L::template tp<D2>;
    D1 const d1{mk<R1>(a)};
    D2 const d2{mk<R2>(b)};
    switch (op) {
    case CAST: o.put(L::template cast<D2>(d1).count()); return;
    case FLOOR: o.put(L::template floor<D2>(d1).count()); return;
    case CEIL: o.put(L::template ceil<D2>(d1).count()); return;
    case ROUND:
        if constexpr (is_fp<R2>) o.special = 2;      // [time.duration.cast]: round requires an integer target
        else o.put(L::template round<D2>(d1).count());
        return;
    case ADD: { auto r = d1 + d2; static_assert(std::is_same_v<decltype(r), CD>); o.put(r.count()); return; }
    case SUB: { auto r = d1 - d2; static_assert(std::is_same_v<decltype(r), CD>); o.put(r.count()); return; }
    case DIV: {
        auto r = d1 / d2;
        static_assert(std::is_same_v<decltype(r), typename L::template common<R1, R2>>);
        o.put(r);
        return;
    }
    case MOD:
        if constexpr (is_fp<R1> || is_fp<R2>) o.special = 2;
        else { auto r = d1 % d2; static_assert(std::is_same_v<decltype(r), CD>); o.put(r.count()); }
        return;
    case CMP: six(o, d1, d2); return;
    case COMMON: o.put(CD(d1).count()); o.put(CD(d2).count()); return;
    case CTYPE:
        o.put(static_cast<ll>(CD::period::num));
        o.put(static_cast<ll>(CD::period::den));
        o.put(is_fp<typename CD::rep> ? ll(0) : static_cast<ll>(sizeof(typename CD::rep) * 8));
        return;
    case CONV:       // the implicit converting constructor D2(d1); `n/a` when the constructor does not participate
        if constexpr (std::is_convertible_v<D1, D2>) { D2 const r = d1; o.put(r.count()); }
        else o.special = 2;
        return;
    case ADDA2:      // `x += d2`, `x -= d2` on a D1 x: the argument is converted by the implicit converting constructor D1(d2)
        if constexpr (std::is_convertible_v<D2, D1>) {
            D1 x = d1;
            x += d2;
            D1 y = d1;
            y -= d2;
            o.put(x.count());
            o.put(y.count());
        } else o.special = 2;
        return;
    case MODA2:      // `x %= d2` (the overload taking a duration)
        if constexpr (is_fp<R1> || is_fp<R2>) o.special = 2;
        else if constexpr (std::is_convertible_v<D2, D1>) { D1 x = d1; x %= d2; o.put(x.count()); }
        else o.special = 2;
        return;
    default: break;
    }
    if constexpr (TP) {
    switch (op) {
    case TP_CAST: o.put(L::template tp_cast<D2>(T1{d1}).time_since_epoch().count()); return;
    case TP_FLOOR: o.put(L::template floor<D2>(T1{d1}).time_since_epoch().count()); return;
    case TP_CEIL: o.put(L::template ceil<D2>(T1{d1}).time_since_epoch().count()); return;
    case TP_ROUND:
        if constexpr (is_fp<R2>) o.special = 2;
        else o.put(L::template round<D2>(T1{d1}).time_since_epoch().count());
        return;
    case TP_CMP: six(o, T1{d1}, T2{d2}); return;
    case TP_DIFF:
        if constexpr (requires(T1 x, T2 y) { x - y; }) {
            auto r = T1{d1} - T2{d2};
            static_assert(std::is_same_v<decltype(r), CD>);
            o.put(r.count());
        } else o.special = 1;
        return;
    case TP_PLUS:
        if constexpr (requires(T1 x, D2 y) { x + y; y + x; }) {
            auto r = T1{d1} + d2;
            auto q = d2 + T1{d1};
            static_assert(std::is_same_v<decltype(r), typename L::template tp<CD>>);
            static_assert(std::is_same_v<decltype(q), typename L::template tp<CD>>);
            o.put(r.time_since_epoch().count());
            o.put(q.time_since_epoch().count());
        } else o.special = 1;
        return;
    case TP_MINUS:
        if constexpr (requires(T1 x, D2 y) { x - y; }) {
            auto r = T1{d1} - d2;
            static_assert(std::is_same_v<decltype(r), typename L::template tp<CD>>);
            o.put(r.time_since_epoch().count());
        } else o.special = 1;
        return;
    case TP_CONV:    // the converting constructor time_point<Clock, D2>(time_point<Clock, D1>)
        if constexpr (std::is_convertible_v<D1, D2>) { T2 const r = T1{d1}; o.put(r.time_since_epoch().count()); }
        else o.special = 2;
        return;
    case TP_ADDA2:   // time_point<Clock, D1> t; `t += d2`, `t -= d2`
        if constexpr (std::is_convertible_v<D2, D1>) {
            T1 x{d1};
            x += d2;
            T1 y{d1};
            y -= d2;
            o.put(x.time_since_epoch().count());
            o.put(y.time_since_epoch().count());
        } else o.special = 2;
        return;
    default: return;
    }
    } else o.special = 3;
}

// ---------------------------------------------------------------- one-type operations
enum Op1 { ABS, NEG, POS, INC, DEC, ADDA, SUBA, MULA, DIVA, MODA, MODAD, MUL, DIVR, MODR, TP_ADDA, TP_SUBA, TP_INC, LIMITS, OP1_BAD };

static Op1 op1_of(std::string const& s)
{
    static char const* names[] = {"abs", "neg", "pos", "inc", "dec", "adda", "suba", "mula", "diva", "moda", "modad", "mul",
                                  "divr", "modr", "tp_adda", "tp_suba", "tp_inc", "limits"};
    for (int i = 0; i < OP1_BAD; ++i)
        if (s == names[i]) return static_cast<Op1>(i);
    return OP1_BAD;
}

// duration<R1, P> op scalar of type RS
template <typename L, typename D1, typename RS>
static void scalar(Op1 op, D1 const& d1, ll b, Out& o)
{
    using R1 = typename D1::rep;
    using CR = typename L::template common<R1, RS>;
    RS const s = static_cast<RS>(b);
    switch (op) {
    case MUL:
        if constexpr (requires(D1 x, RS y) { x * y; y * x; }) {
            auto r = d1 * s;
            auto q = s * d1;
            static_assert(std::is_same_v<typename decltype(r)::rep, CR> && std::is_same_v<typename decltype(r)::period, typename D1::period>);
            static_assert(std::is_same_v<decltype(q), decltype(r)>);
            o.put(r.count());
            o.put(q.count());
        } else o.special = 1;
        return;
    case DIVR:
        if constexpr (requires(D1 x, RS y) { x / y; }) {
            auto r = d1 / s;
            static_assert(std::is_same_v<typename decltype(r)::rep, CR> && std::is_same_v<typename decltype(r)::period, typename D1::period>);
            o.put(r.count());
        } else o.special = 1;
        return;
    case MODR:
        if constexpr (is_fp<R1>) o.special = 2;
        else if constexpr (requires(D1 x, RS y) { x % y; }) {
            auto r = d1 % s;
            static_assert(std::is_same_v<typename decltype(r)::rep, CR> && std::is_same_v<typename decltype(r)::period, typename D1::period>);
            o.put(r.count());
        } else o.special = 1;
        return;
    default: return;
    }
}

// rs: the scalar type of MUL / DIVR / MODR for an integer R1 (0 = int32, 1 = int64); a double duration takes a double
template <typename L, typename R1, int K1>
static void run1(Op1 op, ll a, ll b, int rs, Out& o)
{
    using D1 = typename L::template dur<R1, typename per<L, K1>::type>;
    using T1 = typename L::template tp<D1>;
    D1 d1{mk<R1>(a)};
    D1 const e1{mk<R1>(b)};
    R1 const rb = static_cast<R1>(b);            // a plain tick-count operand
    switch (op) {
    case ABS:          // [time.duration.alg]: abs participates only for a signed representation
        if constexpr (std::is_signed_v<R1>) o.put(L::abs(d1).count());
        else o.special = 3;
        return;
    case NEG: o.put((-d1).count()); return;
    case POS: o.put((+d1).count()); return;
    case INC: { auto x = d1++; auto& y = ++d1; o.put(x.count()); o.put(y.count()); o.put(d1.count()); return; }
    case DEC: { auto x = d1--; auto& y = --d1; o.put(x.count()); o.put(y.count()); o.put(d1.count()); return; }
    case ADDA: d1 += e1; o.put(d1.count()); return;
    case SUBA: d1 -= e1; o.put(d1.count()); return;
    case MULA: d1 *= rb; o.put(d1.count()); return;
    case DIVA: d1 /= rb; o.put(d1.count()); return;
    case MODA:
        if constexpr (is_fp<R1>) o.special = 2;
        else { d1 %= rb; o.put(d1.count()); }
        return;
    case MODAD:
        if constexpr (is_fp<R1>) o.special = 2;
        else { d1 %= e1; o.put(d1.count()); }
        return;
    case MUL:
    case DIVR:
    case MODR:
        if constexpr (is_fp<R1>) scalar<L, D1, R1>(op, d1, b, o);
        else if (rs == 0) scalar<L, D1, std::int32_t>(op, d1, b, o);
        else scalar<L, D1, std::int64_t>(op, d1, b, o);
        return;
    case TP_ADDA: { T1 t{d1}; t += e1; o.put(t.time_since_epoch().count()); return; }
    case TP_SUBA: { T1 t{d1}; t -= e1; o.put(t.time_since_epoch().count()); return; }
    case TP_INC: {
        T1 t{d1};
        auto x = t++;
        ++t;
        auto y = t--;
        --t;
        o.put(x.time_since_epoch().count());
        o.put(y.time_since_epoch().count());
        o.put(t.time_since_epoch().count());
        return;
    }
    case LIMITS:
        o.put(D1::zero().count());
        o.put(D1::min().count());
        o.put(D1::max().count());
        o.put(T1::min().time_since_epoch().count());
        o.put(T1::max().time_since_epoch().count());
        return;
    default: return;
    }
}

// ---------------------------------------------------------------- dispatch tables
using fn2 = void (*)(Op2, ll, ll, Out&);
using fn1 = void (*)(Op1, ll, ll, int, Out&);

// Which (representation pair, period pair) combinations are instantiated (the same predicate is in c12.py):
//   i64,i64 and f64,f64: the ten periods of the property x themselves; i64,i64 additionally the two alias
//   periods 10, 11 with themselves, with the period they normalise to and with seconds;
//   the mixed / 32-bit / narrow / unsigned pairs (rc 0..2, 7..16): the periods {milli, minute, 1001/30000} x themselves.
constexpr bool in_sub(int k) { return k == 2 || k == 4 || k == 9; }
constexpr bool alias_pair(int a, int b)
{
    return (a == 10 && (b == 10 || b == 8 || b == 3)) || (a == 11 && (b == 11 || b == 9 || b == 3));
}
constexpr bool in_tp(int k) { return k == 0 || k == 2 || k == 3 || k == 4 || k == 7 || k == 9; }
constexpr bool tp_enabled(int rc, int k1, int k2)
{
    if (rc == 3) return (in_tp(k1) && in_tp(k2)) || k1 >= 10 || k2 >= 10;
    if (rc == 4 || rc <= 2 || rc >= 7) return in_sub(k1) && in_sub(k2);      // incl. the narrow / unsigned / mixed pairs 7..16
    return false;        // rc 5, 6 (mixed double / integer): no time_point instantiation
}
constexpr bool enabled(int rc, int k1, int k2)
{
    if (k1 < 10 && k2 < 10) return (rc == 3 || rc == 4) ? true : (in_sub(k1) && in_sub(k2));
    return rc == 3 && (alias_pair(k1, k2) || alias_pair(k2, k1));
}

// The table is filled by C12_NPARTS translation units per library (compile time: checks/props/c12.py compiles the
// parts in parallel and caches the std:: parts, which do not depend on the repository).  Without -DC12_PART the
// whole harness is one translation unit.
#ifndef C12_NPARTS
    #define C12_NPARTS 1
#endif

template <typename L, typename R1, typename R2, int RC, int PART, int... I>
static void fill2(fn2* t, std::integer_sequence<int, I...>)
{
    auto one = [&]<int J>(std::integral_constant<int, J>) {
        if constexpr (enabled(RC, J / NPER, J % NPER)) {
            if constexpr ((J / NPER + J % NPER) % C12_NPARTS == PART) t[J] = &run2<L, R1, J / NPER, R2, J % NPER, tp_enabled(RC, J / NPER, J % NPER)>;
        }
    };
    (one(std::integral_constant<int, I>{}), ...);
}
template <typename L, typename R1, int PART, int... I>
static void fill1(fn1* t, std::integer_sequence<int, I...>)
{
    auto one = [&]<int J>(std::integral_constant<int, J>) {
        if constexpr (J % C12_NPARTS == PART) t[J] = &run1<L, R1, J>;
    };
    (one(std::integral_constant<int, I>{}), ...);
}

struct Tables {
    fn2 t2[17][NPER * NPER]{};
    fn1 t1[5][NPER]{};
};

template <typename L, int PART>
static void fill_part(Tables& t)
{
    using seq2 = std::make_integer_sequence<int, NPER * NPER>;
    using seq1 = std::make_integer_sequence<int, NPER>;
    fill2<L, std::int32_t, std::int32_t, 0, PART>(t.t2[0], seq2{});
    fill2<L, std::int32_t, std::int64_t, 1, PART>(t.t2[1], seq2{});
    fill2<L, std::int64_t, std::int32_t, 2, PART>(t.t2[2], seq2{});
    fill2<L, std::int64_t, std::int64_t, 3, PART>(t.t2[3], seq2{});
    fill2<L, double, double, 4, PART>(t.t2[4], seq2{});
    fill2<L, std::int64_t, double, 5, PART>(t.t2[5], seq2{});
    fill2<L, double, std::int64_t, 6, PART>(t.t2[6], seq2{});
    // representations narrower than int and unsigned ones (the periods {milli, minute, 1001/30000} x themselves)
    fill2<L, std::int16_t, std::int16_t, 7, PART>(t.t2[7], seq2{});
    fill2<L, std::uint32_t, std::uint32_t, 8, PART>(t.t2[8], seq2{});
    fill2<L, std::int64_t, std::int16_t, 9, PART>(t.t2[9], seq2{});
    fill2<L, std::uint32_t, std::int32_t, 10, PART>(t.t2[10], seq2{});
    // mixed representations whose common type differs from (at least) one operand's: an unsigned or narrow operand next to a
    // wider one (time_point<int64 ms> - duration<uint32 ms>, time_point<int32> - duration<int16>, ...)
    fill2<L, std::int64_t, std::uint32_t, 11, PART>(t.t2[11], seq2{});
    fill2<L, std::uint32_t, std::int64_t, 12, PART>(t.t2[12], seq2{});
    fill2<L, std::int16_t, std::int64_t, 13, PART>(t.t2[13], seq2{});
    fill2<L, std::int32_t, std::uint32_t, 14, PART>(t.t2[14], seq2{});
    fill2<L, std::int16_t, std::int32_t, 15, PART>(t.t2[15], seq2{});
    fill2<L, std::int32_t, std::int16_t, 16, PART>(t.t2[16], seq2{});
    fill1<L, std::int16_t, PART>(t.t1[3], seq1{});
    fill1<L, std::uint32_t, PART>(t.t1[4], seq1{});
    fill1<L, std::int32_t, PART>(t.t1[0], seq1{});
    fill1<L, std::int64_t, PART>(t.t1[1], seq1{});
    fill1<L, double, PART>(t.t1[2], seq1{});
}

// part k of library E / S is the function c12_fill_e<k> / c12_fill_s<k>
template <int PART> void c12_fill_e(Tables& t);
template <int PART> void c12_fill_s(Tables& t);

#if defined(C12_PART)
    #if defined(C12_LIB_S)
template <> void c12_fill_s<C12_PART>(Tables& t) { fill_part<S, C12_PART>(t); }
    #else
template <> void c12_fill_e<C12_PART>(Tables& t) { fill_part<E, C12_PART>(t); }
    #endif
#else
    #if C12_NPARTS == 1
template <> void c12_fill_e<0>(Tables& t) { fill_part<E, 0>(t); }
template <> void c12_fill_s<0>(Tables& t) { fill_part<S, 0>(t); }
    #endif

template <int... K>
static void fill_all(Tables& te, Tables& ts, std::integer_sequence<int, K...>)
{
    (c12_fill_e<K>(te), ...);
    (c12_fill_s<K>(ts), ...);
}

static int rc_of(std::string const& r1, std::string const& r2)
{
    if (r1 == "i32" && r2 == "i32") return 0;
    if (r1 == "i32" && r2 == "i64") return 1;
    if (r1 == "i64" && r2 == "i32") return 2;
    if (r1 == "i64" && r2 == "i64") return 3;
    if (r1 == "f64" && r2 == "f64") return 4;
    if (r1 == "i64" && r2 == "f64") return 5;
    if (r1 == "f64" && r2 == "i64") return 6;
    if (r1 == "i16" && r2 == "i16") return 7;
    if (r1 == "u32" && r2 == "u32") return 8;
    if (r1 == "i64" && r2 == "i16") return 9;
    if (r1 == "u32" && r2 == "i32") return 10;
    if (r1 == "i64" && r2 == "u32") return 11;
    if (r1 == "u32" && r2 == "i64") return 12;
    if (r1 == "i16" && r2 == "i64") return 13;
    if (r1 == "i32" && r2 == "u32") return 14;
    if (r1 == "i16" && r2 == "i32") return 15;
    if (r1 == "i32" && r2 == "i16") return 16;
    return -1;
}
static int r_of(std::string const& r) { return r == "i32" ? 0 : r == "i64" ? 1 : r == "f64" ? 2 : r == "i16" ? 3 : r == "u32" ? 4 : -1; }

// the named duration types: period of the tetl alias vs period of the std alias
template <typename DE, typename DS>
static std::string named_one()
{
    auto f = [](ll n, ll d) { return std::to_string(n) + ";" + std::to_string(d); };
    return f(DE::period::num, DE::period::den) + "\t" + f(DS::period::num, DS::period::den);
}
static std::string named(ll k)
{
    namespace ec = etl::chrono;
    namespace sc = std::chrono;
    switch (k) {
    case 0: return named_one<ec::nanoseconds, sc::nanoseconds>();
    case 1: return named_one<ec::microseconds, sc::microseconds>();
    case 2: return named_one<ec::milliseconds, sc::milliseconds>();
    case 3: return named_one<ec::seconds, sc::seconds>();
    case 4: return named_one<ec::minutes, sc::minutes>();
    case 5: return named_one<ec::hours, sc::hours>();
    case 6: return named_one<ec::days, sc::days>();
    case 7: return named_one<ec::weeks, sc::weeks>();
    case 8: return named_one<ec::months, sc::months>();
    case 9: return named_one<ec::years, sc::years>();
    default: return "bad-op\tbad-op";
    }
}

int main(int argc, char** argv)
{
    static Tables te, ts;
    fill_all(te, ts, std::make_integer_sequence<int, C12_NPARTS>{});
    return proto::run(argc, argv, [&](Line const& l) -> std::string {
        std::string const bad = "bad-op\tbad-op";
        if (l.op == "named") return named(l.i("k", -1));
        if (!l.has("r1") || !l.has("p1")) return bad;
        std::vector<ll> as;
        bool list = false;
        if (l.has("as")) { as = l.list("as"); list = true; }
        else if (l.has("a")) as.push_back(l.i("a"));
        else as.push_back(0);
        ll const b  = l.i("b", 0);
        ll const p1 = l.i("p1");
        bool const ns = l.i("ns", 0) != 0;
        if (p1 < 0 || p1 >= NPER) return bad;
        std::string oe, os;
        auto emit = [&](std::string const& x, std::string const& y, bool first) {
            if (!first) { oe += ","; os += ","; }
            oe += x;
            os += y;
        };
        Op2 const o2 = op2_of(l.op);
        if (o2 != OP2_BAD) {
            if (!l.has("r2") || !l.has("p2")) return bad;
            ll const p2  = l.i("p2");
            int const rc = rc_of(l.str("r1"), l.str("r2"));
            if (p2 < 0 || p2 >= NPER || rc < 0) return bad;
            fn2 const fe = te.t2[rc][p1 * NPER + p2], fs = ts.t2[rc][p1 * NPER + p2];
            if (fe == nullptr || fs == nullptr) return bad;
            bool first = true;
            for (ll a : as) {
                Out x, y;
                fe(o2, a, b, x);
                if (!ns) fs(o2, a, b, y);
                emit(fmt(x), ns ? std::string("*") : fmt(y), first);
                first = false;
            }
        } else {
            Op1 const o1 = op1_of(l.op);
            int const r  = r_of(l.str("r1"));
            if (o1 == OP1_BAD || r < 0 || te.t1[r][p1] == nullptr) return bad;
            int const rs = l.has("rs") ? r_of(l.str("rs")) : (r >= 3 ? 0 : r);
            if (rs < 0 || rs > 2 || (rs == 2) != (r == 2)) return bad;
            bool first = true;
            for (ll a : as) {
                Out x, y;
                te.t1[r][p1](o1, a, b, rs, x);
                ts.t1[r][p1](o1, a, b, rs, y);
                emit(fmt(x), fmt(y), first);
                first = false;
            }
        }
        if (ns) os = "*";          // the whole column is masked (checks/lib.py: `*` matches anything)
        if (list) return "[" + oe + "]\t" + (ns ? os : "[" + os + "]");
        return oe + "\t" + os;
    });
}
#endif // !C12_PART
