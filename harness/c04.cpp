// C04 harness: etl::basic_inplace_string<C, N> vs std::basic_string<C> on the same case lines.
//
//   new cap=<n> ct=<char|wchar|c8|c16|c32>     two empty strings (obj 0, obj 1), each in its own heap block
//   <family> obj=<k> ov=<overload> args...      "the other object" is obj 1-k
//
// Output `<impl> \t <std>`; a line is `<ret> <state obj k> <state other>` with state = `size:[units]:nul`.
//   ov=self|selfsub|selfsubv|selfptr: the argument is (a part of) the string object itself, on both sides
//   erase_if pred=<eq|ne|lt|ge|odd|all|none> v=<n>: free erase_if with that predicate on the unsigned code unit
//   pre          the call is outside the compared domain (std throws / UB / len > Capacity): nothing is executed
//   clamp inv=b  the std result does not fit: the implementation is run, only its invariant is reported
//                (size() <= capacity() and data()[size()] == 0) and the std string is re-synchronised.
#include "proto.hpp"

#include <etl/string.hpp>
#include <etl/string_view.hpp>

#include <algorithm>
#include <functional>
#include <memory>
#include <optional>
#include <stdexcept>
#include <string>
#include <type_traits>

using proto::Line;

namespace {

struct Invalid { };

template <typename C>
using U = std::make_unsigned_t<C>;

template <typename C>
std::vector<long long> units(C const* p, std::size_t n)
{
    std::vector<long long> r;
    for (std::size_t i = 0; i < n; ++i) r.push_back(static_cast<long long>(static_cast<U<C>>(p[i])));
    return r;
}

template <typename C>
struct cbuf { // exact-size heap copy, optionally NUL-terminated
    proto::heap_buf<C> b;
    std::size_t n;
    cbuf(std::vector<long long> const& v, bool nul) : b(v.size() + (nul ? 1 : 0)), n(v.size())
    {
        for (std::size_t k = 0; k < v.size(); ++k) b.p[k] = static_cast<C>(v[k]);
        if (nul) b.p[v.size()] = C(0);
    }
    C const* p() const { return b.p; }
};

} // namespace

// external linkage: shared by all slices of the translation unit
struct Machine {
    virtual ~Machine()                        = default;
    virtual std::string step(Line const& l)   = 0;
    virtual std::string initial_state() const = 0;
};
inline auto c04_registry() -> std::map<std::pair<std::string, std::size_t>, std::unique_ptr<Machine> (*)()>&
{
    static std::map<std::pair<std::string, std::size_t>, std::unique_ptr<Machine> (*)()> r;
    return r;
}

namespace {

template <typename C, std::size_t N>
struct M final : Machine {
    using ES  = etl::basic_inplace_string<C, N>;
    using EV  = etl::basic_string_view<C>;
    using SS  = std::basic_string<C>;
    using SV  = std::basic_string_view<C>;
    using Ret = std::optional<std::size_t>;
    static constexpr std::size_t npos = static_cast<std::size_t>(-1);

    std::unique_ptr<ES> E[2];
    SS S[2];

    M()
    {
        E[0] = std::make_unique<ES>();
        E[1] = std::make_unique<ES>();
    }

    static std::string st(ES const& e)
    {
        auto n = e.size();
        if (n > N) return std::to_string(n) + ":oob";
        return std::to_string(n) + ":" + proto::fmt_list(units(e.data(), n)) + ":" + proto::fmt_bool(e.data()[n] == C(0));
    }
    static std::string st(SS const& s) { return std::to_string(s.size()) + ":" + proto::fmt_list(units(s.data(), s.size())) + ":1"; }
    static bool inv(ES const& e) { return e.size() <= e.capacity() && e.data()[e.size()] == C(0) && e.c_str() == e.data(); }
    static SS content(ES const& e) { return SS(e.data(), std::min<std::size_t>(e.size(), N)); }
    static std::string fr(Ret r) { return r ? std::to_string(*r) : std::string("-"); }

    std::string initial_state() const override { return "new " + st(*E[0]) + "\tnew " + st(S[0]); }

    std::string step(Line const& l) override
    {
        int const k = static_cast<int>(l.i("obj", 0));
        ES& e       = *E[k];
        ES& o       = *E[1 - k];
        SS& s       = S[k];
        SS& so      = S[1 - k];
        std::string const ov = l.has("ov") ? l.str("ov") : "";
        auto const& op       = l.op;

        auto P = [&](char const* key, std::size_t dflt) { return l.has(key) ? l.pos(key) : dflt; };

        auto tail = [&] { return " " + st(e) + " " + st(o) + "\t"; };
        auto stail = [&] { return " " + st(s) + " " + st(so); };

        // ---- mutating operations
        auto mutate = [&](bool assign_like, auto std_op, auto impl_op) -> std::string {
            SS t = s;
            Ret rs;
            try {
                rs = std_op(t);
            } catch (Invalid const&) {
                return "pre\tpre";
            } catch (std::out_of_range const&) {
                return "pre\tpre";
            }
            if (t.size() > N) {
                if (assign_like) return "pre\tpre";
                impl_op(e);
                std::string r = std::string("clamp inv=") + proto::fmt_bool(inv(e));
                s             = content(e);
                return r + "\tclamp inv=1";
            }
            Ret ri = impl_op(e);
            s      = t;
            return fr(ri) + tail() + fr(rs) + stail();
        };
        auto query = [&](std::string impl_r, std::optional<std::string> std_r) -> std::string {
            if (!std_r) return "pre\tpre";
            return impl_r + tail() + *std_r + stail();
        };
        auto none = [](auto&&...) -> Ret { return std::nullopt; };
        (void)none;

        // ---- the sequence argument of an overload
        std::vector<long long> const sv_units = l.has("s") ? l.list("s") : std::vector<long long>{};
        cbuf<C> raw(sv_units, false);
        cbuf<C> zt(sv_units, true);
        std::size_t const an = l.has("n") ? static_cast<std::size_t>(l.i("n")) : 0;
        std::size_t const p2 = P("pos2", 0);
        std::size_t const c2 = P("count2", npos);
        C const ch           = static_cast<C>(l.i("ch", 0));
        std::size_t const soff = l.has("off") ? static_cast<std::size_t>(l.i("off")) : 0;
        bool const is_self     = ov.rfind("self", 0) == 0;
        // the characters the argument denotes (std side); throws Invalid when the call is not defined
        auto den = [&]() -> SS {
            if (ov == "ptrn") { if (an > raw.n) throw Invalid{}; return SS(raw.p(), an); }
            if (ov == "cstr") return SS(zt.p());
            if (ov == "range" || ov == "view") return SS(raw.p(), raw.n);
            if (ov == "viewsub") { if (p2 > raw.n) throw Invalid{}; return SS(raw.p(), raw.n).substr(p2, c2); }
            if (ov == "str") return so;
            if (ov == "strsub" || ov == "strsubv") { if (p2 > so.size()) throw Invalid{}; return so.substr(p2, c2); }
            if (ov == "ch") return SS(1, ch);
            if (ov == "self") return s;
            if (ov == "selfsub" || ov == "selfsubv") { if (p2 > s.size()) throw Invalid{}; return s.substr(p2, c2); }
            if (ov == "selfptr") { if (soff + an > s.size()) throw Invalid{}; return s.substr(soff, an); }
            throw Invalid{};
        };
        auto den_opt = [&]() -> std::optional<SS> {
            try { return den(); } catch (Invalid const&) { return std::nullopt; }
        };

        if (op == "state") return query("-", "-");
        if (op == "raw") return proto::fmt_list(units(e.data(), N + 1)) + "\t*";
        if (op == "info") {
            auto len = static_cast<std::size_t>(e.end() - e.begin());
            bool consistent = len == e.size() && e.length() == e.size() && e.max_size() == N && e.cend() - e.cbegin() == e.end() - e.begin()
                && static_cast<std::size_t>(e.rend() - e.rbegin()) == e.size();
            return query(proto::fmt_bool(e.empty()) + proto::fmt_bool(e.full()) + " " + std::to_string(consistent ? e.size() : npos) + " " + std::to_string(e.capacity()),
                proto::fmt_bool(s.empty()) + proto::fmt_bool(s.size() == N) + " " + std::to_string(s.size()) + " " + std::to_string(N));
        }
        if (op == "at") {
            auto p = l.pos("pos");
            if (p > s.size()) return "pre\tpre";
            ES const& ce = e;
            auto v = static_cast<long long>(static_cast<U<C>>(ce[p]));
            auto v2 = static_cast<long long>(static_cast<U<C>>(e[p]));
            return query(std::to_string(v == v2 ? v : -1), std::to_string(static_cast<long long>(static_cast<U<C>>(s.c_str()[p]))));
        }
        if (op == "front" || op == "back") {
            if (s.empty()) return "pre\tpre";
            ES const& ce = e;
            auto a = op == "front" ? e.front() : e.back();
            auto b = op == "front" ? ce.front() : ce.back();
            auto c = op == "front" ? s.front() : s.back();
            return query(std::to_string(a == b ? static_cast<long long>(static_cast<U<C>>(a)) : -1), std::to_string(static_cast<long long>(static_cast<U<C>>(c))));
        }

        if (op == "assign" || op == "opassign" || op == "ctor") {
            if (is_self) { // the argument is (a part of) the string itself, for std and for etl alike
                if (op == "ctor") return "bad-op\tbad-op";
                return mutate(true,
                    [&](SS& t) -> Ret {
                        (void)den();
                        SS& u = t;
                        if (ov == "self") { if (op == "opassign") t = u; else t.assign(u); }
                        else if (ov == "selfsub") t.assign(u, p2, c2);
                        else if (ov == "selfptr") t.assign(t.data() + soff, an);
                        else throw std::logic_error("assign self ov");
                        return {};
                    },
                    [&](ES& x) -> Ret {
                        ES& y = x;
                        if (ov == "self") { if (op == "opassign") x = y; else x.assign(y); }
                        else if (ov == "selfsub") { if (l.has("count2")) x.assign(y, p2, c2); else x.assign(y, p2); }
                        else if (ov == "selfptr") x.assign(x.data() + soff, an);
                        return {};
                    });
            }
            if (ov == "fill") {
                auto cnt = static_cast<std::size_t>(l.i("count"));
                return mutate(true, [&](SS& t) -> Ret { t.assign(std::min(cnt, N + 1), ch); return {}; },
                    [&](ES& x) -> Ret { if (op == "ctor") { ES tmp(cnt, ch); x = tmp; } else x.assign(cnt, ch); return {}; });
            }
            if (ov == "copy") {
                return mutate(true, [&](SS& t) -> Ret { t = so; return {}; },
                    [&](ES& x) -> Ret { if (op == "ctor") { ES tmp(o); x = tmp; } else if (op == "opassign") x = o; else x.assign(o); return {}; });
            }
            if (ov == "strpos") { // basic_inplace_string(other, pos)
                return mutate(true, [&](SS& t) -> Ret { t = SS(so, p2); return {}; },
                    [&](ES& x) -> Ret { ES tmp(o, p2); x = tmp; return {}; });
            }
            return mutate(true, [&](SS& t) -> Ret { t = den(); return {}; }, [&](ES& x) -> Ret {
                if (op == "assign") {
                    if (ov == "ptrn") x.assign(raw.p(), an);
                    else if (ov == "cstr") x.assign(zt.p());
                    else if (ov == "range") x.assign(raw.p(), raw.p() + raw.n);
                    else if (ov == "view") x.assign(EV(raw.p(), raw.n));
                    else if (ov == "viewsub") { if (l.has("count2")) x.assign(EV(raw.p(), raw.n), p2, c2); else x.assign(EV(raw.p(), raw.n), p2); }
                    else if (ov == "str") x.assign(o);
                    else if (ov == "strsub") { if (l.has("count2")) x.assign(o, p2, c2); else x.assign(o, p2); }
                    else if (ov == "ch") x.assign(1, ch);
                } else if (op == "opassign") {
                    if (ov == "cstr") x = zt.p();
                    else if (ov == "ch") x = ch;
                    else if (ov == "view") x = EV(raw.p(), raw.n);
                    else if (ov == "str") x = o;
                    else throw std::logic_error("opassign ov");
                } else {
                    if (ov == "ptrn") { ES tmp(raw.p(), an); x = tmp; }
                    else if (ov == "cstr") { ES tmp(zt.p()); x = tmp; }
                    else if (ov == "range") { ES tmp(raw.p(), raw.p() + raw.n); x = tmp; }
                    else if (ov == "view") { ES tmp(EV(raw.p(), raw.n)); x = tmp; }
                    else if (ov == "viewsub") { ES tmp(EV(raw.p(), raw.n), p2, c2); x = tmp; }
                    else if (ov == "strsub") { ES tmp(o, p2, c2); x = tmp; }
                    else if (ov == "str") { ES tmp(o); x = tmp; }
                    else throw std::logic_error("ctor ov");
                }
                return {};
            });
        }
        if (op == "clear") return mutate(false, [&](SS& t) -> Ret { t.clear(); return {}; }, [&](ES& x) -> Ret { x.clear(); return {}; });
        if (op == "push_back") return mutate(false, [&](SS& t) -> Ret { t.push_back(ch); return {}; }, [&](ES& x) -> Ret { x.push_back(ch); return {}; });
        if (op == "pop_back") {
            return mutate(false, [&](SS& t) -> Ret { if (t.empty()) throw Invalid{}; t.pop_back(); return {}; }, [&](ES& x) -> Ret { x.pop_back(); return {}; });
        }
        if (op == "append" || op == "pluseq") {
            if (is_self) {
                return mutate(false,
                    [&](SS& t) -> Ret {
                        (void)den();
                        SS& u = t;
                        if (ov == "self") { if (op == "pluseq") t += u; else t.append(u); }
                        else if (ov == "selfsub") t.append(u, p2, c2);
                        else if (ov == "selfptr") t.append(t.data() + soff, an);
                        else throw std::logic_error("append self ov");
                        return {};
                    },
                    [&](ES& x) -> Ret {
                        ES& y = x;
                        ES* r = nullptr;
                        if (ov == "self") r = op == "pluseq" ? &(x += y) : &x.append(y);
                        else if (ov == "selfsub") r = l.has("count2") ? &x.append(y, p2, c2) : &x.append(y, p2);
                        else if (ov == "selfptr") r = &x.append(x.data() + soff, an);
                        if (r != &x) throw std::logic_error("append did not return *this");
                        return {};
                    });
            }
            if (ov == "fill") {
                auto cnt = l.pos("count");
                return mutate(false, [&](SS& t) -> Ret { t.append(std::min(cnt, N + 1), ch); return {}; }, [&](ES& x) -> Ret { x.append(cnt, ch); return {}; });
            }
            return mutate(false, [&](SS& t) -> Ret { t.append(den()); return {}; }, [&](ES& x) -> Ret {
                ES* r = nullptr;
                if (op == "pluseq") {
                    if (ov == "str") r = &(x += o);
                    else if (ov == "ch") r = &(x += ch);
                    else if (ov == "cstr") r = &(x += zt.p());
                    else if (ov == "view") r = &(x += EV(raw.p(), raw.n));
                    else throw std::logic_error("pluseq ov");
                } else if (ov == "ptrn") r = &x.append(raw.p(), an);
                else if (ov == "cstr") r = &x.append(zt.p());
                else if (ov == "range") r = &x.append(raw.p(), raw.p() + raw.n);
                else if (ov == "view") r = &x.append(EV(raw.p(), raw.n));
                else if (ov == "viewsub") r = l.has("count2") ? &x.append(EV(raw.p(), raw.n), p2, c2) : &x.append(EV(raw.p(), raw.n), p2);
                else if (ov == "str") r = &x.append(o);
                else if (ov == "strsub") r = l.has("count2") ? &x.append(o, p2, c2) : &x.append(o, p2);
                else if (ov == "ch") r = &x.append(1, ch);
                else throw std::logic_error("append ov");
                if (r != &x) throw std::logic_error("append did not return *this");
                return {};
            });
        }
        if (op == "insert") {
            auto idx = static_cast<std::size_t>(l.i("idx"));
            if (is_self) {
                return mutate(false,
                    [&](SS& t) -> Ret {
                        (void)den();
                        SS& u = t;
                        if (ov == "self") t.insert(idx, u);
                        else if (ov == "selfsubv") t.insert(idx, u, p2, c2);
                        else if (ov == "selfptr") t.insert(idx, t.data() + soff, an);
                        else throw std::logic_error("insert self ov");
                        return {};
                    },
                    [&](ES& x) -> Ret {
                        ES& y = x;
                        ES* r = nullptr;
                        if (ov == "self") r = &x.insert(idx, y);
                        else if (ov == "selfsubv") r = l.has("count2") ? &x.insert(idx, y, p2, c2) : &x.insert(idx, y, p2);
                        else if (ov == "selfptr") r = &x.insert(idx, x.data() + soff, an);
                        if (r != &x) throw std::logic_error("insert did not return *this");
                        return {};
                    });
            }
            if (ov == "fill") {
                auto cnt = static_cast<std::size_t>(l.i("count"));
                return mutate(false, [&](SS& t) -> Ret { t.insert(idx, std::min(cnt, N + 1), ch); return {}; }, [&](ES& x) -> Ret { x.insert(idx, cnt, ch); return {}; });
            }
            return mutate(false, [&](SS& t) -> Ret { auto d = den(); t.insert(idx, d); return {}; }, [&](ES& x) -> Ret {
                ES* r = nullptr;
                if (ov == "ptrn") r = &x.insert(idx, raw.p(), an);
                else if (ov == "cstr") r = &x.insert(idx, zt.p());
                else if (ov == "view") r = &x.insert(idx, EV(raw.p(), raw.n));
                else if (ov == "viewsub") r = l.has("count2") ? &x.insert(idx, EV(raw.p(), raw.n), p2, c2) : &x.insert(idx, EV(raw.p(), raw.n), p2);
                else if (ov == "str") r = &x.insert(idx, o);
                else if (ov == "strsubv") r = l.has("count2") ? &x.insert(idx, o, p2, c2) : &x.insert(idx, o, p2);
                else throw std::logic_error("insert ov");
                if (r != &x) throw std::logic_error("insert did not return *this");
                return {};
            });
        }
        if (op == "erase") {
            if (ov == "idx") {
                auto idx = P("idx", 0);
                auto cnt = P("count", npos);
                return mutate(false, [&](SS& t) -> Ret { t.erase(idx, cnt); return {}; }, [&](ES& x) -> Ret {
                    if (l.has("count")) x.erase(idx, cnt); else if (l.has("idx")) x.erase(idx); else x.erase();
                    return {};
                });
            }
            if (ov == "it") {
                auto p = static_cast<std::size_t>(l.i("pos"));
                return mutate(false, [&](SS& t) -> Ret { if (p >= t.size()) throw Invalid{}; auto it = t.erase(t.begin() + static_cast<std::ptrdiff_t>(p)); return static_cast<std::size_t>(it - t.begin()); },
                    [&](ES& x) -> Ret { auto it = x.erase(x.cbegin() + p); return static_cast<std::size_t>(it - x.begin()); });
            }
            if (ov == "range") {
                auto f = static_cast<std::size_t>(l.i("first"));
                auto la = static_cast<std::size_t>(l.i("last"));
                return mutate(false, [&](SS& t) -> Ret { if (f > la || la > t.size()) throw Invalid{}; auto it = t.erase(t.begin() + static_cast<std::ptrdiff_t>(f), t.begin() + static_cast<std::ptrdiff_t>(la)); return static_cast<std::size_t>(it - t.begin()); },
                    [&](ES& x) -> Ret { auto it = x.erase(x.cbegin() + f, x.cbegin() + la); return static_cast<std::size_t>(it - x.begin()); });
            }
            return "bad-op\tbad-op";
        }
        if (op == "erase_value") {
            return mutate(false, [&](SS& t) -> Ret { return static_cast<std::size_t>(std::erase(t, ch)); },
                [&](ES& x) -> Ret { return static_cast<std::size_t>(etl::erase(x, ch)); });
        }
        if (op == "erase_if") {
            std::string const pr = l.str("pred");
            auto const v         = static_cast<unsigned long long>(l.i("v", 0));
            auto pred            = [&](C c) -> bool {
                auto const u = static_cast<unsigned long long>(static_cast<U<C>>(c));
                if (pr == "eq") return u == v;
                if (pr == "ne") return u != v;
                if (pr == "lt") return u < v;
                if (pr == "ge") return u >= v;
                if (pr == "odd") return u % 2 == 1;
                if (pr == "all") return true;
                return false;
            };
            if (pr != "eq" && pr != "ne" && pr != "lt" && pr != "ge" && pr != "odd" && pr != "all" && pr != "none") return "bad-op\tbad-op";
            return mutate(false, [&](SS& t) -> Ret { return static_cast<std::size_t>(std::erase_if(t, pred)); },
                [&](ES& x) -> Ret { return static_cast<std::size_t>(etl::erase_if(x, pred)); });
        }
        if (op == "resize") {
            auto cnt = l.pos("count");
            return mutate(false, [&](SS& t) -> Ret { t.resize(std::min(cnt, N + 1), ch); return {}; },
                [&](ES& x) -> Ret { if (l.has("ch")) x.resize(cnt, ch); else x.resize(cnt); return {}; });
        }
        if (op == "swap") {
            if (ov == "free") { using etl::swap; swap(e, o); } else e.swap(o);
            std::swap(s, so);
            return "-" + tail() + "-" + stail();
        }
        if (op == "substr") {
            auto p = P("pos", 0);
            auto c = P("count", npos);
            if (p > s.size()) return "pre\tpre";
            ES r = l.has("count") ? e.substr(p, c) : l.has("pos") ? e.substr(p) : e.substr();
            return query(st(r), st(s.substr(p, c)));
        }
        if (op == "copy") {
            auto c = l.pos("count");
            auto p = P("pos", 0);
            if (p > s.size()) return "pre\tpre";
            auto room = std::min(c, s.size() - p);
            proto::heap_buf<C> d1(room), d2(room); // exact-fit destinations
            auto r1 = l.has("pos") ? e.copy(d1.p, c, p) : e.copy(d1.p, c);
            auto r2 = s.copy(d2.p, c, p);
            return query(std::to_string(r1) + ":" + proto::fmt_list(units(d1.p, room)), std::to_string(r2) + ":" + proto::fmt_list(units(d2.p, room)));
        }
        if (op == "plus") {
            SS rs;
            bool lhs_fits = true;
            if (ov == "strstr") rs = s + so;
            else if (ov == "strcstr") rs = s + zt.p();
            else if (ov == "strch") rs = s + ch;
            else if (ov == "cstrstr") { rs = zt.p() + s; lhs_fits = SS(zt.p()).size() <= N; }
            else if (ov == "chstr") { rs = ch + s; lhs_fits = 1 <= N; }
            else return "bad-op\tbad-op";
            if (!lhs_fits) return "pre\tpre";
            ES r = ov == "strstr" ? e + o : ov == "strcstr" ? e + zt.p() : ov == "strch" ? e + ch : ov == "cstrstr" ? zt.p() + e : ch + e;
            if (rs.size() > N) return query(std::string("clamp inv=") + proto::fmt_bool(inv(r)), "clamp inv=1");
            return query(st(r), st(rs));
        }
        if (op == "compare") {
            auto p1 = P("pos", 0);
            auto c1 = P("count", 0);
            int re = 0, rs = 0;
            auto d = ov == "str" || ov == "str3" || ov == "str5" ? std::optional<SS>(so)
                   : ov == "cstr" || ov == "cstr3" ? std::optional<SS>(SS(zt.p()))
                   : ov == "ptrn4" ? (an > raw.n ? std::nullopt : std::optional<SS>(SS(raw.p(), an)))
                   : std::optional<SS>(SS(raw.p(), raw.n));
            if (!d) return "pre\tpre";
            bool three = ov == "str3" || ov == "cstr3" || ov == "ptrn4" || ov == "view3";
            bool five  = ov == "str5" || ov == "view5";
            if ((three || five) && p1 > s.size()) return "pre\tpre";
            if (five && p2 > d->size()) return "pre\tpre";
            ES const& ce = e;
            if (ov == "str") { re = ce.compare(o); rs = s.compare(so); }
            else if (ov == "cstr") { re = ce.compare(zt.p()); rs = s.compare(zt.p()); }
            else if (ov == "view") { re = ce.compare(EV(raw.p(), raw.n)); rs = s.compare(SV(raw.p(), raw.n)); }
            else if (ov == "str3") { re = ce.compare(p1, c1, o); rs = s.compare(p1, c1, so); }
            else if (ov == "cstr3") { re = ce.compare(p1, c1, zt.p()); rs = s.compare(p1, c1, zt.p()); }
            else if (ov == "ptrn4") { re = ce.compare(p1, c1, raw.p(), an); rs = s.compare(p1, c1, raw.p(), an); }
            else if (ov == "view3") { re = ce.compare(p1, c1, EV(raw.p(), raw.n)); rs = s.compare(p1, c1, SV(raw.p(), raw.n)); }
            else if (ov == "str5") {
                re = l.has("count2") ? ce.compare(p1, c1, o, p2, c2) : ce.compare(p1, c1, o, p2);
                rs = s.compare(p1, c1, so, p2, c2);
            } else if (ov == "view5") {
                re = l.has("count2") ? ce.compare(p1, c1, EV(raw.p(), raw.n), p2, c2) : ce.compare(p1, c1, EV(raw.p(), raw.n), p2);
                rs = s.compare(p1, c1, SV(raw.p(), raw.n), p2, c2);
            } else return "bad-op\tbad-op";
            return query(proto::fmt_sign(re), proto::fmt_sign(rs));
        }
        if (op == "rel") {
            auto bits = [](bool a, bool b, bool c, bool d, bool f, bool g) {
                return proto::fmt_bool(a) + proto::fmt_bool(b) + proto::fmt_bool(c) + proto::fmt_bool(d) + proto::fmt_bool(f) + proto::fmt_bool(g);
            };
            ES const& a = e;
            ES const& b = o;
            C const* z  = zt.p();
            if (ov == "strstr") return query(bits(a == b, a != b, a < b, a <= b, a > b, a >= b), bits(s == so, s != so, s < so, s <= so, s > so, s >= so));
            if (ov == "strcstr") return query(bits(a == z, a != z, a < z, a <= z, a > z, a >= z), bits(s == z, s != z, s < z, s <= z, s > z, s >= z));
            if (ov == "cstrstr") return query(bits(z == a, z != a, z < a, z <= a, z > a, z >= a), bits(z == s, z != s, z < s, z <= s, z > s, z >= s));
            return "bad-op\tbad-op";
        }
        if (op == "starts_with" || op == "ends_with" || op == "contains") {
            auto d = den_opt();
            if (!d) return "pre\tpre";
            ES const& ce = e;
            bool re = false, rs = false;
            EV v(raw.p(), raw.n);
            if (op == "starts_with") {
                re = ov == "ch" ? ce.starts_with(ch) : ov == "cstr" ? ce.starts_with(zt.p()) : ce.starts_with(v);
                rs = s.starts_with(SV(*d));
            } else if (op == "ends_with") {
                re = ov == "ch" ? ce.ends_with(ch) : ov == "cstr" ? ce.ends_with(zt.p()) : ce.ends_with(v);
                rs = s.ends_with(SV(*d));
            } else {
                re = ov == "ch" ? ce.contains(ch) : ov == "cstr" ? ce.contains(zt.p()) : ce.contains(v);
                rs = s.find(*d) != npos;
            }
            return query(proto::fmt_bool(re), proto::fmt_bool(rs));
        }
#define SEARCH(NAME, HAS_PTRN, HAS_VIEW)                                                                               \
    if (op == #NAME) {                                                                                                 \
        auto d = den_opt();                                                                                            \
        if (!d) return "pre\tpre";                                                                                     \
        ES const& ce   = e;                                                                                            \
        bool const hp  = l.has("pos");                                                                                 \
        auto const pos = hp ? l.pos("pos") : 0;                                                                        \
        std::size_t re = 0;                                                                                            \
        if (ov == "str") re = hp ? ce.NAME(o, pos) : ce.NAME(o);                                                       \
        else if (ov == "ch") re = hp ? ce.NAME(ch, pos) : ce.NAME(ch);                                                 \
        else if (ov == "cstr") re = hp ? ce.NAME(zt.p(), pos) : cstr_default_##NAME(ce, zt.p());                       \
        else if (ov == "ptrn") re = ptrn_##NAME(ce, raw.p(), pos, an);                                                 \
        else if (ov == "view") re = view_##NAME(ce, EV(raw.p(), raw.n), pos, hp);                                      \
        else return "bad-op\tbad-op";                                                                                  \
        std::size_t rs = hp ? s.NAME(*d, pos) : s.NAME(*d);                                                            \
        return query(proto::fmt_pos(re), proto::fmt_pos(rs));                                                          \
    }
        // overloads that exist only for some members
        auto cstr_default_find              = [](ES const& x, C const* z) { return x.find(z); };
        auto cstr_default_rfind             = [](ES const& x, C const* z) { return x.rfind(z); };
        auto cstr_default_find_first_of     = [](ES const& x, C const* z) { return x.find_first_of(z); };
        auto cstr_default_find_first_not_of = [](ES const& x, C const* z) { return x.find_first_not_of(z, 0); }; // no default in the header
        auto cstr_default_find_last_of      = [](ES const& x, C const* z) { return x.find_last_of(z); };
        auto cstr_default_find_last_not_of  = [](ES const& x, C const* z) { return x.find_last_not_of(z); };
        auto ptrn_find              = [](ES const& x, C const* p, std::size_t pos, std::size_t n) { return x.find(p, pos, n); };
        auto ptrn_rfind             = [](ES const& x, C const* p, std::size_t pos, std::size_t n) { return x.rfind(p, pos, n); };
        auto ptrn_find_first_of     = [](ES const& x, C const* p, std::size_t pos, std::size_t n) { return x.find_first_of(p, pos, n); };
        auto ptrn_find_first_not_of = [](ES const& x, C const* p, std::size_t pos, std::size_t n) { return x.find_first_not_of(p, pos, n); };
        auto ptrn_find_last_of      = [](ES const& x, C const* p, std::size_t pos, std::size_t n) { return x.find_last_of(p, pos, n); };
        auto ptrn_find_last_not_of  = [](ES const& x, C const* p, std::size_t pos, std::size_t n) { return x.find_last_not_of(p, pos, n); };
        auto no_view                = [](ES const&, EV, std::size_t, bool) -> std::size_t { throw std::logic_error("no view overload"); };
        auto view_find              = no_view;
        auto view_rfind             = no_view;
        auto view_find_first_of     = [](ES const& x, EV v, std::size_t pos, bool hp) { return hp ? x.find_first_of(v, pos) : x.find_first_of(v); };
        auto view_find_first_not_of = no_view;
        auto view_find_last_of      = no_view;
        auto view_find_last_not_of  = no_view;
        SEARCH(find, 1, 0)
        SEARCH(rfind, 0, 0)
        SEARCH(find_first_of, 1, 1)
        SEARCH(find_first_not_of, 1, 0)
        SEARCH(find_last_of, 1, 0)
        SEARCH(find_last_not_of, 1, 0)
#undef SEARCH
        if (op == "replace") {
            auto p1 = P("pos", 0);
            auto c1 = P("count", 0);
            auto f  = static_cast<std::size_t>(l.i("first", 0));
            auto la = static_cast<std::size_t>(l.i("last", 0));
            bool const it = ov.rfind("it", 0) == 0;
            auto cnt2 = static_cast<std::size_t>(l.i("count2", 0));
            return mutate(false,
                [&](SS& t) -> Ret {
                    if (it && (f > la || la > t.size())) throw Invalid{};
                    auto const pp = it ? f : p1;
                    auto const nn = it ? la - f : c1;
                    if (ov == "itfill") { t.replace(pp, nn, std::min(cnt2, N + 1), ch); return {}; }
                    SS d;
                    if (ov == "str" || ov == "itstr") d = so;
                    else if (ov == "str5") { if (p2 > so.size()) throw Invalid{}; d = so.substr(p2, c2); }
                    else if (ov == "ptrn" || ov == "itptrn") { if (an > raw.n) throw Invalid{}; d = SS(raw.p(), an); }
                    else if (ov == "cstr" || ov == "itcstr") d = SS(zt.p());
                    else throw Invalid{};
                    t.replace(pp, nn, d);
                    return {};
                },
                [&](ES& x) -> Ret {
                    ES* r = nullptr;
                    if (ov == "str") r = &x.replace(p1, c1, o);
                    else if (ov == "itstr") r = &x.replace(x.cbegin() + f, x.cbegin() + la, o);
                    else if (ov == "str5") r = l.has("count2") ? &x.replace(p1, c1, o, p2, c2) : &x.replace(p1, c1, o, p2);
                    else if (ov == "ptrn") r = &x.replace(p1, c1, raw.p(), an);
                    else if (ov == "itptrn") r = &x.replace(x.cbegin() + f, x.cbegin() + la, raw.p(), an);
                    else if (ov == "cstr") r = &x.replace(p1, c1, zt.p());
                    else if (ov == "itcstr") r = &x.replace(x.cbegin() + f, x.cbegin() + la, zt.p());
                    else if (ov == "itfill") r = &x.replace(x.cbegin() + f, x.cbegin() + la, cnt2, ch);
                    if (r != &x) throw std::logic_error("replace did not return *this");
                    return {};
                });
        }
        return "bad-op\tbad-op";
    }
};

// ---- instantiations.  The translation unit can be compiled in C04_NPARTS slices (-DC04_PART=i): slice i
// instantiates every C04_NPARTS-th (character type, capacity) pair and registers it; slice 0 also holds main().
#ifndef C04_NPARTS
    #define C04_NPARTS 1
#endif
#ifndef C04_PART
    #define C04_PART 0
#endif

using Factory = std::unique_ptr<Machine> (*)();

template <int J, typename C, std::size_t N>
void reg(char const* name)
{
    if constexpr (J % C04_NPARTS == C04_PART) {
        c04_registry()[{name, N}] = +[]() -> std::unique_ptr<Machine> { return std::make_unique<M<C, N>>(); };
    }
}

[[maybe_unused]] int const registered = [] {
    // char: capacities on both sides of the layout switch (tiny < 16 <= normal) and of the uint8/uint16 size field
    reg<0, char, 0>("char"); reg<1, char, 1>("char"); reg<2, char, 2>("char"); reg<3, char, 3>("char");
    reg<4, char, 7>("char"); reg<5, char, 15>("char"); reg<6, char, 16>("char"); reg<7, char, 31>("char");
    reg<8, char, 255>("char"); reg<9, char, 256>("char"); reg<10, char, 254>("char");
    reg<11, wchar_t, 1>("wchar"); reg<12, wchar_t, 7>("wchar"); reg<13, wchar_t, 15>("wchar"); reg<14, wchar_t, 16>("wchar"); reg<15, wchar_t, 256>("wchar");
    reg<16, char8_t, 0>("c8"); reg<17, char8_t, 7>("c8"); reg<18, char8_t, 15>("c8"); reg<19, char8_t, 16>("c8"); reg<20, char8_t, 255>("c8");
    reg<21, char16_t, 1>("c16"); reg<22, char16_t, 7>("c16"); reg<23, char16_t, 15>("c16"); reg<24, char16_t, 16>("c16"); reg<25, char16_t, 31>("c16");
    reg<26, char32_t, 0>("c32"); reg<27, char32_t, 7>("c32"); reg<28, char32_t, 15>("c32"); reg<29, char32_t, 16>("c32"); reg<30, char32_t, 256>("c32");
    reg<31, wchar_t, 3>("wchar");
    return 0;
}();

#if C04_PART == 0
std::unique_ptr<Machine> cur;

std::string step(Line const& l)
{
    if (l.op == "new") {
        auto it = c04_registry().find({l.has("ct") ? l.str("ct") : "char", static_cast<std::size_t>(l.i("cap"))});
        if (it == c04_registry().end()) return "bad-op\tbad-op";
        cur = it->second();
        return cur->initial_state();
    }
    if (!cur) return "bad-op\tbad-op";
    return cur->step(l);
}
#endif

} // namespace

#if C04_PART == 0
int main(int argc, char** argv) { return proto::run(argc, argv, step); }
#endif
