// C16 harness: etl cmath / complex / midpoint vs glibc libm (and libstdc++ <complex>, <numeric>).
//
// Bit patterns travel as decimal integers (binary64 patterns >= 2^63 as the negative two's-complement
// value); a NaN result is printed as `nan` (the payload of a NaN result is never compared), and as `nan+` / `nan-`
// for the sign-bit operations fabs, abs and copysign (u, cu, uv, b, cb, bv): there the sign bit of a NaN is part of
// the result (C17 7.12.7.2, 7.12.11.1: fabs clears, copysign copies the sign bit of every value, NaNs included).
//
//   u   t=32|64 f=<unary exact> x=<bits>            run-time path   -> result bits | integer | 0/1
//   cu  t=..    f=..            x=<bits>            the same through a constexpr table (constant evaluation)
//   uv  t=..    xs=[bits,...]                       every unary exact function on every x (run time)
//   b   t=..    f=<binary exact> x= y=              run-time path
//   cb  t=..    f=..            x= y=               constexpr table
//   bv  t=..    f=..            xs=[..] ys=[..]     pairwise, run time
//   s   t=..    f=lerp|midpoint|fma x= y= [z=]      `ok` when bit-identical to libstdc++/glibc, else the values
//   a   t=..    f=<approximating> x= [y=]           `ok` when within the tolerance of libm, else the values
//   ca  t=..    f=..            x= [y=]             the same through a constexpr table
//   cs  t=..    f=lerp|midpoint|fma k=<row>         row k of the constexpr table CS, bit-identical to libstdc++/glibc
//   al  t=64    f=<approximating> x= [y=]           the long double overload at run time on (long double)x, ulps of long double
//   c   t=..    f=<complex fn>  re= im= [re2= im2=] `ok` when within tolerance of std::complex
//
// Output: `<etl result>\t<libm result>`; for a/ca/c: `ok\tok` or `ulp(<n>):etl=..:libm=..\tok`.
#include "proto.hpp"

#include <etl/cmath.hpp>
#include <etl/complex.hpp>
#include <etl/numeric.hpp>

#include <array>
#include <cmath>
#include <complex>
#include <cstdint>
#include <cstdlib>
#include <cstring>
#include <limits>
#include <numeric>
#include <string>

using proto::Line;

template <typename T> struct bits_of;
template <> struct bits_of<float> { using type = std::uint32_t; };
template <> struct bits_of<double> { using type = std::uint64_t; };
template <typename T> using bits_t = typename bits_of<T>::type;

template <typename T>
static constexpr auto from_bits(bits_t<T> b) -> T { return __builtin_bit_cast(T, b); }
template <typename T>
static constexpr auto to_bits(T x) -> bits_t<T> { return __builtin_bit_cast(bits_t<T>, x); }

// sgn: the sign bit of a NaN result is observable (fabs, abs, copysign)
template <typename T>
static auto fb(T r, bool sgn = false) -> std::string
{
    if (r != r) {
        if (!sgn) return "nan";
        bits_t<T> const sign = bits_t<T>(1) << (sizeof(T) * 8 - 1);
        return (to_bits(r) & sign) ? "nan-" : "nan+";
    }
    return std::to_string(static_cast<unsigned long long>(to_bits(r)));
}
template <typename T>
static auto fbu(bits_t<T> b, bool sgn = false) -> std::string { return fb(from_bits<T>(b), sgn); }
static auto sign_op(char const* n) -> bool
{
    std::string_view s{n};
    return s == "fabs" || s == "abs" || s == "copysign";
}
static auto fi(long long v) -> std::string { return std::to_string(v); }

template <typename T>
static auto arg_bits(Line const& l, char const* k) -> bits_t<T>
{
    return static_cast<bits_t<T>>(static_cast<unsigned long long>(l.i(k)));
}

// ---------------------------------------------------------------------------------- constexpr inputs
static constexpr std::uint32_t ct32_pos[] = {
#define CT32(x) x##u,
#include "c16_ctab.inc"
#undef CT32
};
static constexpr std::uint32_t cb32_pos[] = {
#define CB32(x) x##u,
#include "c16_ctab.inc"
#undef CB32
};
static constexpr std::uint64_t ct64_pos[] = {
#define CT64(x) x##ull,
#include "c16_ctab.inc"
#undef CT64
};
static constexpr std::uint64_t cb64_pos[] = {
#define CB64(x) x##ull,
#include "c16_ctab.inc"
#undef CB64
};

template <typename U, std::size_t N, std::size_t M>
static constexpr auto both_signs(U const (&a)[N], U const (&b)[M], bool with_b)
{
    std::array<U, 2 * (N + M)> r{};
    std::size_t k = 0;
    U const sign  = U(1) << (sizeof(U) * 8 - 1);
    for (auto x : a) { r[k++] = x; r[k++] = x | sign; }
    if (with_b) {
        for (auto x : b) { r[k++] = x; r[k++] = x | sign; }
    }
    return r;
}
template <typename T> struct ctab;
template <> struct ctab<float> {
    static constexpr std::size_t n_small = 2 * (sizeof(ct32_pos) / sizeof(ct32_pos[0]));
    static constexpr std::size_t n_all   = n_small + 2 * (sizeof(cb32_pos) / sizeof(cb32_pos[0]));
    static constexpr auto in             = both_signs(ct32_pos, cb32_pos, true);
};
template <> struct ctab<double> {
    static constexpr std::size_t n_small = 2 * (sizeof(ct64_pos) / sizeof(ct64_pos[0]));
    static constexpr std::size_t n_all   = n_small + 2 * (sizeof(cb64_pos) / sizeof(cb64_pos[0]));
    static constexpr auto in             = both_signs(ct64_pos, cb64_pos, true);
};

template <typename T>
static auto ct_index(bits_t<T> b, std::size_t n) -> long
{
    for (std::size_t k = 0; k < n; ++k)
        if (ctab<T>::in[k] == b) return static_cast<long>(k);
    return -1;
}

// result of a constant-evaluated call: a bit pattern, an integer, or a bool
struct CV { long long v; int kind; }; // kind 0 bits, 1 integer, 2 bool
template <typename T, typename R>
static constexpr auto cv(R r) -> CV
{
    if constexpr (std::is_same_v<R, bool>) return {r ? 1 : 0, 2};
    else if constexpr (std::is_integral_v<R>) return {static_cast<long long>(r), 1};
    else return {static_cast<long long>(to_bits<T>(static_cast<T>(r))), 0};
}
template <typename T>
static auto fcv(CV c, bool sgn = false) -> std::string
{
    if (c.kind == 0) return fbu<T>(static_cast<bits_t<T>>(static_cast<unsigned long long>(c.v)), sgn);
    return fi(c.v);
}

// unary table over the first N inputs
template <typename T, std::size_t N, typename F, typename P>
static constexpr auto make_utab(F f, P ok)
{
    std::array<CV, N> r{};
    for (std::size_t k = 0; k < N; ++k) {
        auto const x = from_bits<T>(ctab<T>::in[k]);
        r[k]         = ok(x) ? cv<T>(f(x)) : CV{0, 3};
    }
    return r;
}
// binary table over SMALL x SMALL (filter: pairs for which the call is a constant expression)
template <typename T, std::size_t N, typename F, typename P>
static constexpr auto make_btab(F f, P ok)
{
    std::array<CV, N * N> r{};
    for (std::size_t i = 0; i < N; ++i)
        for (std::size_t j = 0; j < N; ++j) {
            auto const x = from_bits<T>(ctab<T>::in[i]);
            auto const y = from_bits<T>(ctab<T>::in[j]);
            r[i * N + j] = ok(x, y) ? cv<T>(f(x, y)) : CV{0, 3};
        }
    return r;
}

// ---------------------------------------------------------------------------------- exact functions
#define UNARY_EXACT(X)                                                                                                  \
    X(floor) X(ceil) X(trunc) X(round) X(rint) X(lrint) X(llrint) X(fabs) X(abs) X(signbit) X(isnan) X(isinf)          \
    X(isfinite)
#define BINARY_EXACT(X) X(copysign) X(fmin) X(fmax) X(fdim) X(fmod) X(remainder) X(nextafter)

template <typename R> static auto fr(R r, bool sgn = false) -> std::string
{
    if constexpr (std::is_same_v<R, bool>) return r ? "1" : "0";
    else if constexpr (std::is_integral_v<R>) return fi(static_cast<long long>(r));
    else return fb(r, sgn);
}

template <typename T>
static auto unary_rt(std::string const& f, T x, bool& known) -> std::string
{
    known = true;
#define X(NAME)                                                                                                        \
    if (f == #NAME) return fr(etl::NAME(x), sign_op(#NAME)) + "\t" + fr(std::NAME(x), sign_op(#NAME));
    UNARY_EXACT(X)
#undef X
    known = false;
    return "";
}

template <typename T>
static auto binary_rt(std::string const& f, T x, T y, bool& known) -> std::string
{
    known = true;
#define X(NAME)                                                                                                        \
    if (f == #NAME) return fr(etl::NAME(x, y), sign_op(#NAME)) + "\t" + fr(std::NAME(x, y), sign_op(#NAME));
    BINARY_EXACT(X)
#undef X
    known = false;
    return "";
}

// constexpr tables.  Functions that return an integer type get the SMALL inputs only.
template <typename T> static constexpr bool small_only(char const* n)
{
    std::string_view s{n};
    return s == "lrint" || s == "llrint";
}
template <typename T> struct CT {
    static constexpr std::size_t NS = ctab<T>::n_small;
    static constexpr std::size_t NA = ctab<T>::n_all;
    static constexpr bool fin(T x) { return x == x && x <= std::numeric_limits<T>::max() && x >= -std::numeric_limits<T>::max(); }
    // a conversion of inf/NaN to an integer type is not a constant expression (lrint/llrint)
    static constexpr bool cast_ok(char const* n, T x)
    {
        std::string_view s{n};
        if (s == "lrint" || s == "llrint") return fin(x);
        return true;
    }
#define X(NAME)                                                                                                        \
    static constexpr auto u_##NAME = make_utab<T, (small_only<T>(#NAME) ? NS : NA)>(                                   \
        [](T x) { return etl::NAME(x); }, [](T x) { return cast_ok(#NAME, x); });
    UNARY_EXACT(X)
#undef X
    // every pair is a constant expression for every binary exact function (fmod / remainder since 67c4687 / f0dd916:
    // no filter; a pair that is not a constant expression makes this harness fail to compile, which is a finding)
    static constexpr bool any(T, T) { return true; }
    static constexpr auto b_copysign  = make_btab<T, NS>([](T x, T y) { return etl::copysign(x, y); }, any);
    static constexpr auto b_fmin      = make_btab<T, NS>([](T x, T y) { return etl::fmin(x, y); }, any);
    static constexpr auto b_fmax      = make_btab<T, NS>([](T x, T y) { return etl::fmax(x, y); }, any);
    static constexpr auto b_fdim      = make_btab<T, NS>([](T x, T y) { return etl::fdim(x, y); }, any);
    static constexpr auto b_fmod      = make_btab<T, NS>([](T x, T y) { return etl::fmod(x, y); }, any);
    static constexpr auto b_remainder = make_btab<T, NS>([](T x, T y) { return etl::remainder(x, y); }, any);
    static constexpr auto b_nextafter = make_btab<T, NS>([](T x, T y) { return etl::nextafter(x, y); }, any);
};

template <typename T>
static auto unary_ct(std::string const& f, bits_t<T> xb) -> std::string
{
#define X(NAME)                                                                                                        \
    if (f == #NAME) {                                                                                                  \
        long k = ct_index<T>(xb, CT<T>::u_##NAME.size());                                                              \
        if (k < 0) return "bad-op";                                                                                    \
        CV c = CT<T>::u_##NAME[static_cast<std::size_t>(k)];                                                           \
        if (c.kind == 3) return "*\t" + fr(std::NAME(from_bits<T>(xb)), sign_op(#NAME));                        \
        return fcv<T>(c, sign_op(#NAME)) + "\t" + fr(std::NAME(from_bits<T>(xb)), sign_op(#NAME));                     \
    }
    UNARY_EXACT(X)
#undef X
    return "bad-op";
}
template <typename T>
static auto binary_ct(std::string const& f, bits_t<T> xb, bits_t<T> yb) -> std::string
{
    long i = ct_index<T>(xb, CT<T>::NS), j = ct_index<T>(yb, CT<T>::NS);
    if (i < 0 || j < 0) return "bad-op";
    auto const idx = static_cast<std::size_t>(i) * CT<T>::NS + static_cast<std::size_t>(j);
#define X(NAME)                                                                                                        \
    if (f == #NAME) {                                                                                                  \
        CV c = CT<T>::b_##NAME[idx];                                                                                   \
        auto s = fr(std::NAME(from_bits<T>(xb), from_bits<T>(yb)), sign_op(#NAME));                                    \
        if (c.kind == 3) return "*\t" + s;                                                                      \
        return fcv<T>(c, sign_op(#NAME)) + "\t" + s;                                                                   \
    }
    BINARY_EXACT(X)
#undef X
    return "bad-op";
}

// ---------------------------------------------------------------------------------- approximating functions
// tolerance: distance in units in the last place of the libm result (a RELATIVE bound).  Only where libm's own result is
// zero or subnormal (|s| < min normal: no relative error is defined there) an absolute error bound is accepted instead.
template <typename T>
static auto ulp_dist(T a, T b) -> double
{
    using U = bits_t<T>;
    using S = std::make_signed_t<U>;
    U const sign = U(1) << (sizeof(U) * 8 - 1);
    auto ord = [&](T x) -> long double {
        U u = to_bits(x);
        return (u & sign) ? -static_cast<long double>(static_cast<S>(u & ~sign)) : static_cast<long double>(u);
    };
    long double d = ord(a) - ord(b);
    return static_cast<double>(d < 0 ? -d : d);
}
struct Tol { double ulps; double abs32; double abs64; };
// C16_MEASURE=1 (measuring aid for c16_tol.inc, never set by the check): every tolerance is 0, so each result that is
// not bit-identical prints its distance
static bool const g_measure = std::getenv("C16_MEASURE") != nullptr;
template <typename T>
static auto judge(T e, T s, Tol t) -> std::string
{
    if (g_measure) t = Tol{0, 0, 0};
    bool en = e != e, sn = s != s;
    if (sn || en) {
        if (sn && en) return "ok";
        return "special:etl=" + fb(e) + ":libm=" + fb(s);
    }
    if (std::isinf(s) || std::isinf(e)) {
        if (e == s) return "ok";
        return "special:etl=" + fb(e) + ":libm=" + fb(s);
    }
    // the sign of a zero result is part of the result (C17 F.10: sin(-0) = -0, ...); ulp_dist(+0, -0) is 0
    if (e == 0 && s == 0 && std::signbit(e) != std::signbit(s)) return "zero-sign:etl=" + fb(e) + ":libm=" + fb(s);
    double d = ulp_dist(e, s);
    if (d <= t.ulps) return "ok";
    if (std::fabs(s) < std::numeric_limits<T>::min()) {
        double ad = std::fabs(static_cast<double>(e) - static_cast<double>(s));
        if (ad <= (sizeof(T) == 4 ? t.abs32 : t.abs64)) return "ok";
    }
    char buf[64];
    std::snprintf(buf, sizeof buf, "ulp(%.0f)", d);
    return std::string(buf) + ":etl=" + fb(e) + ":libm=" + fb(s);
}

// Tolerances (measured on the clean tree, see checks/props/c16.py TOLERANCES): run-time paths that call the
// libm builtin are bit-identical (this is a check of the dispatch); gcem (beta at run time, every constant-evaluated
// call except sqrt) and tetl's own hypot are looser.
#include "c16_tol.inc"

#define UNARY_APPROX(X)                                                                                                 \
    X(sqrt) X(exp) X(log) X(log2) X(log10) X(log1p) X(sin) X(cos) X(tan) X(asin) X(acos) X(atan) X(sinh) X(cosh)        \
    X(tanh) X(asinh) X(acosh) X(atanh) X(erf) X(tgamma) X(lgamma)
#define BINARY_APPROX(X) X(pow) X(atan2) X(hypot)

template <typename T>
static auto approx_rt(Line const& l, bool& known) -> std::string
{
    auto const& f = l.str("f");
    T x = from_bits<T>(arg_bits<T>(l, "x"));
    known = true;
#define X(NAME)                                                                                                        \
    if (f == #NAME) return judge<T>(etl::NAME(x), std::NAME(x), tol_rt(#NAME)) + "\tok";
    UNARY_APPROX(X)
#undef X
    if (!l.has("y")) { known = false; return ""; }
    T y = from_bits<T>(arg_bits<T>(l, "y"));
#define X(NAME)                                                                                                        \
    if (f == #NAME) return judge<T>(etl::NAME(x, y), std::NAME(x, y), tol_rt(#NAME)) + "\tok";
    BINARY_APPROX(X)
#undef X
    if (f == "beta") return judge<T>(static_cast<T>(etl::beta(x, y)), static_cast<T>(std::beta(x, y)), tol_rt("beta")) + "\tok";
    if (f == "hypot3" && l.has("z")) {
        T z = from_bits<T>(arg_bits<T>(l, "z"));
        return judge<T>(etl::hypot(x, y, z), std::hypot(x, y, z), tol_rt("hypot")) + "\tok";
    }
    known = false;
    return "";
}

// constexpr tables of approximating functions.  Inputs (the same list as CA_IN of checks/props/c16.py): ordinary
// arguments, plus boundary / tiny / large / negative ones where gcem is known to misbehave.  `cexpr` is NOT a domain of
// good behaviour: it excludes exactly the arguments for which GCC rejects gcem's evaluation (overflow or inf - inf inside
// the series is not a constant expression, measured with one constexpr variable per row); those print `*`.  Every other
// argument is judged, mathematical domain errors (sqrt(-1), log(-1), acos(2): NaN) included.
template <typename T> struct CA {
    static constexpr T in[] = {T(0), T(0.1), T(0.25), T(0.5), T(0.75), T(1), T(1.5), T(2), T(3), T(10),
        T(-0.1), T(-0.5), T(-1), T(-2), T(0.001), T(7.25), T(100),
        T(-0.0), T(1e-30), T(-1e-30), T(1e-5), T(50), T(89), T(1e30), T(-100), T(-2.5), T(0.999),
        std::numeric_limits<T>::max(), std::numeric_limits<T>::denorm_min()};
    static constexpr std::size_t N = sizeof(in) / sizeof(in[0]);
    template <typename F, typename P>
    static constexpr auto mk(F f, P ok)
    {
        std::array<T, N> r{};
        for (std::size_t k = 0; k < N; ++k) r[k] = ok(in[k]) ? f(in[k]) : T(0);
        return r;
    }
    static constexpr bool all(T) { return true; }
    static constexpr bool huge(T x) { return x >= T(1e30) || x <= T(-1e30); }
    static constexpr bool nothuge(T x) { return !huge(x); }
    static constexpr bool erfd(T x) { return x > T(-30) && x < T(30); }
    static constexpr bool tgd(T x) { return x < T(200); }
    static constexpr bool lgd(T x) { return x < std::numeric_limits<T>::max(); }
    static constexpr bool cexpr(char const* n, T x)
    {
        std::string_view s{n};
        if (s == "exp" || s == "sinh" || s == "cosh" || s == "tanh" || s == "atan" || s == "asinh" || s == "acosh") return nothuge(x);
        if (s == "erf") return erfd(x);
        if (s == "tgamma") return tgd(x);
        if (s == "lgamma") return lgd(x);
        return true;
    }
#define CAT(NAME) static constexpr auto t_##NAME = mk([](T x) { return etl::NAME(x); }, [](T x) { return cexpr(#NAME, x); });
    CAT(sqrt) CAT(exp) CAT(log) CAT(log2) CAT(log10) CAT(log1p) CAT(sin) CAT(cos) CAT(tan) CAT(asin) CAT(acos) CAT(atan)
    CAT(sinh) CAT(cosh) CAT(tanh) CAT(asinh) CAT(acosh) CAT(atanh) CAT(erf) CAT(tgamma) CAT(lgamma)
#undef CAT

    // two-argument functions in constant evaluation (pow, atan2: gcem; hypot: tetl's own code over the folded sqrt builtin)
    struct P2 { T x, y; };
    // pow(0, 0) is NOT a constant expression (gcem evaluates 0 * log(0) = 0 * -inf; C: 1) and atan2(1e30f, 1) neither
    // (x * x overflows inside gcem's atan): such rows cannot be part of a constexpr table and are left out
    static constexpr P2 in_pow[]   = {{T(2), T(3)}, {T(2), T(0.5)}, {T(10), T(-2)}, {T(0.5), T(2.5)}, {T(3), T(0)}, {T(1.5), T(7.25)},
          {T(0.1), T(0.25)}, {T(1), T(1e30)}, {T(-2), T(3)}, {T(-2), T(2)}, {T(0), T(2)}};
    static constexpr P2 in_atan2[] = {{T(1), T(1)}, {T(1), T(-1)}, {T(-1), T(-1)}, {T(-1), T(1)}, {T(0), T(1)}, {T(0), T(-1)},
        {T(-0.0), T(-1)}, {T(-0.0), T(1)}, {T(3), T(4)}, {T(0.1), T(0.25)}, {T(1), T(0)}, {T(-1), T(0)}, {T(0), T(0)}};
    // hypot: small and ordinary magnitudes only.  Large ones (1e30, max) are exercised at run time: with an unscaled
    // x * x + y * y they would overflow, which is not a constant expression — this harness would stop compiling (exit 2)
    // instead of reporting the wrong value (exit 1).
    static constexpr P2 in_hypot[] = {{T(3), T(4)}, {T(-3), T(4)}, {T(1e-30), T(0)}, {T(1e-30), T(-1e-30)}, {T(0), T(0)},
        {T(0.1), T(0.25)}, {T(-0.0), T(0)}, {std::numeric_limits<T>::denorm_min(), std::numeric_limits<T>::denorm_min()},
        {std::numeric_limits<T>::min(), T(0)}, {std::numeric_limits<T>::infinity(), std::numeric_limits<T>::quiet_NaN()}};
    template <std::size_t M, typename F>
    static constexpr auto mk2(P2 const (&in)[M], F f)
    {
        std::array<T, M> r{};
        for (std::size_t k = 0; k < M; ++k) r[k] = f(in[k].x, in[k].y);
        return r;
    }
    static constexpr auto t2_pow   = mk2(in_pow, [](T x, T y) { return etl::pow(x, y); });
    static constexpr auto t2_atan2 = mk2(in_atan2, [](T x, T y) { return etl::atan2(x, y); });
    static constexpr auto t2_hypot = mk2(in_hypot, [](T x, T y) { return etl::hypot(x, y); });
    template <std::size_t M>
    static auto find2(P2 const (&in)[M], bits_t<T> xb, bits_t<T> yb) -> long
    {
        for (std::size_t i = 0; i < M; ++i)
            if (to_bits(in[i].x) == xb && to_bits(in[i].y) == yb) return static_cast<long>(i);
        return -1;
    }
};

// Dense constexpr table for the exp family and the logarithms (gcem splits exp(x) = e^n * exp(r) with n = find_whole(x),
// r = find_fraction(x): the two helpers must agree at the tie |r| = 0.5, so exact half-integers, integers and the
// neighbours of k/2 and of multiples of ln 2 are the arguments that matter).  The list is generated by `dense_in` and
// mirrored by checks/props/c16.py `dense_values` (same order is not needed: rows are found by bit pattern).
template <typename T> struct CE {
    static constexpr std::size_t N = 82 + 18 + 56 + 21;
    static constexpr auto nxt(T x, int dir) -> T   // the neighbour of a positive finite x
    {
        auto b = __builtin_bit_cast(bits_t<T>, x);
        return __builtin_bit_cast(T, static_cast<bits_t<T>>(dir > 0 ? b + 1 : b - 1));
    }
    static constexpr auto make() -> std::array<T, N>
    {
        std::array<T, N> r{};
        std::size_t k = 0;
        for (int n = 0; n <= 40; ++n) { r[k++] = T(n) + T(0.5); r[k++] = -(T(n) + T(0.5)); }                 // 82 half-integers
        for (int n : {2, 3, 4, 5, 8, 16, 17, 32, 40}) { r[k++] = T(n); r[k++] = T(-n); }                      // 18 integers
        for (int h : {4, 5, 6, 7, 8, 9, 16, 17, 40, 41, 80, 81, 33, 65}) {                                   // 56 neighbours of h/2
            T const v = T(h) / T(2);
            r[k++] = nxt(v, +1); r[k++] = nxt(v, -1); r[k++] = -nxt(v, +1); r[k++] = -nxt(v, -1);
        }
        for (int m : {1, 2, 3, 10, 50, 100, 127}) {                                                          // 21 neighbours of m * ln 2
            T const v = T(m) * T(0.693147180559945309417232121458176568L);
            r[k++] = v; r[k++] = nxt(v, +1); r[k++] = nxt(v, -1);
        }
        return r;
    }
    static constexpr auto in = make();
    template <typename F>
    static constexpr auto mk(F f)
    {
        std::array<T, N> r{};
        for (std::size_t k = 0; k < N; ++k) r[k] = f(in[k]);
        return r;
    }
    static constexpr auto t_exp   = mk([](T x) { return etl::exp(x); });
    static constexpr auto t_sinh  = mk([](T x) { return etl::sinh(x); });
    static constexpr auto t_cosh  = mk([](T x) { return etl::cosh(x); });
    static constexpr auto t_tanh  = mk([](T x) { return etl::tanh(x); });
    static constexpr auto t_log   = mk([](T x) { return etl::log(x); });
    static constexpr auto t_log2  = mk([](T x) { return etl::log2(x); });
    static constexpr auto t_log10 = mk([](T x) { return etl::log10(x); });
    static constexpr auto t_log1p = mk([](T x) { return etl::log1p(x); });
};

template <typename T>
static auto approx_ct_dense(std::string const& f, bits_t<T> xb, bool& found) -> std::string
{
    long k = -1;
    for (std::size_t i = 0; i < CE<T>::N; ++i)
        if (to_bits(CE<T>::in[i]) == xb) k = static_cast<long>(i);
    found = k >= 0;
    if (!found) return "";
    T x = from_bits<T>(xb);
    auto const i = static_cast<std::size_t>(k);
#define CEX(NAME) if (f == #NAME) return judge<T>(CE<T>::t_##NAME[i], std::NAME(x), tol_ct(#NAME)) + "\tok";
    CEX(exp) CEX(sinh) CEX(cosh) CEX(tanh) CEX(log) CEX(log2) CEX(log10) CEX(log1p)
#undef CEX
    found = false;
    return "";
}

// ---------------------------------------------------------------------------------- long double at run time (observed only)
// `al t=64 f=<name> x=<binary64 bits> [y=]`: etl::f((long double)x) against std::f((long double)x), distance in ulps of the
// 64-bit significand of the x87 format.  The long double overloads of exp, log, log2, log10, sin, cos, tan, asin, acos, atan,
// tanh, asinh, acosh, pow have no builtin branch: they run gcem at run time.
static auto judge_l(long double e, long double s, Tol t) -> std::string
{
    auto show = [](long double v) { char b[64]; std::snprintf(b, sizeof b, "%.21Lg", v); return std::string(b); };
    if (g_measure) t = Tol{0, 0, 0};
    bool en = e != e, sn = s != s;
    if (sn || en) return (sn && en) ? "ok" : "special:etl=" + show(e) + ":libm=" + show(s);
    if (std::isinf(s) || std::isinf(e)) return e == s ? "ok" : "special:etl=" + show(e) + ":libm=" + show(s);
    if (e == 0 && s == 0 && std::signbit(e) != std::signbit(s)) return "zero-sign:etl=" + show(e) + ":libm=" + show(s);
    if (e == s) return "ok";
    long double const ad = std::fabs(e - s);
    if (std::fabs(s) < std::numeric_limits<long double>::min()) {
        if (ad <= static_cast<long double>(t.abs64)) return "ok";
        return "abs:etl=" + show(e) + ":libm=" + show(s);
    }
    long double const ulp = std::ldexp(1.0L, std::ilogb(s) - 63);
    long double const d   = ad / ulp;
    if (d <= static_cast<long double>(t.ulps)) return "ok";
    char buf[64];
    std::snprintf(buf, sizeof buf, "ulp(%.0Lf)", d);
    return std::string(buf) + ":etl=" + show(e) + ":libm=" + show(s);
}
static auto approx_ld(Line const& l) -> std::string
{
    auto const& f = l.str("f");
    long double const x = static_cast<long double>(from_bits<double>(arg_bits<double>(l, "x")));
#define LX(NAME) if (f == #NAME) return judge_l(etl::NAME(x), std::NAME(x), tol_ld(#NAME)) + "\tok";
    UNARY_APPROX(LX)
#undef LX
    if (!l.has("y")) return "bad-op";
    long double const y = static_cast<long double>(from_bits<double>(arg_bits<double>(l, "y")));
    if (f == "pow") return judge_l(etl::pow(x, y), std::pow(x, y), tol_ld("pow")) + "\tok";
    if (f == "atan2") return judge_l(etl::atan2(x, y), std::atan2(x, y), tol_ld("atan2")) + "\tok";
    if (f == "hypot") return judge_l(etl::hypot(x, y), std::hypot(x, y), tol_ld("hypot")) + "\tok";
    return "bad-op";
}

template <typename T>
static auto approx_ct(Line const& l) -> std::string
{
    auto const& f = l.str("f");
    auto xb       = arg_bits<T>(l, "x");
    if (l.has("y")) {
        auto yb = arg_bits<T>(l, "y");
        T x = from_bits<T>(xb), y = from_bits<T>(yb);
        long k = -1;
        if (f == "pow" && (k = CA<T>::find2(CA<T>::in_pow, xb, yb)) >= 0)
            return judge<T>(CA<T>::t2_pow[static_cast<std::size_t>(k)], std::pow(x, y), tol_ct("pow")) + "\tok";
        if (f == "atan2" && (k = CA<T>::find2(CA<T>::in_atan2, xb, yb)) >= 0)
            return judge<T>(CA<T>::t2_atan2[static_cast<std::size_t>(k)], std::atan2(x, y), tol_ct("atan2")) + "\tok";
        if (f == "hypot" && (k = CA<T>::find2(CA<T>::in_hypot, xb, yb)) >= 0)
            return judge<T>(CA<T>::t2_hypot[static_cast<std::size_t>(k)], std::hypot(x, y), tol_ct("hypot")) + "\tok";
        return "bad-op";
    }
    long k = -1;
    for (std::size_t i = 0; i < CA<T>::N; ++i)
        if (to_bits(CA<T>::in[i]) == xb) k = static_cast<long>(i);
    if (k < 0) {
        bool found = false;
        auto r     = approx_ct_dense<T>(f, xb, found);
        return found ? r : "bad-op";
    }
    T x = from_bits<T>(xb);
#define X(NAME)                                                                                                        \
    if (f == #NAME) {                                                                                                  \
        if (!CA<T>::cexpr(#NAME, x)) return "*\tok";                                                            \
        return judge<T>(CA<T>::t_##NAME[static_cast<std::size_t>(k)], std::NAME(x), tol_ct(#NAME)) + "\tok";           \
    }
    UNARY_APPROX(X)
#undef X
    return "bad-op";
}

// ---------------------------------------------------------------------------------- lerp / midpoint / fma
template <typename T>
static auto special3(Line const& l) -> std::string
{
    auto const& f = l.str("f");
    T x = from_bits<T>(arg_bits<T>(l, "x"));
    T y = from_bits<T>(arg_bits<T>(l, "y"));
    auto cmp = [](T e, T s) -> std::string {
        if ((e != e && s != s) || to_bits(e) == to_bits(s)) return "ok\tok";
        return "etl=" + fb(e) + ":std=" + fb(s) + "\tok";
    };
    if (f == "midpoint") return cmp(etl::midpoint(x, y), std::midpoint(x, y));
    if (!l.has("z")) return "bad-op";
    T z = from_bits<T>(arg_bits<T>(l, "z"));
    if (f == "lerp") return cmp(etl::lerp(x, y, z), std::lerp(x, y, z));
    if (f == "fma") return cmp(etl::fma(x, y, z), std::fma(x, y, z));
    return "bad-op";
}

// the same three functions in constant evaluation: rows of a constexpr table (`cs ... k=<row>`), bit-identical
template <typename T> struct CS {
    struct P3 { T x, y, z; };
    static constexpr P3 in[] = {{T(1), T(2), T(0.5)}, {T(0.1), T(0.25), T(0.75)}, {T(-3), T(7.25), T(1)}, {T(-3), T(7.25), T(0)},
        {T(2), T(2), T(1e30)}, {T(1e30), T(-1e-30), T(0.5)}, {T(1e-30), T(3), T(-2.5)}, {T(0.1), T(10), T(-1)},
        {T(1.5), T(0.999), T(-1.4985)}, {T(0), T(-0.0), T(0)}, {std::numeric_limits<T>::max(), T(0.5), T(1)},
        {std::numeric_limits<T>::denorm_min(), T(0.5), T(0)}, {T(1) + std::numeric_limits<T>::epsilon(), T(1) - std::numeric_limits<T>::epsilon(), T(-1)}};
    static constexpr std::size_t N = sizeof(in) / sizeof(in[0]);
    template <typename F>
    static constexpr auto mk(F f)
    {
        std::array<T, N> r{};
        for (std::size_t k = 0; k < N; ++k) r[k] = f(in[k].x, in[k].y, in[k].z);
        return r;
    }
    static constexpr auto t_fma      = mk([](T x, T y, T z) { return etl::fma(x, y, z); });
    static constexpr auto t_lerp     = mk([](T x, T y, T z) { return etl::lerp(x, y, z); });
    static constexpr auto t_midpoint = mk([](T x, T y, T) { return etl::midpoint(x, y); });
};
template <typename T>
static auto special3_ct(Line const& l) -> std::string
{
    auto const& f = l.str("f");
    long long k   = l.i("k");
    if (k < 0 || static_cast<std::size_t>(k) >= CS<T>::N) return "bad-op";
    auto const i = static_cast<std::size_t>(k);
    auto const p = CS<T>::in[i];
    auto cmp = [](T e, T s) -> std::string {
        if ((e != e && s != s) || to_bits(e) == to_bits(s)) return "ok\tok";
        return "etl=" + fb(e) + ":std=" + fb(s) + "\tok";
    };
    if (f == "midpoint") return cmp(CS<T>::t_midpoint[i], std::midpoint(p.x, p.y));
    if (f == "lerp") return cmp(CS<T>::t_lerp[i], std::lerp(p.x, p.y, p.z));
    if (f == "fma") return cmp(CS<T>::t_fma[i], std::fma(p.x, p.y, p.z));
    return "bad-op";
}

// ---------------------------------------------------------------------------------- complex
template <typename T>
static auto cjudge(etl::complex<T> e, std::complex<T> s, Tol t) -> std::string
{
    // error of each component measured against the modulus of the reference result
    T const m = std::max(std::fabs(s.real()), std::fabs(s.imag()));
    auto comp = [&](T a, T b) -> bool {
        if (b != b || a != a) return (a != a) == (b != b);
        if (std::isinf(b) || std::isinf(a)) return a == b;
        if (ulp_dist(a, b) <= t.ulps) return true;
        double ad  = std::fabs(static_cast<double>(a) - static_cast<double>(b));
        double eps = sizeof(T) == 4 ? 1.1920929e-7 : 2.220446049250313e-16;
        if (ad <= t.ulps * eps * static_cast<double>(m)) return true;
        // absolute bound: only where the modulus of the reference result is zero or subnormal
        return m < std::numeric_limits<T>::min() && ad <= (sizeof(T) == 4 ? t.abs32 : t.abs64);
    };
    if (comp(e.real(), s.real()) && comp(e.imag(), s.imag())) return "ok";
    return "cplx:etl=(" + fb(e.real()) + "," + fb(e.imag()) + "):std=(" + fb(s.real()) + "," + fb(s.imag()) + ")";
}

template <typename T>
static auto complex_op(Line const& l) -> std::string
{
    auto const& f = l.str("f");
    T re = from_bits<T>(arg_bits<T>(l, "re"));
    T im = from_bits<T>(arg_bits<T>(l, "im"));
    etl::complex<T> ez{re, im};
    std::complex<T> sz{re, im};
    Tol t = tol_rt(("c:" + f).c_str());
    auto ok = [](std::string s) { return s + "\tok"; };
    if (f == "abs") return ok(judge<T>(etl::abs(ez), std::abs(sz), t));
    if (f == "arg") return ok(judge<T>(etl::arg(ez), std::arg(sz), t));
    if (f == "norm") return ok(judge<T>(etl::norm(ez), std::norm(sz), t));
    if (f == "conj") return ok(cjudge<T>(etl::conj(ez), std::conj(sz), Tol{0, 0, 0}));
    if (f == "polar") return ok(cjudge<T>(etl::polar(re, im), std::polar(re, im), t));
#define CX(NAME)                                                                                                       \
    if (f == #NAME) return ok(cjudge<T>(etl::NAME(ez), std::NAME(sz), t));
    CX(sin) CX(cos) CX(tan) CX(sinh) CX(cosh) CX(tanh) CX(log) CX(log10)
#undef CX
    if (l.has("re2")) {
        T re2 = from_bits<T>(arg_bits<T>(l, "re2"));
        T im2 = from_bits<T>(arg_bits<T>(l, "im2"));
        etl::complex<T> ew{re2, im2};
        std::complex<T> sw{re2, im2};
        if (f == "mul") return ok(cjudge<T>(ez * ew, sz * sw, t));
        if (f == "div") return ok(cjudge<T>(ez / ew, sz / sw, t));
        if (f == "add") return ok(cjudge<T>(ez + ew, sz + sw, t));
        if (f == "sub") return ok(cjudge<T>(ez - ew, sz - sw, t));
    }
    return "bad-op";
}

// ---------------------------------------------------------------------------------- dispatch
template <typename T>
static auto step_t(Line const& l) -> std::string
{
    bool known = false;
    if (l.op == "u") {
        auto r = unary_rt<T>(l.str("f"), from_bits<T>(arg_bits<T>(l, "x")), known);
        return known ? r : "bad-op";
    }
    if (l.op == "cu") return unary_ct<T>(l.str("f"), arg_bits<T>(l, "x"));
    if (l.op == "uv") {
        std::string e, s;
        bool first_f = true;
        auto const& xs = l.list("xs");
#define X(NAME)                                                                                                        \
    {                                                                                                                  \
        if (!first_f) { e += ";"; s += ";"; }                                                                          \
        first_f = false;                                                                                               \
        bool first = true;                                                                                             \
        for (auto v : xs) {                                                                                            \
            T x = from_bits<T>(static_cast<bits_t<T>>(static_cast<unsigned long long>(v)));                            \
            if (!first) { e += ","; s += ","; }                                                                        \
            first = false;                                                                                             \
            e += fr(etl::NAME(x), sign_op(#NAME));                                                                     \
            s += fr(std::NAME(x), sign_op(#NAME));                                                                     \
        }                                                                                                              \
    }
        UNARY_EXACT(X)
#undef X
        return e + "\t" + s;
    }
    if (l.op == "b") {
        auto r = binary_rt<T>(l.str("f"), from_bits<T>(arg_bits<T>(l, "x")), from_bits<T>(arg_bits<T>(l, "y")), known);
        return known ? r : "bad-op";
    }
    if (l.op == "cb") return binary_ct<T>(l.str("f"), arg_bits<T>(l, "x"), arg_bits<T>(l, "y"));
    if (l.op == "bv") {
        auto const& xs = l.list("xs");
        auto const& ys = l.list("ys");
        if (xs.size() != ys.size()) return "bad-op";
        std::string e, s;
        for (std::size_t k = 0; k < xs.size(); ++k) {
            T x = from_bits<T>(static_cast<bits_t<T>>(static_cast<unsigned long long>(xs[k])));
            T y = from_bits<T>(static_cast<bits_t<T>>(static_cast<unsigned long long>(ys[k])));
            auto r = binary_rt<T>(l.str("f"), x, y, known);
            if (!known) return "bad-op";
            auto tab = r.find('\t');
            if (k) { e += ","; s += ","; }
            e += r.substr(0, tab);
            s += r.substr(tab + 1);
        }
        return e + "\t" + s;
    }
    if (l.op == "s") return special3<T>(l);
    if (l.op == "a") {
        auto r = approx_rt<T>(l, known);
        return known ? r : "bad-op";
    }
    if (l.op == "ca") return approx_ct<T>(l);
    if (l.op == "cs") return special3_ct<T>(l);
    if (l.op == "al") return sizeof(T) == 8 ? approx_ld(l) : std::string("bad-op");
    if (l.op == "c") return complex_op<T>(l);
    return "bad-op";
}

static std::string step(Line const& l)
{
    std::string r;
    long long t = l.i("t", 32);
    if (t == 32) r = step_t<float>(l);
    else if (t == 64) r = step_t<double>(l);
    else r = "bad-op";
    if (r == "bad-op") return "bad-op\tbad-op";
    return r;
}

int main(int argc, char** argv) { return proto::run(argc, argv, step); }
