// C16 harness: etl cmath / complex / midpoint vs glibc libm (and libstdc++ <complex>, <numeric>).
//
// Bit patterns travel as decimal integers (binary64 patterns >= 2^63 as the negative two's-complement
// value); a NaN result is printed as `nan` (payload and sign of a NaN result are not compared).
//
//   u   t=32|64 f=<unary exact> x=<bits>            run-time path   -> result bits | integer | 0/1
//   cu  t=..    f=..            x=<bits>            the same through a constexpr table (constant evaluation)
//   uv  t=..    xs=[bits,...]                       every unary exact function on every x (run time)
//   b   t=..    f=<binary exact> x= y=              run-time path
//   cb  t=..    f=..            x= y=               constexpr table
//   bv  t=..    f=..            xs=[..] ys=[..]     pairwise, run time
//   s   t=..    f=lerp|midpoint|fma x= y= [z=]      `ok` when bit-identical to libstdc++/glibc, else the values
//   a   t=..    f=<approximating> x= [y=]           `ok` when within the tolerance of libm, else the values
//   ca  t=..    f=..            x= [y=]             the same through a constexpr table
//   c   t=..    f=<complex fn>  re= im= [re2= im2=] `ok` when within tolerance of std::complex
//
// Output: `<etl result>\t<libm result>`; for a/ca/c: `ok\tok` or `ulp(<n>):etl=..:libm=..\tok`.
#include "proto.hpp"

#include <etl/cmath.hpp>
#include <etl/complex.hpp>
#include <etl/numeric.hpp>

#include <array>
#include <cmath>
#include <complex>
#include <cstdint>
#include <cstring>
#include <numeric>
#include <string>

using proto::Line;

template <typename T> struct bits_of;
template <> struct bits_of<float> { using type = std::uint32_t; };
template <> struct bits_of<double> { using type = std::uint64_t; };
template <typename T> using bits_t = typename bits_of<T>::type;

template <typename T>
static constexpr auto from_bits(bits_t<T> b) -> T { return __builtin_bit_cast(T, b); }
template <typename T>
static constexpr auto to_bits(T x) -> bits_t<T> { return __builtin_bit_cast(bits_t<T>, x); }

template <typename T>
static auto fb(T r) -> std::string
{
    if (r != r) return "nan";
    return std::to_string(static_cast<unsigned long long>(to_bits(r)));
}
template <typename T>
static auto fbu(bits_t<T> b) -> std::string { return fb(from_bits<T>(b)); }
static auto fi(long long v) -> std::string { return std::to_string(v); }

template <typename T>
static auto arg_bits(Line const& l, char const* k) -> bits_t<T>
{
    return static_cast<bits_t<T>>(static_cast<unsigned long long>(l.i(k)));
}

// ---------------------------------------------------------------------------------- constexpr inputs
static constexpr std::uint32_t ct32_pos[] = {
#define CT32(x) x##u,
#include "c16_ctab.inc"
#undef CT32
};
static constexpr std::uint32_t cb32_pos[] = {
#define CB32(x) x##u,
#include "c16_ctab.inc"
#undef CB32
};
static constexpr std::uint64_t ct64_pos[] = {
#define CT64(x) x##ull,
#include "c16_ctab.inc"
#undef CT64
};
static constexpr std::uint64_t cb64_pos[] = {
#define CB64(x) x##ull,
#include "c16_ctab.inc"
#undef CB64
};

template <typename U, std::size_t N, std::size_t M>
static constexpr auto both_signs(U const (&a)[N], U const (&b)[M], bool with_b)
{
    std::array<U, 2 * (N + M)> r{};
    std::size_t k = 0;
    U const sign  = U(1) << (sizeof(U) * 8 - 1);
    for (auto x : a) { r[k++] = x; r[k++] = x | sign; }
    if (with_b) {
        for (auto x : b) { r[k++] = x; r[k++] = x | sign; }
    }
    return r;
}
template <typename T> struct ctab;
template <> struct ctab<float> {
    static constexpr std::size_t n_small = 2 * (sizeof(ct32_pos) / sizeof(ct32_pos[0]));
    static constexpr std::size_t n_all   = n_small + 2 * (sizeof(cb32_pos) / sizeof(cb32_pos[0]));
    static constexpr auto in             = both_signs(ct32_pos, cb32_pos, true);
};
template <> struct ctab<double> {
    static constexpr std::size_t n_small = 2 * (sizeof(ct64_pos) / sizeof(ct64_pos[0]));
    static constexpr std::size_t n_all   = n_small + 2 * (sizeof(cb64_pos) / sizeof(cb64_pos[0]));
    static constexpr auto in             = both_signs(ct64_pos, cb64_pos, true);
};

template <typename T>
static auto ct_index(bits_t<T> b, std::size_t n) -> long
{
    for (std::size_t k = 0; k < n; ++k)
        if (ctab<T>::in[k] == b) return static_cast<long>(k);
    return -1;
}

// result of a constant-evaluated call: a bit pattern, an integer, or a bool
struct CV { long long v; int kind; }; // kind 0 bits, 1 integer, 2 bool
template <typename T, typename R>
static constexpr auto cv(R r) -> CV
{
    if constexpr (std::is_same_v<R, bool>) return {r ? 1 : 0, 2};
    else if constexpr (std::is_integral_v<R>) return {static_cast<long long>(r), 1};
    else return {static_cast<long long>(to_bits<T>(static_cast<T>(r))), 0};
}
template <typename T>
static auto fcv(CV c) -> std::string
{
    if (c.kind == 0) return fbu<T>(static_cast<bits_t<T>>(static_cast<unsigned long long>(c.v)));
    return fi(c.v);
}

// unary table over the first N inputs
template <typename T, std::size_t N, typename F, typename P>
static constexpr auto make_utab(F f, P ok)
{
    std::array<CV, N> r{};
    for (std::size_t k = 0; k < N; ++k) {
        auto const x = from_bits<T>(ctab<T>::in[k]);
        r[k]         = ok(x) ? cv<T>(f(x)) : CV{0, 3};
    }
    return r;
}
// binary table over SMALL x SMALL (filter: pairs for which the call is a constant expression)
template <typename T, std::size_t N, typename F, typename P>
static constexpr auto make_btab(F f, P ok)
{
    std::array<CV, N * N> r{};
    for (std::size_t i = 0; i < N; ++i)
        for (std::size_t j = 0; j < N; ++j) {
            auto const x = from_bits<T>(ctab<T>::in[i]);
            auto const y = from_bits<T>(ctab<T>::in[j]);
            r[i * N + j] = ok(x, y) ? cv<T>(f(x, y)) : CV{0, 3};
        }
    return r;
}

// ---------------------------------------------------------------------------------- exact functions
#define UNARY_EXACT(X)                                                                                                  \
    X(floor) X(ceil) X(trunc) X(round) X(rint) X(lrint) X(llrint) X(fabs) X(abs) X(signbit) X(isnan) X(isinf)          \
    X(isfinite)
#define BINARY_EXACT(X) X(copysign) X(fmin) X(fmax) X(fdim) X(fmod) X(remainder) X(nextafter)

template <typename R> static auto fr(R r) -> std::string
{
    if constexpr (std::is_same_v<R, bool>) return r ? "1" : "0";
    else if constexpr (std::is_integral_v<R>) return fi(static_cast<long long>(r));
    else return fb(r);
}

template <typename T>
static auto unary_rt(std::string const& f, T x, bool& known) -> std::string
{
    known = true;
#define X(NAME)                                                                                                        \
    if (f == #NAME) return fr(etl::NAME(x)) + "\t" + fr(std::NAME(x));
    UNARY_EXACT(X)
#undef X
    known = false;
    return "";
}

template <typename T>
static auto binary_rt(std::string const& f, T x, T y, bool& known) -> std::string
{
    known = true;
#define X(NAME)                                                                                                        \
    if (f == #NAME) return fr(etl::NAME(x, y)) + "\t" + fr(std::NAME(x, y));
    BINARY_EXACT(X)
#undef X
    known = false;
    return "";
}

// constexpr tables.  Functions that return an integer type get the SMALL inputs only.
template <typename T> static constexpr bool small_only(char const* n)
{
    std::string_view s{n};
    return s == "lrint" || s == "llrint";
}
template <typename T> struct CT {
    static constexpr std::size_t NS = ctab<T>::n_small;
    static constexpr std::size_t NA = ctab<T>::n_all;
    static constexpr bool fin(T x) { return x == x && x <= std::numeric_limits<T>::max() && x >= -std::numeric_limits<T>::max(); }
    // a conversion of inf/NaN to an integer type is not a constant expression (lrint/llrint)
    static constexpr bool cast_ok(char const* n, T x)
    {
        std::string_view s{n};
        if (s == "lrint" || s == "llrint") return fin(x);
        return true;
    }
#define X(NAME)                                                                                                        \
    static constexpr auto u_##NAME = make_utab<T, (small_only<T>(#NAME) ? NS : NA)>(                                   \
        [](T x) { return etl::NAME(x); }, [](T x) { return cast_ok(#NAME, x); });
    UNARY_EXACT(X)
#undef X
    // x*y, x/y, x-y that overflow or are invalid are not constant expressions: keep finite, non-zero divisors
    static constexpr bool any(T, T) { return true; }
    static constexpr bool sub_ok(T x, T y)
    {
        if (!(x == x) || !(y == y)) return true;
        if (!fin(x) && !fin(y)) return (x > 0) != (y > 0); // inf - inf is not a constant expression
        return true;
    }
    static constexpr bool div_ok(T x, T y)
    {
        // gcem::fmod evaluates x / y only for finite x and y
        if (!fin(x) || !fin(y)) return true;
        if (y == 0) return false;
        T const big = std::numeric_limits<T>::max();
        T const ax = x < 0 ? -x : x, ay = y < 0 ? -y : y;
        if (ay < 1 && ax > big * ay) return false;                                  // quotient overflows
        if (ax / ay >= T(9.2e18)) return false;                                     // trunc casts through long long
        return true;
    }
    static constexpr auto b_copysign  = make_btab<T, NS>([](T x, T y) { return etl::copysign(x, y); }, any);
    static constexpr auto b_fmin      = make_btab<T, NS>([](T x, T y) { return etl::fmin(x, y); }, any);
    static constexpr auto b_fmax      = make_btab<T, NS>([](T x, T y) { return etl::fmax(x, y); }, any);
    static constexpr auto b_fdim      = make_btab<T, NS>([](T x, T y) { return etl::fdim(x, y); }, any);
    static constexpr auto b_fmod      = make_btab<T, NS>([](T x, T y) { return etl::fmod(x, y); }, div_ok);
    static constexpr auto b_remainder = make_btab<T, NS>([](T x, T y) { return etl::remainder(x, y); }, div_ok);
    static constexpr auto b_nextafter = make_btab<T, NS>([](T x, T y) { return etl::nextafter(x, y); }, any);
};

template <typename T>
static auto unary_ct(std::string const& f, bits_t<T> xb) -> std::string
{
#define X(NAME)                                                                                                        \
    if (f == #NAME) {                                                                                                  \
        long k = ct_index<T>(xb, CT<T>::u_##NAME.size());                                                              \
        if (k < 0) return "bad-op";                                                                                    \
        CV c = CT<T>::u_##NAME[static_cast<std::size_t>(k)];                                                           \
        if (c.kind == 3) return "*\t" + fr(std::NAME(from_bits<T>(xb)));                                        \
        return fcv<T>(c) + "\t" + fr(std::NAME(from_bits<T>(xb)));                                                     \
    }
    UNARY_EXACT(X)
#undef X
    return "bad-op";
}
template <typename T>
static auto binary_ct(std::string const& f, bits_t<T> xb, bits_t<T> yb) -> std::string
{
    long i = ct_index<T>(xb, CT<T>::NS), j = ct_index<T>(yb, CT<T>::NS);
    if (i < 0 || j < 0) return "bad-op";
    auto const idx = static_cast<std::size_t>(i) * CT<T>::NS + static_cast<std::size_t>(j);
#define X(NAME)                                                                                                        \
    if (f == #NAME) {                                                                                                  \
        CV c = CT<T>::b_##NAME[idx];                                                                                   \
        auto s = fr(std::NAME(from_bits<T>(xb), from_bits<T>(yb)));                                                    \
        if (c.kind == 3) return "*\t" + s;                                                                      \
        return fcv<T>(c) + "\t" + s;                                                                                   \
    }
    BINARY_EXACT(X)
#undef X
    return "bad-op";
}

// ---------------------------------------------------------------------------------- approximating functions
// tolerance: distance in units in the last place of the libm result, or an absolute error for results near 0
template <typename T>
static auto ulp_dist(T a, T b) -> double
{
    using U = bits_t<T>;
    using S = std::make_signed_t<U>;
    U const sign = U(1) << (sizeof(U) * 8 - 1);
    auto ord = [&](T x) -> long double {
        U u = to_bits(x);
        return (u & sign) ? -static_cast<long double>(static_cast<S>(u & ~sign)) : static_cast<long double>(u);
    };
    long double d = ord(a) - ord(b);
    return static_cast<double>(d < 0 ? -d : d);
}
struct Tol { double ulps; double abs32; double abs64; };
template <typename T>
static auto judge(T e, T s, Tol t) -> std::string
{
    bool en = e != e, sn = s != s;
    if (sn || en) {
        if (sn && en) return "ok";
        return "special:etl=" + fb(e) + ":libm=" + fb(s);
    }
    if (std::isinf(s) || std::isinf(e)) {
        if (e == s) return "ok";
        return "special:etl=" + fb(e) + ":libm=" + fb(s);
    }
    double d = ulp_dist(e, s);
    if (d <= t.ulps) return "ok";
    double ad = std::fabs(static_cast<double>(e) - static_cast<double>(s));
    if (ad <= (sizeof(T) == 4 ? t.abs32 : t.abs64)) return "ok";
    char buf[64];
    std::snprintf(buf, sizeof buf, "ulp(%.0f)", d);
    return std::string(buf) + ":etl=" + fb(e) + ":libm=" + fb(s);
}

// Tolerances (measured on the clean tree, see checks/props/c16.py TOLERANCES): run-time paths that call the
// libm builtin are bit-identical; the gcem series (sqrt, atan2, erf, gamma, log1p, inverse hyperbolics, and
// every constant-evaluated call) are looser.
#include "c16_tol.inc"

#define UNARY_APPROX(X)                                                                                                 \
    X(sqrt) X(exp) X(log) X(log2) X(log10) X(log1p) X(sin) X(cos) X(tan) X(asin) X(acos) X(atan) X(sinh) X(cosh)        \
    X(tanh) X(asinh) X(acosh) X(atanh) X(erf) X(tgamma) X(lgamma)
#define BINARY_APPROX(X) X(pow) X(atan2) X(hypot)

template <typename T>
static auto approx_rt(Line const& l, bool& known) -> std::string
{
    auto const& f = l.str("f");
    T x = from_bits<T>(arg_bits<T>(l, "x"));
    known = true;
#define X(NAME)                                                                                                        \
    if (f == #NAME) return judge<T>(etl::NAME(x), std::NAME(x), tol_rt(#NAME)) + "\tok";
    UNARY_APPROX(X)
#undef X
    if (!l.has("y")) { known = false; return ""; }
    T y = from_bits<T>(arg_bits<T>(l, "y"));
#define X(NAME)                                                                                                        \
    if (f == #NAME) return judge<T>(etl::NAME(x, y), std::NAME(x, y), tol_rt(#NAME)) + "\tok";
    BINARY_APPROX(X)
#undef X
    if (f == "beta") return judge<T>(static_cast<T>(etl::beta(x, y)), static_cast<T>(std::beta(x, y)), tol_rt("beta")) + "\tok";
    if (f == "hypot3" && l.has("z")) {
        T z = from_bits<T>(arg_bits<T>(l, "z"));
        return judge<T>(etl::hypot(x, y, z), std::hypot(x, y, z), tol_rt("hypot")) + "\tok";
    }
    known = false;
    return "";
}

// constexpr tables of approximating functions: a short list of ordinary arguments
template <typename T> struct CA {
    static constexpr T in[] = {T(0), T(0.1), T(0.25), T(0.5), T(0.75), T(1), T(1.5), T(2), T(3), T(10),
        T(-0.1), T(-0.5), T(-1), T(-2), T(0.001), T(7.25), T(100)};
    static constexpr std::size_t N = sizeof(in) / sizeof(in[0]);
    template <typename F, typename P>
    static constexpr auto mk(F f, P dom)
    {
        std::array<T, N> r{};
        for (std::size_t k = 0; k < N; ++k) r[k] = dom(in[k]) ? f(in[k]) : T(0);
        return r;
    }
    static constexpr bool all(T) { return true; }
    static constexpr bool pos(T x) { return x > 0; }
    static constexpr bool nonneg(T x) { return x >= 0; }
    static constexpr bool unit(T x) { return x >= -1 && x <= 1; }
    static constexpr bool unit_open(T x) { return x > -1 && x < 1; }
    static constexpr bool ge1(T x) { return x >= 1; }
    static constexpr bool gtm1(T x) { return x > -1; }
    static constexpr bool gam(T x) { return x > 0 && x < 30; }
    static constexpr bool expd(T x) { return x < 50; }
    static constexpr auto t_sqrt   = mk([](T x) { return etl::sqrt(x); }, nonneg);
    static constexpr auto t_exp    = mk([](T x) { return etl::exp(x); }, expd);
    static constexpr auto t_log    = mk([](T x) { return etl::log(x); }, pos);
    static constexpr auto t_log2   = mk([](T x) { return etl::log2(x); }, pos);
    static constexpr auto t_log10  = mk([](T x) { return etl::log10(x); }, pos);
    static constexpr auto t_log1p  = mk([](T x) { return etl::log1p(x); }, gtm1);
    static constexpr auto t_sin    = mk([](T x) { return etl::sin(x); }, all);
    static constexpr auto t_cos    = mk([](T x) { return etl::cos(x); }, all);
    static constexpr auto t_tan    = mk([](T x) { return etl::tan(x); }, all);
    static constexpr auto t_asin   = mk([](T x) { return etl::asin(x); }, unit);
    static constexpr auto t_acos   = mk([](T x) { return etl::acos(x); }, unit);
    static constexpr auto t_atan   = mk([](T x) { return etl::atan(x); }, all);
    static constexpr auto t_sinh   = mk([](T x) { return etl::sinh(x); }, expd);
    static constexpr auto t_cosh   = mk([](T x) { return etl::cosh(x); }, expd);
    static constexpr auto t_tanh   = mk([](T x) { return etl::tanh(x); }, all);
    static constexpr auto t_asinh  = mk([](T x) { return etl::asinh(x); }, all);
    static constexpr auto t_acosh  = mk([](T x) { return etl::acosh(x); }, ge1);
    static constexpr auto t_atanh  = mk([](T x) { return etl::atanh(x); }, unit_open);
    static constexpr bool erfd(T x) { return x > -6 && x < 6; }
    static constexpr auto t_erf    = mk([](T x) { return etl::erf(x); }, erfd);
    static constexpr auto t_tgamma = mk([](T x) { return etl::tgamma(x); }, gam);
    static constexpr auto t_lgamma = mk([](T x) { return etl::lgamma(x); }, gam);
    static constexpr bool dom(char const* n, T x)
    {
        std::string_view s{n};
        if (s == "sqrt") return nonneg(x);
        if (s == "exp" || s == "sinh" || s == "cosh") return expd(x);
        if (s == "log" || s == "log2" || s == "log10") return pos(x);
        if (s == "log1p") return gtm1(x);
        if (s == "asin" || s == "acos") return unit(x);
        if (s == "acosh") return ge1(x);
        if (s == "atanh") return unit_open(x);
        if (s == "tgamma" || s == "lgamma") return gam(x);
        if (s == "erf") return erfd(x);
        return true;
    }
};

template <typename T>
static auto approx_ct(Line const& l) -> std::string
{
    auto const& f = l.str("f");
    auto xb       = arg_bits<T>(l, "x");
    long k        = -1;
    for (std::size_t i = 0; i < CA<T>::N; ++i)
        if (to_bits(CA<T>::in[i]) == xb) k = static_cast<long>(i);
    if (k < 0) return "bad-op";
    T x = from_bits<T>(xb);
#define X(NAME)                                                                                                        \
    if (f == #NAME) {                                                                                                  \
        if (!CA<T>::dom(#NAME, x)) return "*\tok";                                                              \
        return judge<T>(CA<T>::t_##NAME[static_cast<std::size_t>(k)], std::NAME(x), tol_ct(#NAME)) + "\tok";           \
    }
    UNARY_APPROX(X)
#undef X
    return "bad-op";
}

// ---------------------------------------------------------------------------------- lerp / midpoint / fma
template <typename T>
static auto special3(Line const& l) -> std::string
{
    auto const& f = l.str("f");
    T x = from_bits<T>(arg_bits<T>(l, "x"));
    T y = from_bits<T>(arg_bits<T>(l, "y"));
    auto cmp = [](T e, T s) -> std::string {
        if ((e != e && s != s) || to_bits(e) == to_bits(s)) return "ok\tok";
        return "etl=" + fb(e) + ":std=" + fb(s) + "\tok";
    };
    if (f == "midpoint") return cmp(etl::midpoint(x, y), std::midpoint(x, y));
    if (!l.has("z")) return "bad-op";
    T z = from_bits<T>(arg_bits<T>(l, "z"));
    if (f == "lerp") return cmp(etl::lerp(x, y, z), std::lerp(x, y, z));
    if (f == "fma") return cmp(etl::fma(x, y, z), std::fma(x, y, z));
    return "bad-op";
}

// ---------------------------------------------------------------------------------- complex
template <typename T>
static auto cjudge(etl::complex<T> e, std::complex<T> s, Tol t) -> std::string
{
    // error of each component measured against the modulus of the reference result
    T const m = std::max(std::fabs(s.real()), std::fabs(s.imag()));
    auto comp = [&](T a, T b) -> bool {
        if (b != b || a != a) return (a != a) == (b != b);
        if (std::isinf(b) || std::isinf(a)) return a == b;
        if (ulp_dist(a, b) <= t.ulps) return true;
        double ad  = std::fabs(static_cast<double>(a) - static_cast<double>(b));
        double eps = sizeof(T) == 4 ? 1.1920929e-7 : 2.220446049250313e-16;
        if (ad <= t.ulps * eps * static_cast<double>(m)) return true;
        return ad <= (sizeof(T) == 4 ? t.abs32 : t.abs64);
    };
    if (comp(e.real(), s.real()) && comp(e.imag(), s.imag())) return "ok";
    return "cplx:etl=(" + fb(e.real()) + "," + fb(e.imag()) + "):std=(" + fb(s.real()) + "," + fb(s.imag()) + ")";
}

template <typename T>
static auto complex_op(Line const& l) -> std::string
{
    auto const& f = l.str("f");
    T re = from_bits<T>(arg_bits<T>(l, "re"));
    T im = from_bits<T>(arg_bits<T>(l, "im"));
    etl::complex<T> ez{re, im};
    std::complex<T> sz{re, im};
    Tol t = tol_rt(("c" + f).c_str());
    auto ok = [](std::string s) { return s + "\tok"; };
    if (f == "abs") return ok(judge<T>(etl::abs(ez), std::abs(sz), t));
    if (f == "arg") return ok(judge<T>(etl::arg(ez), std::arg(sz), t));
    if (f == "norm") return ok(judge<T>(etl::norm(ez), std::norm(sz), t));
    if (f == "conj") return ok(cjudge<T>(etl::conj(ez), std::conj(sz), Tol{0, 0, 0}));
    if (f == "polar") return ok(cjudge<T>(etl::polar(re, im), std::polar(re, im), t));
#define CX(NAME)                                                                                                       \
    if (f == #NAME) return ok(cjudge<T>(etl::NAME(ez), std::NAME(sz), t));
    CX(sin) CX(cos) CX(tan) CX(sinh) CX(cosh) CX(tanh) CX(log) CX(log10)
#undef CX
    if (l.has("re2")) {
        T re2 = from_bits<T>(arg_bits<T>(l, "re2"));
        T im2 = from_bits<T>(arg_bits<T>(l, "im2"));
        etl::complex<T> ew{re2, im2};
        std::complex<T> sw{re2, im2};
        if (f == "mul") return ok(cjudge<T>(ez * ew, sz * sw, t));
        if (f == "div") return ok(cjudge<T>(ez / ew, sz / sw, t));
        if (f == "add") return ok(cjudge<T>(ez + ew, sz + sw, t));
        if (f == "sub") return ok(cjudge<T>(ez - ew, sz - sw, t));
    }
    return "bad-op";
}

// ---------------------------------------------------------------------------------- dispatch
template <typename T>
static auto step_t(Line const& l) -> std::string
{
    bool known = false;
    if (l.op == "u") {
        auto r = unary_rt<T>(l.str("f"), from_bits<T>(arg_bits<T>(l, "x")), known);
        return known ? r : "bad-op";
    }
    if (l.op == "cu") return unary_ct<T>(l.str("f"), arg_bits<T>(l, "x"));
    if (l.op == "uv") {
        std::string e, s;
        bool first_f = true;
        auto const& xs = l.list("xs");
#define X(NAME)                                                                                                        \
    {                                                                                                                  \
        if (!first_f) { e += ";"; s += ";"; }                                                                          \
        first_f = false;                                                                                               \
        bool first = true;                                                                                             \
        for (auto v : xs) {                                                                                            \
            T x = from_bits<T>(static_cast<bits_t<T>>(static_cast<unsigned long long>(v)));                            \
            if (!first) { e += ","; s += ","; }                                                                        \
            first = false;                                                                                             \
            e += fr(etl::NAME(x));                                                                                     \
            s += fr(std::NAME(x));                                                                                     \
        }                                                                                                              \
    }
        UNARY_EXACT(X)
#undef X
        return e + "\t" + s;
    }
    if (l.op == "b") {
        auto r = binary_rt<T>(l.str("f"), from_bits<T>(arg_bits<T>(l, "x")), from_bits<T>(arg_bits<T>(l, "y")), known);
        return known ? r : "bad-op";
    }
    if (l.op == "cb") return binary_ct<T>(l.str("f"), arg_bits<T>(l, "x"), arg_bits<T>(l, "y"));
    if (l.op == "bv") {
        auto const& xs = l.list("xs");
        auto const& ys = l.list("ys");
        if (xs.size() != ys.size()) return "bad-op";
        std::string e, s;
        for (std::size_t k = 0; k < xs.size(); ++k) {
            T x = from_bits<T>(static_cast<bits_t<T>>(static_cast<unsigned long long>(xs[k])));
            T y = from_bits<T>(static_cast<bits_t<T>>(static_cast<unsigned long long>(ys[k])));
            auto r = binary_rt<T>(l.str("f"), x, y, known);
            if (!known) return "bad-op";
            auto tab = r.find('\t');
            if (k) { e += ","; s += ","; }
            e += r.substr(0, tab);
            s += r.substr(tab + 1);
        }
        return e + "\t" + s;
    }
    if (l.op == "s") return special3<T>(l);
    if (l.op == "a") {
        auto r = approx_rt<T>(l, known);
        return known ? r : "bad-op";
    }
    if (l.op == "ca") return approx_ct<T>(l);
    if (l.op == "c") return complex_op<T>(l);
    return "bad-op";
}

static std::string step(Line const& l)
{
    std::string r;
    long long t = l.i("t", 32);
    if (t == 32) r = step_t<float>(l);
    else if (t == 64) r = step_t<double>(l);
    else r = "bad-op";
    if (r == "bad-op") return "bad-op\tbad-op";
    return r;
}

int main(int argc, char** argv) { return proto::run(argc, argv, step); }
