// C13 harness: compile-time evaluation and run-time execution give the same answer.
//
// Per case line it prints   <ct>/<rt> <ct>/<rt> <ct>/<rt>  TAB  <ref>/<ref> <ref>/<ref> <ref>/<ref>
// where the three groups are the -O0 build, the -O2 build (shared objects built from the same sources, see
// c13_variant.cpp) and this translation unit (-O1 with ASan + UBSan); <ct> is the value the constant evaluator
// put into the generated table for exactly this case, <rt> the value computed now from volatile-laundered
// arguments, <ref> what libstdc++ / glibc compute at run time.
#include "c13_ops.hpp"

extern "C" int c13_eval_O0(char const* raw, char* out, unsigned long cap);
extern "C" int c13_eval_O2(char const* raw, char* out, unsigned long cap);

int main(int argc, char** argv)
{
    return proto::run(argc, argv, [](proto::Line const& l) -> std::string {
        auto const* o = c13::find_op(l);
        if (o == nullptr) return "bad-op\tbad-op";
        auto const raw = c13::canon(l);
        char b0[128];
        char b2[128];
        if (c13_eval_O0(raw.c_str(), b0, sizeof b0) != 0) return "bad-op\tbad-op";
        if (c13_eval_O2(raw.c_str(), b2, sizeof b2) != 0) return "bad-op\tbad-op";
        auto const mine = c13::eval(l);
        if (mine == "bad-op" or std::string(b0) == "bad-op" or std::string(b2) == "bad-op") return "bad-op\tbad-op";
        auto const r   = c13::fmt(o->kind, o->ref(l));
        auto const ref = r + "/" + r;
        return std::string(b0) + " " + b2 + " " + mine + "\t" + ref + " " + ref + " " + ref;
    });
}
