// C10 harness: integer <-> text conversion of tetl vs libstdc++/glibc on the same case lines.
//
//   to_chars     ty= v= base= len=            etl::to_chars            | std::to_chars
//   from_integer ty= v= base= len= term=0|1   strings::from_integer    | std::to_chars (+ NUL)
//   to_string    fn=i32|u32|i64|u64|ill|ull cap= v=   etl::to_string<cap> | std::to_string
//   from_chars   ty= s=[..] base=             etl::from_chars          | std::from_chars
//   to_integer   ty= s=[..] base= ws=0|1      strings::to_integer      | (skip blanks) std::from_chars
//                base=0 (auto-detection, an extension of to_integer that from_chars passes on): the reference is glibc's
//                strtoll / strtoull with base 0 on a NUL-terminated copy, restricted to to_integer's grammar (no '+', '-'
//                only for signed types, white space only with ws=1) and range-checked against the type (`ref_base0`)
//   to_integer_nc ty= s=[..] base= ws=0|1     the same with check_overflow = false; the reference prints `*` when
//                                             the value is not representable (outside the option's contract)
//   cstr         fn=strtol|strtoll|strtoul|strtoull|atoi|atol|atoll s=[..] base=   | glibc     (value,end)
//   cstr_erange  fn=strtol|strtoll|strtoul|strtoull s=[..] base=   `*` | glibc's errno == ERANGE: tetl is freestanding and
//                has no errno, so there is nothing to compare on the implementation side; the line validates the
//                `erange` flag of the Lean spec (which masks ato* and tells where std::sto* throw)
//   sto          fn=stoi|stol|stoll|stoul|stoull s=[..] base=                        | libstdc++
//   round_trip   ty= v= base=                 to_chars then from_chars | same with std
//   to_chars_all ty= v=                       bases 2..36: exact fit, one byte less, round trip
//
// ty: i8 u8 i16 u16 i32 u32 i64 u64 = signed char .. unsigned long; c8 = char, ill/ull = (unsigned) long long,
// c8u = char8_t, c16 = char16_t, c32 = char32_t, wc = wchar_t.  The character types are integral types that
// the standard functions do not accept: the reference runs on the standard integer type of the same width and
// signedness (`ref_t`).
// `v` of an unsigned 64-bit type is passed as its two's complement signed reading.
// Output buffers: first a buffer with 8 guard bytes on both sides (a clobbered guard prints `oob`
// and nothing else is run), then an exact-size heap block (ASan red zones on both sides).
// Input strings: exact-size heap blocks without terminator (with one for the C string functions).
#include "proto.hpp"

#include <etl/charconv.hpp>
#include <etl/cstdlib.hpp>
#include <etl/string.hpp>
#include <etl/string_view.hpp>
#include <etl/strings.hpp>

#include <cerrno>
#include <charconv>
#include <climits>
#include <limits>
#include <cstdlib>
#include <stdexcept>
#include <string>
#include <system_error>
#include <type_traits>

using proto::Line;

namespace {

constexpr unsigned char FILL  = 0xAA;
constexpr unsigned char GUARD = 0x5C;
constexpr std::size_t NGUARD  = 8;

auto out(std::string const& a, std::string const& b) -> std::string { return a + "\t" + b; }

template <typename T>
auto num(T v) -> std::string
{
    if constexpr (std::is_signed_v<T>) {
        return std::to_string(static_cast<long long>(v));
    } else {
        return std::to_string(static_cast<unsigned long long>(v));
    }
}

auto bytes(char const* p, std::size_t n) -> std::string
{
    std::string r = "[";
    for (std::size_t k = 0; k < n; ++k) {
        if (k) r += ",";
        r += std::to_string(static_cast<unsigned>(static_cast<unsigned char>(p[k])));
    }
    return r + "]";
}

// f(first, len) -> formatted result (it may read the buffer after the call)
template <typename F>
auto with_buffer(std::size_t len, F f) -> std::string
{
    std::string r1;
    {
        proto::heap_buf<char> g(len + 2 * NGUARD);
        std::memset(g.p, GUARD, len + 2 * NGUARD);
        std::memset(g.p + NGUARD, FILL, len);
        r1 = f(g.p + NGUARD, len);
        for (std::size_t k = 0; k < NGUARD; ++k) {
            if (static_cast<unsigned char>(g.p[k]) != GUARD) return "oob";
            if (static_cast<unsigned char>(g.p[NGUARD + len + k]) != GUARD) return "oob";
        }
    }
    proto::heap_buf<char> hb(len);
    std::memset(hb.p, FILL, len);
    auto r2 = f(hb.p, len);
    return r1 == r2 ? r1 : r1 + "!=" + r2;
}

// the standard integer type std::to_chars / std::from_chars are called with
template <typename T> struct ref_type { using type = T; };
template <> struct ref_type<char8_t> { using type = unsigned char; };
template <> struct ref_type<char16_t> { using type = unsigned short; };
template <> struct ref_type<char32_t> { using type = unsigned; };
template <> struct ref_type<wchar_t> { using type = int; };
template <typename T> using ref_t = typename ref_type<T>::type;
static_assert(sizeof(wchar_t) == sizeof(int) and std::is_signed_v<wchar_t>);

template <typename T>
auto value_of(Line const& l) -> T
{
    return static_cast<T>(static_cast<unsigned long long>(l.i("v")));
}

template <typename T>
auto op_to_chars(Line const& l) -> std::string
{
    auto const v    = value_of<T>(l);
    auto const base = static_cast<int>(l.i("base"));
    auto const len  = static_cast<std::size_t>(l.i("len"));
    auto e = with_buffer(len, [&](char* first, std::size_t n) {
        auto r = etl::to_chars(first, first + n, v, base);
        if (r.ec == etl::errc{}) return "ok(" + std::to_string(r.ptr - first) + "," + bytes(first, n) + ")";
        if (r.ec == etl::errc::value_too_large) return "too_large(" + std::to_string(r.ptr - first) + ")";
        return std::string("ec?");
    });
    auto s = with_buffer(len, [&](char* first, std::size_t n) {
        auto r = std::to_chars(first, first + n, static_cast<ref_t<T>>(v), base);
        if (r.ec == std::errc{}) return "ok(" + std::to_string(r.ptr - first) + "," + bytes(first, n) + ")";
        return "too_large(" + std::to_string(r.ptr - first) + ")";
    });
    return out(e, s);
}

template <typename T, bool Term>
auto op_from_integer_t(Line const& l) -> std::string
{
    auto const v    = value_of<T>(l);
    auto const base = static_cast<int>(l.i("base"));
    auto const len  = static_cast<std::size_t>(l.i("len"));
    auto e = with_buffer(len, [&](char* first, std::size_t n) {
        constexpr auto opt = etl::strings::from_integer_options{.terminate_with_null = Term};
        auto r             = etl::strings::from_integer<T, opt>(v, first, n, base);
        if (r.error == etl::strings::from_integer_error::none) {
            return "ok(" + std::to_string(r.end - first) + "," + bytes(first, n) + ")";
        }
        return std::string("overflow");
    });
    auto s = with_buffer(len, [&](char* first, std::size_t n) {
        if (Term and n == 0) return std::string("overflow");
        auto room = Term ? n - 1 : n;
        auto r    = std::to_chars(first, first + room, static_cast<ref_t<T>>(v), base);
        if (r.ec != std::errc{}) return std::string("overflow");
        if (Term) *r.ptr = '\0';
        return "ok(" + std::to_string(r.ptr - first) + "," + bytes(first, n) + ")";
    });
    if (s == "overflow") {
        // [first,last) is unspecified after a failed std::to_chars: only the verdict is compared
    }
    return out(e, s);
}

template <typename T>
auto op_from_integer(Line const& l) -> std::string
{
    return l.i("term") != 0 ? op_from_integer_t<T, true>(l) : op_from_integer_t<T, false>(l);
}

auto c_isspace(char c) -> bool { return c == ' ' or (c >= '\t' and c <= '\r'); }

// reference for base 0: glibc on a NUL-terminated copy (a NUL inside the view ends the number for to_integer as well:
// it is neither white space, sign nor digit).  cls: 0 = value, 1 = no conversion, 2 = not representable in T.
template <typename T>
struct ref0 {
    int cls{1};
    T value{};
    std::ptrdiff_t n{0};
};

template <typename T>
auto ref_base0(char const* data, std::size_t size, bool ws) -> ref0<T>
{
    using R = ref_t<T>;
    std::string z(data, size);
    char const* p = z.c_str();
    std::size_t k = 0;
    if (ws) {
        while (k < size and c_isspace(p[k])) ++k;
    }
    // what to_integer's grammar does not have: white space (unless skipped), '+', '-' for unsigned types
    if (k == size or c_isspace(p[k]) or p[k] == '+' or (p[k] == '-' and not std::is_signed_v<R>)) return {};
    char* end = nullptr;
    errno     = 0;
    if constexpr (std::is_signed_v<R>) {
        long long v = std::strtoll(p + k, &end, 0);
        if (end == p + k) return {};
        auto n = end - p;
        if (errno == ERANGE or v < static_cast<long long>(std::numeric_limits<R>::min())
            or v > static_cast<long long>(std::numeric_limits<R>::max())) {
            return {2, T{}, n};
        }
        return {0, static_cast<T>(v), n};
    } else {
        unsigned long long v = std::strtoull(p + k, &end, 0);
        if (end == p + k) return {};
        auto n = end - p;
        if (errno == ERANGE or v > static_cast<unsigned long long>(std::numeric_limits<R>::max())) return {2, T{}, n};
        return {0, static_cast<T>(v), n};
    }
}

template <typename T>
auto fmt_fc(std::string const& cls, T v, std::ptrdiff_t n) -> std::string
{
    return cls + "(" + num(v) + "," + std::to_string(n) + ")";
}

template <typename T>
auto op_from_chars(Line const& l) -> std::string
{
    proto::heap_buf<char> sb(l.list("s"));
    auto const base = static_cast<int>(l.i("base"));
    T v             = T(77);
    auto r          = etl::from_chars(sb.p, sb.p + sb.n, v, base);
    auto cls_e      = r.ec == etl::errc{} ? "ok" : r.ec == etl::errc::invalid_argument ? "invalid" : r.ec == etl::errc::result_out_of_range ? "range" : "ec?";
    if (base == 0) {
        auto q = ref_base0<T>(sb.p, sb.n, false);
        return out(fmt_fc<T>(cls_e, v, r.ptr - sb.p),
                   fmt_fc<T>(q.cls == 0 ? "ok" : q.cls == 1 ? "invalid" : "range", q.cls == 0 ? q.value : T(77), q.n));
    }
    auto w          = ref_t<T>(77);
    auto q          = std::from_chars(sb.p, sb.p + sb.n, w, base);
    auto cls_s      = q.ec == std::errc{} ? "ok" : q.ec == std::errc::invalid_argument ? "invalid" : "range";
    return out(fmt_fc<T>(cls_e, v, r.ptr - sb.p), fmt_fc<ref_t<T>>(cls_s, w, q.ptr - sb.p));
}

template <typename T, bool Ws, bool Check = true>
auto op_to_integer_t(Line const& l) -> std::string
{
    proto::heap_buf<char> sb(l.list("s"));
    auto const base    = static_cast<int>(l.i("base"));
    constexpr auto opt = etl::strings::to_integer_options{.skip_whitespace = Ws, .check_overflow = Check};
    auto r             = etl::strings::to_integer<T, opt>(etl::string_view{sb.p, sb.n}, static_cast<T>(base));
    std::string e;
    if (r.error == etl::strings::to_integer_error::none) {
        e = "none(" + num(r.value) + "," + std::to_string(r.end - sb.p) + ")";
    } else if (r.error == etl::strings::to_integer_error::invalid_input) {
        e = "invalid(" + std::to_string(r.end - sb.p) + ")";
    } else {
        e = "overflow";
    }
    if (base == 0) {
        auto q = ref_base0<T>(sb.p, sb.n, Ws);
        std::string s0 = q.cls == 0 ? "none(" + num(q.value) + "," + std::to_string(q.n) + ")"
                       : q.cls == 1 ? std::string("invalid(0)")
                                    : std::string(Check ? "overflow" : "*");
        return out(e, s0);
    }
    std::size_t k = 0;
    if (Ws) {
        while (k < sb.n and c_isspace(sb.p[k])) ++k;
    }
    auto w = ref_t<T>(0);
    auto q = std::from_chars(sb.p + k, sb.p + sb.n, w, base);
    std::string s;
    if (q.ec == std::errc{}) {
        s = "none(" + num(w) + "," + std::to_string(q.ptr - sb.p) + ")";
    } else if (q.ec == std::errc::invalid_argument) {
        s = "invalid(0)";
    } else {
        s = Check ? "overflow" : "*";
    }
    return out(e, s);
}

template <typename T>
auto op_to_integer(Line const& l) -> std::string
{
    return l.i("ws") != 0 ? op_to_integer_t<T, true>(l) : op_to_integer_t<T, false>(l);
}

template <typename T>
auto op_to_integer_nc(Line const& l) -> std::string
{
    return l.i("ws") != 0 ? op_to_integer_t<T, true, false>(l) : op_to_integer_t<T, false, false>(l);
}

template <typename T>
auto op_round_trip(Line const& l) -> std::string
{
    auto const v    = value_of<T>(l);
    auto const base = static_cast<int>(l.i("base"));
    char b1[72];
    char b2[72];
    std::string e = "to_chars-failed";
    std::string s = "to_chars-failed";
    if (auto r = etl::to_chars(b1, b1 + 72, v, base); r.ec == etl::errc{}) {
        T back = T(77);
        auto q = etl::from_chars(static_cast<char const*>(b1), r.ptr, back, base);
        e      = std::string(q.ec == etl::errc{} ? "ok" : "err") + "(" + num(back) + "," + proto::fmt_bool(q.ptr == r.ptr) + ")";
    }
    if (auto r = std::to_chars(b2, b2 + 72, static_cast<ref_t<T>>(v), base); r.ec == std::errc{}) {
        auto back = ref_t<T>(77);
        auto q = std::from_chars(static_cast<char const*>(b2), static_cast<char const*>(r.ptr), back, base);
        s      = std::string(q.ec == std::errc{} ? "ok" : "err") + "(" + num(back) + "," + proto::fmt_bool(q.ptr == r.ptr) + ")";
    }
    return out(e, s);
}

// every base 2..36 for one value: exact-fit to_chars, one byte less must fail, from_chars of the text
// must give the value back and consume all of it.  Per base: the text, `E` = exact fit refused,
// `<` = fitted into one byte less, `!` = round trip failed.
template <typename T>
auto op_to_chars_all(Line const& l) -> std::string
{
    auto const v = value_of<T>(l);
    std::string e;
    std::string s;
    for (int base = 2; base <= 36; ++base) {
        char ref[72];
        auto rr        = std::to_chars(ref, ref + 72, static_cast<ref_t<T>>(v), base);
        auto const len = static_cast<std::size_t>(rr.ptr - ref);
        if (base > 2) { e += ","; s += ","; }
        {
            std::string text;
            bool okfit = false;
            auto r1 = with_buffer(len, [&](char* first, std::size_t n) {
                auto r = etl::to_chars(first, first + n, v, base);
                okfit  = r.ec == etl::errc{};
                if (okfit) text.assign(first, static_cast<std::size_t>(r.ptr - first));
                return std::string(okfit ? "ok" : "E");
            });
            e += (r1 == "ok") ? text : r1;
            auto r2 = with_buffer(len - 1, [&](char* first, std::size_t n) {
                auto r = etl::to_chars(first, first + n, v, base);
                return std::string(r.ec == etl::errc{} ? "<" : "");
            });
            e += r2;
            if (r1 == "ok") {
                proto::heap_buf<char> tb(text.size());
                std::memcpy(tb.p, text.data(), text.size());
                T back = T(77);
                auto q = etl::from_chars(static_cast<char const*>(tb.p), static_cast<char const*>(tb.p + tb.n), back, base);
                if (not(q.ec == etl::errc{} and back == v and q.ptr == tb.p + tb.n)) e += "!";
            }
        }
        {
            s += std::string(ref, len);
            char small[72];
            auto r2 = std::to_chars(small, small + len - 1, static_cast<ref_t<T>>(v), base);
            if (r2.ec == std::errc{}) s += "<";
            auto back = ref_t<T>(77);
            auto q    = std::from_chars(static_cast<char const*>(ref), static_cast<char const*>(rr.ptr), back, base);
            if (not(q.ec == std::errc{} and back == static_cast<ref_t<T>>(v) and q.ptr == rr.ptr)) s += "!";
        }
    }
    return out(e, s);
}

template <std::size_t Cap, typename T>
auto to_string_cap(T v) -> std::string
{
    auto s = etl::to_string<Cap>(v);
    return "ok(" + std::to_string(s.size()) + "," + bytes(s.data(), s.size()) + "," + proto::fmt_bool(s.data()[s.size()] == '\0') + ")";
}

template <typename T, std::size_t... Caps>
auto to_string_dispatch(std::size_t cap, T v, std::index_sequence<Caps...>) -> std::string
{
    std::string r = "bad-op";
    ((cap == Caps + 1 ? (r = to_string_cap<Caps + 1>(v), 0) : 0), ...);
    return r;
}

template <typename T>
auto op_to_string(Line const& l) -> std::string
{
    auto const v   = value_of<T>(l);
    auto const cap = static_cast<std::size_t>(l.i("cap"));
    auto e         = to_string_dispatch<T>(cap, v, std::make_index_sequence<24>{});
    auto ss        = std::to_string(v);
    auto s         = "ok(" + std::to_string(ss.size()) + "," + bytes(ss.data(), ss.size()) + ",1)";
    return out(e, s);
}

struct cstr {
    proto::heap_buf<char> b;
    explicit cstr(std::vector<long long> const& v) : b(v.size() + 1)
    {
        for (std::size_t k = 0; k < v.size(); ++k) b.p[k] = static_cast<char>(v[k]);
        b.p[v.size()] = '\0';
    }
};

template <typename R, typename FE, typename FS>
auto strto(Line const& l, FE fe, FS fs) -> std::string
{
    cstr c(l.list("s"));
    auto const base  = static_cast<int>(l.i("base"));
    char const* eend = nullptr;
    R ve             = fe(static_cast<char const*>(c.b.p), &eend, base);
    // the end pointer is optional: the same call with last == nullptr must return the same value
    R ve0            = fe(static_cast<char const*>(c.b.p), static_cast<char const**>(nullptr), base);
    auto e           = num(ve) + "," + std::to_string(eend - c.b.p) + (ve0 == ve ? "" : "!null=" + num(ve0));
    char* send       = nullptr;
    R vs             = fs(c.b.p, &send, base);
    auto s           = num(vs) + "," + std::to_string(send - c.b.p);
    return out(e, s);
}

template <typename R, typename FS>
auto strto_erange(Line const& l, FS fs) -> std::string
{
    cstr c(l.list("s"));
    auto const base = static_cast<int>(l.i("base"));
    char* send      = nullptr;
    errno           = 0;
    (void)fs(c.b.p, &send, base);
    return out("*", errno == ERANGE ? "1" : "0");
}

template <typename R, typename FE, typename FS>
auto ato(Line const& l, FE fe, FS fs) -> std::string
{
    cstr c(l.list("s"));
    R ve  = fe(static_cast<char const*>(c.b.p));
    errno = 0;
    auto ref = std::strtoll(c.b.p, nullptr, 10);
    std::string s;
    if (errno == ERANGE or ref < static_cast<long long>(std::numeric_limits<R>::min())
        or ref > static_cast<long long>(std::numeric_limits<R>::max())) {
        s = "*"; // behaviour undefined when the value is not representable
    } else {
        s = num(fs(c.b.p));
    }
    return out(num(ve), s);
}

template <typename R, typename FE, typename FS>
auto sto(Line const& l, FE fe, FS fs) -> std::string
{
    proto::heap_buf<char> sb(l.list("s"));
    auto const base = static_cast<int>(l.i("base"));
    std::size_t pe  = 12345;
    R ve            = fe(etl::string_view{sb.p, sb.n}, &pe, base);
    auto e          = "ok(" + num(ve) + "," + std::to_string(pe) + ")";
    std::string s;
    try {
        std::size_t ps = 12345;
        R vs           = fs(std::string(sb.p, sb.n), &ps, base);
        s              = "ok(" + num(vs) + "," + std::to_string(ps) + ")";
    } catch (std::invalid_argument const&) {
        s = "invalid";
    } catch (std::out_of_range const&) {
        s = "range";
    }
    return out(e, s);
}

// every operation that is a template over the integer type
template <typename T>
auto ops(Line const& l) -> std::string
{
    if (l.op == "to_chars") return op_to_chars<T>(l);
    if (l.op == "from_integer") return op_from_integer<T>(l);
    if (l.op == "from_chars") return op_from_chars<T>(l);
    if (l.op == "to_integer") return op_to_integer<T>(l);
    if (l.op == "to_integer_nc") return op_to_integer_nc<T>(l);
    if (l.op == "round_trip") return op_round_trip<T>(l);
    if (l.op == "to_chars_all") return op_to_chars_all<T>(l);
    return "bad-op\tbad-op";
}

} // namespace

// The file is compiled as several translation units in parallel (checks/props/c10.py: -DC10_PART=k compiles the
// instantiations of type group k only, -DC10_PART=-1 compiles step()/main() and links the groups); without C10_PART it
// is one translation unit.
#ifndef C10_PART
    #define C10_PART 99
#endif
#define C10_IN(k) (C10_PART == 99 || C10_PART == (k))

namespace part {
auto group0(Line const& l, std::string const& ty) -> std::string;
auto group1(Line const& l, std::string const& ty) -> std::string;
auto group2(Line const& l, std::string const& ty) -> std::string;
auto group3(Line const& l, std::string const& ty) -> std::string;
auto group4(Line const& l, std::string const& ty) -> std::string;
auto group5(Line const& l, std::string const& ty) -> std::string;
auto group6(Line const& l, std::string const& ty) -> std::string;
auto group7(Line const& l, std::string const& ty) -> std::string;
auto by_name(Line const& l, std::string const& fn) -> std::string;

#define C10_GROUP(K, N1, T1, N2, T2)                                                                                   \
    auto group##K(Line const& l, std::string const& ty) -> std::string                                                 \
    {                                                                                                                  \
        if (ty == N1) return ops<T1>(l);                                                                               \
        if (ty == N2) return ops<T2>(l);                                                                               \
        return "";                                                                                                     \
    }
#if C10_IN(0)
C10_GROUP(0, "i8", signed char, "u8", unsigned char)
#endif
#if C10_IN(1)
C10_GROUP(1, "i16", short, "u16", unsigned short)
#endif
#if C10_IN(2)
C10_GROUP(2, "i32", int, "u32", unsigned)
#endif
#if C10_IN(3)
C10_GROUP(3, "i64", long, "u64", unsigned long)
#endif
#if C10_IN(4)
C10_GROUP(4, "c8", char, "ill", long long)
#endif
#if C10_IN(5)
C10_GROUP(5, "ull", unsigned long long, "c8u", char8_t)
#endif
#if C10_IN(6)
C10_GROUP(6, "c16", char16_t, "c32", char32_t)
#endif
#if C10_IN(7)
C10_GROUP(7, "wc", wchar_t, "wc", wchar_t)
#endif
#undef C10_GROUP

#if C10_IN(8)
// the operations selected by a function name
auto by_name(Line const& l, std::string const& fn) -> std::string
{
    if (l.op == "to_string") {
        if (fn == "i32") return op_to_string<int>(l);
        if (fn == "u32") return op_to_string<unsigned>(l);
        if (fn == "i64") return op_to_string<long>(l);
        if (fn == "u64") return op_to_string<unsigned long>(l);
        if (fn == "ill") return op_to_string<long long>(l);
        if (fn == "ull") return op_to_string<unsigned long long>(l);
    }
    if (l.op == "cstr") {
        if (fn == "strtol") return strto<long>(l, [](auto... a) { return etl::strtol(a...); }, [](auto... a) { return std::strtol(a...); });
        if (fn == "strtoll") return strto<long long>(l, [](auto... a) { return etl::strtoll(a...); }, [](auto... a) { return std::strtoll(a...); });
        if (fn == "strtoul") return strto<unsigned long>(l, [](auto... a) { return etl::strtoul(a...); }, [](auto... a) { return std::strtoul(a...); });
        if (fn == "strtoull") return strto<unsigned long long>(l, [](auto... a) { return etl::strtoull(a...); }, [](auto... a) { return std::strtoull(a...); });
        if (fn == "atoi") return ato<int>(l, [](char const* p) { return etl::atoi(p); }, [](char const* p) { return std::atoi(p); });
        if (fn == "atol") return ato<long>(l, [](char const* p) { return etl::atol(p); }, [](char const* p) { return std::atol(p); });
        if (fn == "atoll") return ato<long long>(l, [](char const* p) { return etl::atoll(p); }, [](char const* p) { return std::atoll(p); });
    }
    if (l.op == "cstr_erange") {
        if (fn == "strtol") return strto_erange<long>(l, [](auto... a) { return std::strtol(a...); });
        if (fn == "strtoll") return strto_erange<long long>(l, [](auto... a) { return std::strtoll(a...); });
        if (fn == "strtoul") return strto_erange<unsigned long>(l, [](auto... a) { return std::strtoul(a...); });
        if (fn == "strtoull") return strto_erange<unsigned long long>(l, [](auto... a) { return std::strtoull(a...); });
    }
    if (l.op == "sto") {
        if (fn == "stoi") return sto<int>(l, [](auto... a) { return etl::stoi(a...); }, [](auto... a) { return std::stoi(a...); });
        if (fn == "stol") return sto<long>(l, [](auto... a) { return etl::stol(a...); }, [](auto... a) { return std::stol(a...); });
        if (fn == "stoll") return sto<long long>(l, [](auto... a) { return etl::stoll(a...); }, [](auto... a) { return std::stoll(a...); });
        if (fn == "stoul") return sto<unsigned long>(l, [](auto... a) { return etl::stoul(a...); }, [](auto... a) { return std::stoul(a...); });
        if (fn == "stoull") return sto<unsigned long long>(l, [](auto... a) { return etl::stoull(a...); }, [](auto... a) { return std::stoull(a...); });
    }
    return "bad-op\tbad-op";
}
#endif
} // namespace part

#if C10_IN(-1)
namespace {
auto step(Line const& l) -> std::string
{
    std::string const ty = l.has("ty") ? l.str("ty") : "";
    std::string const fn = l.has("fn") ? l.str("fn") : "";
    if (l.has("ty")) {
        for (auto g : {part::group0, part::group1, part::group2, part::group3, part::group4, part::group5, part::group6, part::group7}) {
            auto r = g(l, ty);
            if (not r.empty()) return r;
        }
        return "bad-op\tbad-op";
    }
    return part::by_name(l, fn);
}
} // namespace

int main(int argc, char** argv) { return proto::run(argc, argv, step); }
#endif
