// Line protocol shared by every C++ harness (DESIGN §1.6).
//   <op> key=value ...     value := integer | npos | [i,i,...] | bare-word
// Every harness reads case lines from the file named by argv[1] (or stdin), starting at
// line argv[2] (default 0), and prints one output line per input line:
//   <impl result> \t <std/oracle result>
// Output is flushed per line so that a sanitizer abort pinpoints the failing line.
#pragma once
#include <cstdint>
#include <cstdio>
#include <cstdlib>
#include <cstring>
#include <map>
#include <sstream>
#include <string>
#include <vector>

namespace proto {

struct Val {
    enum Kind { Int, Npos, List, Str } kind = Str;
    long long i = 0;
    std::vector<long long> list;
    std::string s;
};

struct Line {
    std::string op;
    std::map<std::string, Val> args;
    bool has(std::string const& k) const { return args.count(k) != 0; }
    Val const& at(std::string const& k) const
    {
        auto it = args.find(k);
        if (it == args.end()) { std::fprintf(stderr, "proto: missing key %s in op %s\n", k.c_str(), op.c_str()); std::exit(2); }
        return it->second;
    }
    long long i(std::string const& k) const
    {
        auto const& v = at(k);
        if (v.kind != Val::Int) { std::fprintf(stderr, "proto: key %s not int\n", k.c_str()); std::exit(2); }
        return v.i;
    }
    long long i(std::string const& k, long long dflt) const { return has(k) ? i(k) : dflt; }
    // size_t-like argument: `npos` maps to the given npos value
    std::size_t pos(std::string const& k, std::size_t npos = static_cast<std::size_t>(-1)) const
    {
        auto const& v = at(k);
        if (v.kind == Val::Npos) return npos;
        if (v.kind != Val::Int || v.i < 0) { std::fprintf(stderr, "proto: key %s not pos\n", k.c_str()); std::exit(2); }
        return static_cast<std::size_t>(v.i);
    }
    std::vector<long long> const& list(std::string const& k) const
    {
        auto const& v = at(k);
        if (v.kind != Val::List) { std::fprintf(stderr, "proto: key %s not list\n", k.c_str()); std::exit(2); }
        return v.list;
    }
    std::string const& str(std::string const& k) const { return at(k).s; }
};

inline Val parse_val(std::string const& s)
{
    Val v;
    v.s = s;
    if (s == "npos") { v.kind = Val::Npos; return v; }
    if (s.size() >= 2 && s.front() == '[' && s.back() == ']') {
        v.kind = Val::List;
        std::string inner = s.substr(1, s.size() - 2);
        if (!inner.empty()) {
            std::stringstream ss(inner);
            std::string tok;
            while (std::getline(ss, tok, ',')) v.list.push_back(std::strtoll(tok.c_str(), nullptr, 10));
        }
        return v;
    }
    char* end = nullptr;
    long long x = std::strtoll(s.c_str(), &end, 10);
    if (!s.empty() && end != nullptr && *end == '\0') { v.kind = Val::Int; v.i = x; return v; }
    v.kind = Val::Str;
    return v;
}

// returns false for blank/comment lines
inline bool parse_line(std::string const& raw, Line& out)
{
    std::stringstream ss(raw);
    std::string tok;
    out = Line{};
    bool first = true;
    while (ss >> tok) {
        if (first) {
            if (tok[0] == '#') return false;
            out.op = tok;
            first = false;
            continue;
        }
        auto eq = tok.find('=');
        if (eq == std::string::npos) continue;
        out.args[tok.substr(0, eq)] = parse_val(tok.substr(eq + 1));
    }
    return !first;
}

template <typename T>
inline std::string fmt_list(std::vector<T> const& v)
{
    std::string r = "[";
    for (std::size_t k = 0; k < v.size(); ++k) {
        if (k) r += ",";
        r += std::to_string(static_cast<long long>(v[k]));
    }
    return r + "]";
}
inline std::string fmt_pos(std::size_t p, std::size_t npos = static_cast<std::size_t>(-1))
{
    return p == npos ? std::string("npos") : std::to_string(p);
}
inline std::string fmt_sign(long long x) { return x < 0 ? "-1" : (x > 0 ? "1" : "0"); }
inline std::string fmt_bool(bool b) { return b ? "1" : "0"; }

// Exact-size heap copy of a list as an array of T with no terminator and no slack:
// a one-past read lands in an ASan red zone.
template <typename T>
struct heap_buf {
    T* p = nullptr;
    std::size_t n = 0;
    explicit heap_buf(std::vector<long long> const& v) : n(v.size())
    {
        p = static_cast<T*>(std::malloc(n * sizeof(T))); // n == 0: a zero-size chunk, any access is reported
        for (std::size_t k = 0; k < n; ++k) p[k] = static_cast<T>(v[k]);
    }
    explicit heap_buf(std::size_t count) : n(count) { p = static_cast<T*>(std::malloc(n * sizeof(T))); }
    heap_buf(heap_buf const&) = delete;
    heap_buf& operator=(heap_buf const&) = delete;
    ~heap_buf() { std::free(p); }
    std::vector<long long> to_list() const
    {
        std::vector<long long> r;
        for (std::size_t k = 0; k < n; ++k) r.push_back(static_cast<long long>(p[k]));
        return r;
    }
};

// Main loop: step(line) -> "impl\tstd".
template <typename F>
inline int run(int argc, char** argv, F step)
{
    std::FILE* in = stdin;
    if (argc > 1 && std::strcmp(argv[1], "-") != 0) {
        in = std::fopen(argv[1], "r");
        if (!in) { std::perror("open"); return 2; }
    }
    long start = argc > 2 ? std::atol(argv[2]) : 0;
    static char buf[1 << 20];
    long n = 0;
    while (std::fgets(buf, sizeof buf, in)) {
        if (n++ < start) continue;
        Line l;
        if (!parse_line(buf, l)) { std::puts("skip"); std::fflush(stdout); continue; }
        std::string o = step(l);
        std::fputs(o.c_str(), stdout);
        std::fputc('\n', stdout);
        std::fflush(stdout);
    }
    return 0;
}

} // namespace proto
