// C02 observers for the harnesses of the OTHER properties (thorough-tier leg "foreign streams",
// checks/props/c02.py): force-included (`-include c02_observe.hpp`) into harness/cXX.cpp, which is compiled
// with `-finstrument-functions -finstrument-functions-exclude-file-list=/usr/,proto.hpp -rdynamic
// -ftrivial-auto-var-init=pattern`.  Nothing of the other harness is edited.
//
//  * "a library call is on the stack": every function defined outside the system headers calls
//    __cyg_profile_func_enter/exit.  A function is a LIBRARY function when its symbol lives in namespace etl
//    (mangled name `_ZN3etl…`, `_ZNK3etl…`, `_ZZN3etl…`); everything else (the harness, its element types,
//    comparators and callbacks, also when called back from the library, and the assert handler a harness
//    defines as `etl::assert_handler`) is CALLER code.  The state of the
//    innermost instrumented frame decides; functions of the system headers inherit it.
//  * allocation counting: the sanitizer's weak malloc hook (covers malloc/calloc/realloc/operator new) counts
//    every allocation made while the innermost instrumented frame is a library function.  The first few are
//    remembered with the name of that function.
//  * non-local exits: a harness may leave library frames with longjmp (C17 arms the "value fits" contract of
//    to_ulong that way), which skips their __cyg_profile_func_exit.  Every entry therefore remembers the frame
//    address of its function; entering or leaving a function first drops every entry that cannot be a live
//    ancestor (frame address <= the current function's), and `longjmp` is wrapped (-Wl,--wrap=longjmp,…): between
//    the jump and the next enter/exit event the innermost frame is unknown and allocations are not attributed
//    (the landing frame is caller code by construction: library code contains no setjmp).
//  * at exit one line is appended to $C02_STATS: `guarded_calls=<entries into the library from caller code>
//    allocs=<n> new_calls=0 where=<function>;…`.
//  * poisoned objects: `-ftrivial-auto-var-init=pattern` fills every automatic object of the harness (the
//    library objects it default-initialises included) with 0xFE; the value comparison with the model and the
//    std:: oracle of the owning property sees a member that was never written.
#pragma once
#include <cstddef>
#include <cstdio>
#include <cstdlib>
#include <cstring>
#include <dlfcn.h>

#define C02_NOINSTR __attribute__((no_instrument_function))

namespace c02obs {

constexpr int MAXD = 1 << 16;
inline unsigned char stack[MAXD]; // 1 = library frame, 0 = caller frame
inline int top                      = 0;
inline long overflow                = 0;
inline bool in_hook                 = false; // the hooks themselves must not be observed
inline unsigned long guarded_calls  = 0;
inline unsigned long allocs         = 0;
inline void const* cur_fn[MAXD];
inline void const* frame[MAXD];     // frame address of the instrumented function of each entry
inline bool jumped = false;         // a longjmp happened and no enter/exit event has re-synchronised the stack yet
inline unsigned long jumps = 0;
inline char where[8][256];
inline int nwhere = 0;

// small open-addressing cache: function address -> is it a library function
constexpr std::size_t CACHE = 1 << 16;
inline void const* ckey[CACHE];
inline signed char cval[CACHE];

C02_NOINSTR inline bool is_lib_name(char const* n)
{
    if (n == nullptr || n[0] != '_' || n[1] != 'Z') return false;
    char const* p = n + 2;
    while (*p == 'Z') ++p; // local entities of library functions (`_ZZN3etl…`)
    if (*p != 'N') return false;
    ++p;
    while (*p == 'K' || *p == 'V' || *p == 'R' || *p == 'O') ++p;
    if (std::strncmp(p, "3etl", 4) != 0) return false;
    // `etl::assert_handler` is the customisation point a harness DEFINES (in namespace etl): caller code
    return std::strncmp(p + 4, "14assert_handler", 16) != 0;
}

C02_NOINSTR inline bool is_lib(void const* fn)
{
    auto h = (reinterpret_cast<std::size_t>(fn) >> 2) & (CACHE - 1);
    for (std::size_t k = 0; k < CACHE; ++k) {
        auto i = (h + k) & (CACHE - 1);
        if (ckey[i] == fn) return cval[i] == 1;
        if (ckey[i] == nullptr) {
            Dl_info info{};
            bool lib = dladdr(fn, &info) != 0 && is_lib_name(info.dli_sname);
            ckey[i]  = fn;
            cval[i]  = lib ? 1 : 0;
            return lib;
        }
    }
    return false;
}

C02_NOINSTR inline void on_alloc()
{
    if (in_hook || jumped || top == 0 || top > MAXD || stack[top - 1] == 0) return;
    in_hook = true;
    ++allocs;
    if (nwhere < 8) {
        Dl_info info{};
        char const* n = (dladdr(cur_fn[top - 1], &info) != 0 && info.dli_sname) ? info.dli_sname : "?";
        bool seen     = false;
        for (int k = 0; k < nwhere; ++k) seen = seen || std::strncmp(where[k], n, 255) == 0;
        if (!seen) {
            std::strncpy(where[nwhere], n, 255);
            ++nwhere;
        }
    }
    in_hook = false;
}

C02_NOINSTR inline void write_stats()
{
    in_hook          = true;
    char const* path = std::getenv("C02_STATS");
    if (path == nullptr) return;
    if (std::FILE* f = std::fopen(path, "a")) {
        std::fprintf(f, "guarded_calls=%lu allocs=%lu new_calls=0 jumps=%lu where=", guarded_calls, allocs, jumps);
        for (int k = 0; k < nwhere; ++k) std::fprintf(f, "%s%s", k ? ";" : "", where[k]);
        std::fprintf(f, "%s\n", nwhere ? "" : "-");
        std::fclose(f);
    }
}

struct AtExit {
    C02_NOINSTR AtExit() { std::atexit(write_stats); }
};
inline AtExit at_exit;

} // namespace c02obs

namespace c02obs {
// drops the entries that cannot be live ancestors of a function whose frame address is `fa` (the stack grows down)
C02_NOINSTR inline void resync(void const* fa)
{
    while (top > 0 && top <= MAXD && frame[top - 1] <= fa) --top;
    jumped = false;
}
} // namespace c02obs

extern "C" {
void __real_longjmp(void*, int) __attribute__((noreturn));
void __real__longjmp(void*, int) __attribute__((noreturn));
void __real_siglongjmp(void*, int) __attribute__((noreturn));
void __real___longjmp_chk(void*, int) __attribute__((noreturn));
C02_NOINSTR __attribute__((weak, noreturn)) void __wrap_longjmp(void* e, int v) { c02obs::jumped = true; ++c02obs::jumps; __real_longjmp(e, v); }
C02_NOINSTR __attribute__((weak, noreturn)) void __wrap__longjmp(void* e, int v) { c02obs::jumped = true; ++c02obs::jumps; __real__longjmp(e, v); }
C02_NOINSTR __attribute__((weak, noreturn)) void __wrap_siglongjmp(void* e, int v) { c02obs::jumped = true; ++c02obs::jumps; __real_siglongjmp(e, v); }
C02_NOINSTR __attribute__((weak, noreturn)) void __wrap___longjmp_chk(void* e, int v) { c02obs::jumped = true; ++c02obs::jumps; __real___longjmp_chk(e, v); }

C02_NOINSTR __attribute__((weak)) void __cyg_profile_func_enter(void* fn, void*)
{
    using namespace c02obs;
    if (in_hook) return;
    in_hook = true;
    void const* fa = __builtin_frame_address(1); // the frame of the function being entered (-fno-omit-frame-pointer)
    if (top <= MAXD) resync(fa);
    if (top < MAXD) {
        bool lib = is_lib(fn);
        if (lib && (top == 0 || stack[top - 1] == 0)) ++guarded_calls;
        stack[top]  = lib ? 1 : 0;
        cur_fn[top] = fn;
        frame[top]  = fa;
    } else {
        ++overflow;
    }
    ++top;
    in_hook = false;
}
C02_NOINSTR __attribute__((weak)) void __cyg_profile_func_exit(void*, void*)
{
    using namespace c02obs;
    if (in_hook) return;
    if (top > MAXD) { // deeper than the recorded part: plain counting
        --top;
        return;
    }
    resync(__builtin_frame_address(1)); // pops the entry of the function being left and anything staler
}
// the sanitizer run-time calls this weak hook after every successful allocation
C02_NOINSTR __attribute__((weak)) void __sanitizer_malloc_hook(void const volatile*, std::size_t) { c02obs::on_alloc(); }
}
