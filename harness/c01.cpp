// C01 harness: etl::static_vector / etl::inplace_vector / etl::stack<T, static_vector> against
// std::vector / std::stack driven by the same operation lines (see lean/Tetl/C01/Driver.lean for
// the line format).  The same templated code is applied to the tetl type and to the std type, so
// the call syntax is identical on both sides.  Objects live in raw buffers that are poisoned with
// 0xAA before every (re-)construction, so a member that is left uninitialised shows up as a
// deterministic garbage value.  Only the public API is used to observe a container.
#include "proto.hpp"

#include <etl/inplace_vector.hpp>
#include <etl/stack.hpp>
#include <etl/vector.hpp>

#include <algorithm>
#include <climits>
#include <cstdint>
#include <limits>
#include <unistd.h>
#include <utility>
#include <memory>
#include <new>
#include <stack>
#include <type_traits>
#include <vector>

using proto::Line;

// ---------------------------------------------------------------- element types
static constexpr long long MOVED = 9999;
static constexpr long long DEAD  = -77;

struct NT {
    long long v;
    NT() noexcept : v(0) { }
    NT(int x) noexcept : v(x) { } // NOLINT
    NT(NT const& o) noexcept : v(o.v) { }
    NT(NT&& o) noexcept : v(o.v) { o.v = MOVED; }
    auto operator=(NT const& o) noexcept -> NT&
    {
        v = o.v;
        return *this;
    }
    auto operator=(NT&& o) noexcept -> NT&
    {
        if (this != &o) {
            v   = o.v;
            o.v = MOVED;
        }
        return *this;
    }
    ~NT() noexcept { *const_cast<long long volatile*>(&v) = DEAD; }
    friend auto operator==(NT const& a, NT const& b) noexcept -> bool { return a.v == b.v; }
    friend auto operator<(NT const& a, NT const& b) noexcept -> bool { return a.v < b.v; }
};
static_assert(!std::is_trivial_v<NT> && !etl::is_trivial_v<NT>);

// A handle: move construction and move assignment transfer the value and empty the source; the move assignment
// has no self test, so `x = std::move(x)` empties x.  A container algorithm that move-assigns an element to itself
// without need (std::erase_if never does: it runs find_if first) becomes visible through this type.
static constexpr long long EMPTIED = 9998;
struct HD {
    long long v;
    HD() noexcept : v(0) { }
    HD(int x) noexcept : v(x) { } // NOLINT
    HD(HD const& o) noexcept : v(o.v) { }
    HD(HD&& o) noexcept : v(o.v) { o.v = EMPTIED; }
    auto operator=(HD const& o) noexcept -> HD&
    {
        v = o.v;
        return *this;
    }
    auto operator=(HD&& o) noexcept -> HD&
    {
        v   = o.v;
        o.v = EMPTIED;
        return *this;
    }
    ~HD() noexcept { *const_cast<long long volatile*>(&v) = DEAD; }
    friend auto operator==(HD const& a, HD const& b) noexcept -> bool { return a.v == b.v; }
    friend auto operator<(HD const& a, HD const& b) noexcept -> bool { return a.v < b.v; }
};
static_assert(!std::is_trivial_v<HD> && !etl::is_trivial_v<HD>);

// A key/payload pair, trivially copyable (the array storage): ordered by the key alone, equal when key and payload are
// equal, so operator== is finer than the equivalence induced by operator<.  The protocol value v stands for
// key = v / 2, payload = v % 2 (Tetl.C01.ltOf / eqOf of kind kp).
struct KP {
    int key;
    int payload;
    KP() noexcept = default;
    KP(int x) noexcept : key(x / 2), payload(x % 2) { } // NOLINT
    friend auto operator==(KP const& a, KP const& b) noexcept -> bool { return a.key == b.key && a.payload == b.payload; }
    friend auto operator<(KP const& a, KP const& b) noexcept -> bool { return a.key < b.key; }
};
static_assert(std::is_trivial_v<KP> && etl::is_trivial_v<KP>);

static auto val(int x) -> long long { return x; }
static auto val(KP const& x) -> long long { return 2LL * x.key + x.payload; }
static auto val(NT const& x) -> long long { return x.v; }
static auto val(HD const& x) -> long long { return x.v; }

template <typename E>
static auto mk(long long x) -> E
{
    return E(static_cast<int>(x));
}

template <typename E>
static auto mk_list(std::vector<long long> const& xs) -> std::vector<E>
{
    std::vector<E> r;
    r.reserve(xs.size() + 1);
    for (auto x : xs) r.push_back(mk<E>(x));
    return r;
}

// ---------------------------------------------------------------- object slots
template <typename C>
struct Slot {
    alignas(C) unsigned char buf[sizeof(C)];
    C* p = nullptr;
    static inline bool value_init = false; // how `fresh()` creates the object: `C()` or `C` (default-initialisation)
    Slot() { fresh(); }
    Slot(Slot const&)                    = delete;
    auto operator=(Slot const&) -> Slot& = delete;
    ~Slot() { kill(); }
    void kill()
    {
        if (p) p->~C();
        p = nullptr;
    }
    void poison() { std::memset(buf, 0xAA, sizeof buf); }
    // default-initialisation: `C c;`
    void fresh()
    {
        kill();
        poison();
        if (value_init) p = ::new (static_cast<void*>(buf)) C();
        else p = ::new (static_cast<void*>(buf)) C;
    }
    template <typename... A>
    void make(A&&... a)
    {
        kill();
        poison();
        p = ::new (static_cast<void*>(buf)) C(std::forward<A>(a)...);
    }
    auto operator*() -> C& { return *p; }
    auto operator->() -> C* { return p; }
};

template <typename C>
struct is_etl_sv : std::false_type { };
template <typename T, etl::size_t N>
struct is_etl_sv<etl::static_vector<T, N>> : std::true_type { };

static auto rel6(bool a, bool b, bool c, bool d, bool e, bool f) -> std::string
{
    return std::string("rel=") + proto::fmt_bool(a) + proto::fmt_bool(b) + proto::fmt_bool(c) + proto::fmt_bool(d)
         + proto::fmt_bool(e) + proto::fmt_bool(f);
}

static auto obj_of(Line const& l) -> std::size_t { return static_cast<std::size_t>(l.i("obj", 0)); }
static auto other_of(Line const& l) -> std::size_t { return static_cast<std::size_t>(l.i("other")); }

// ---------------------------------------------------------------- documented preconditions (mirror of Tetl.C01.valid)
// `n` is the size the implementation reports for object k.  A line that violates a precondition is
// answered with `invalid` on both sides and executes nothing (so that shrinking a history never runs UB).
static auto valid_line(std::string const& ty, Line const& l, std::size_t cap, std::size_t n) -> bool
{
    auto const& op = l.op;
    auto has_nat   = [&](char const* k) { return l.has(k) && l.at(k).kind == proto::Val::Int && l.at(k).i >= 0; };
    auto nat       = [&](char const* k) { return static_cast<std::size_t>(l.i(k)); };
    auto has_list  = [&](char const* k) { return l.has(k) && l.at(k).kind == proto::Val::List; };
    if (l.has("obj") && (!has_nat("obj") || nat("obj") >= 4)) return false;
    std::size_t k = l.has("obj") ? nat("obj") : 0;
    bool binary   = op == "copy_ctor" || op == "move_ctor" || op == "copy_assign" || op == "move_assign" || op == "swap"
               || op == "swap_free" || op == "cmp";
    if (binary) {
        if (!has_nat("other") || nat("other") >= 4) return false;
        if ((op == "copy_ctor" || op == "move_ctor") && nat("other") == k) return false;
        if (ty == "ipv") return op == "copy_ctor" || op == "move_ctor";
        return true;
    }
    // `…_mv`: the argument is std::move(t) of a named object t that is printed after the call (` arg=`)
    bool push  = op == "push" || op == "push_rv" || op == "emplace_back" || op == "push_mv" || op == "emplace_back_mv";
    bool ptop  = op == "push_top" || op == "emplace_top";
    bool tryp  = op == "try_push" || op == "try_push_rv" || op == "try_emplace" || op == "try_push_mv" || op == "try_emplace_mv";
    bool unch  = op == "unchecked_push" || op == "unchecked_push_rv" || op == "unchecked_emplace" || op == "unchecked_push_mv"
             || op == "unchecked_emplace_mv";
    if (op == "dump") return true;
    if (ty == "stk") {
        if (push) return has_nat("x") && n < cap;
        if (ptop) return n > 0 && n < cap;
        if (op == "pop") return n > 0;
        return false;
    }
    if (ty == "ipv") {
        if (tryp) return has_nat("x");
        if (unch) return has_nat("x") && n < cap;
        // the argument is element i of the object itself
        if (op == "try_push_alias" || op == "try_emplace_alias") return has_nat("i") && nat("i") < n;
        if (op == "unchecked_push_alias" || op == "unchecked_emplace_alias") return has_nat("i") && nat("i") < n && n < cap;
        if (op == "pop") return n > 0;
        if (op == "clear") return true;
        return false;
    }
    // static_vector
    if (push) return has_nat("x") && n < cap;
    // the argument is element i of the object itself
    if (ptop) return n > 0 && n < cap;
    if (op == "push_alias" || op == "emplace_back_alias") return has_nat("i") && nat("i") < n && n < cap;
    if (op == "insert_alias" || op == "emplace_alias")
        return has_nat("i") && has_nat("pos") && nat("i") < n && n < cap && nat("pos") <= n;
    if (op == "insert_fill_alias")
        return has_nat("i") && has_nat("pos") && has_nat("n") && nat("i") < n && nat("pos") <= n && nat("n") <= cap
            && n + nat("n") <= cap;
    if (op == "resize_val_alias") return has_nat("i") && has_nat("n") && nat("i") < n && nat("n") <= cap;
    if (op == "pop") return n > 0;
    if (op == "insert" || op == "insert_rv" || op == "emplace" || op == "insert_mv" || op == "emplace_mv")
        return has_nat("x") && has_nat("pos") && n < cap && nat("pos") <= n;
    if (op == "insert_fill")
        return has_nat("x") && has_nat("pos") && has_nat("n") && nat("pos") <= n && nat("n") <= cap && n + nat("n") <= cap;
    if (op == "insert_range" || op == "move_insert")
        return has_nat("pos") && has_list("xs") && nat("pos") <= n && n + l.list("xs").size() <= cap;
    if (op == "erase") return has_nat("pos") && nat("pos") < n;
    if (op == "erase_range") return has_nat("f") && has_nat("l") && nat("f") <= nat("l") && nat("l") <= n;
    if (op == "resize" || op == "ctor_n") return has_nat("n") && nat("n") <= cap;
    if (op == "resize_val" || op == "assign_fill" || op == "ctor_n_val") return has_nat("n") && has_nat("x") && nat("n") <= cap;
    if (op == "assign_range" || op == "ctor_range") return has_list("xs") && l.list("xs").size() <= cap;
    if (op == "clear") return true;
    if (op == "erase_val") return has_nat("x");
    if (op == "erase_if") return has_nat("m") && has_nat("r") && nat("m") > 0;
    return false;
}

// Which objects are in a valid-but-unspecified state by the standard's book-keeping (mirror of
// Tetl.C01.Spec.step): the source of a move, copies of it, until the object is given a specified value
// again.  Such an object has no known size: only operations whose precondition does not mention the current
// contents may be applied to it (mirror of Tetl.C01.Spec.stateFree / Spec.validPre).
static auto is_binary(std::string const& op) -> bool
{
    return op == "copy_ctor" || op == "move_ctor" || op == "copy_assign" || op == "move_assign" || op == "swap"
        || op == "swap_free" || op == "cmp";
}
static auto state_free(std::string const& op) -> bool
{
    return op == "resize" || op == "resize_val" || op == "assign_fill" || op == "assign_range" || op == "clear"
        || op == "ctor_n" || op == "ctor_n_val" || op == "ctor_range" || op == "erase_val" || op == "erase_if"
        || op == "try_push" || op == "try_push_rv" || op == "try_emplace" || op == "try_push_mv" || op == "try_emplace_mv"
        || op == "dump";
}
static auto respecifies(std::string const& op) -> bool
{
    return op == "assign_fill" || op == "assign_range" || op == "clear" || op == "ctor_n" || op == "ctor_n_val"
        || op == "ctor_range";
}

struct Runner {
    bool unspec[4] = {false, false, false, false};
    virtual ~Runner()                              = default;
    virtual auto step(Line const& l) -> std::string = 0;
    // precondition part that depends on the specified-ness of object k (the rest is valid_line)
    auto spec_valid(Line const& l) const -> bool
    {
        if (is_binary(l.op)) return true;
        auto k = l.has("obj") && l.i("obj") >= 0 && l.i("obj") < 4 ? obj_of(l) : 0;
        return !unspec[k] || state_free(l.op);
    }
    void track(Line const& l)
    {
        auto const& op = l.op;
        auto k         = obj_of(l);
        if (op == "copy_ctor" || op == "copy_assign") {
            unspec[k] = unspec[other_of(l)];
        } else if (op == "move_ctor" || op == "move_assign") {
            auto j    = other_of(l);
            bool t    = unspec[j];
            unspec[k] = t;
            unspec[j] = true;
        } else if (op == "swap" || op == "swap_free") {
            std::swap(unspec[k], unspec[other_of(l)]);
        } else if (!is_binary(op) && unspec[k] && respecifies(op)) {
            unspec[k] = false;
        }
    }
};

// ---------------------------------------------------------------- sequence containers (static_vector | std::vector)
template <typename C, std::size_t Cap>
static auto dump_seq(C& c) -> std::string
{
    C const& cc = c;
    std::vector<long long> d;
    for (auto it = cc.begin(); it != cc.end(); ++it) d.push_back(val(*it));
    std::string flags;
    auto n = static_cast<std::size_t>(cc.size());
    if (d.size() != n) flags += "@size";
    {
        std::vector<long long> byidx, rev, viacb;
        for (std::size_t i = 0; i < std::min(n, d.size()); ++i) byidx.push_back(val(c[i]));
        for (std::size_t i = 0; i < std::min(n, d.size()); ++i)
            if (val(cc[i]) != byidx[i]) flags += "@cidx";
        if (byidx != std::vector<long long>(d.begin(), d.begin() + static_cast<long>(byidx.size()))) flags += "@idx";
        for (auto it = cc.rbegin(); it != cc.rend(); ++it) rev.push_back(val(*it));
        std::reverse(rev.begin(), rev.end());
        if (rev != d) flags += "@rev";
        for (auto it = c.cbegin(); it != c.cend(); ++it) viacb.push_back(val(*it));
        if (viacb != d) flags += "@cbegin";
        if (n != 0 && cc.data() != &*cc.begin()) flags += "@data";
    }
    bool full = false;
    if constexpr (is_etl_sv<C>::value) {
        full = cc.full();
        if (cc.capacity() != Cap || cc.max_size() != Cap) flags += "@cap";
        // the elements live inside the object itself: a copy can never share storage with its source
        if (n != 0) {
            auto const* lo = reinterpret_cast<unsigned char const*>(&cc);
            auto const* p  = reinterpret_cast<unsigned char const*>(cc.data());
            if (p < lo || p + Cap * sizeof(*cc.data()) > lo + sizeof(C)) flags += "@inl";
        }
    } else {
        full = cc.size() == Cap;
    }
    std::string fb = "-";
    if (n != 0) {
        fb = std::to_string(val(cc.front())) + "/" + std::to_string(val(cc.back()));
        if (&c.front() != &*c.begin() || &c.back() != &*(c.end() - 1)) flags += "@fbaddr";
    }
    return "n=" + std::to_string(n) + " e=" + proto::fmt_bool(cc.empty()) + " f=" + proto::fmt_bool(full) + " d="
         + proto::fmt_list(d) + " fb=" + fb + flags;
}

// single-object members; identical source text for both sides
template <typename C, typename E>
static auto seq_op(C& c, Line const& l, bool& handled) -> std::string
{
    handled      = true;
    auto const& op = l.op;
    auto it_off  = [&](auto it) { return "it=" + std::to_string(it - c.begin()); };
    auto x       = [&] { return mk<E>(l.i("x")); };
    auto pos     = [&] { return c.begin() + l.i("pos"); };
    if (op == "push") {
        E const v = x();
        c.push_back(v);
        return "ok";
    }
    if (op == "push_rv") {
        c.push_back(x());
        return "ok";
    }
    if (op == "emplace_back") {
        c.emplace_back(static_cast<int>(l.i("x")));
        return "ok";
    }
    if (op == "pop") {
        c.pop_back();
        return "ok";
    }
    if (op == "insert") {
        E const v = x();
        return it_off(c.insert(pos(), v));
    }
    if (op == "insert_rv") { return it_off(c.insert(pos(), x())); }
    if (op == "emplace") { return it_off(c.emplace(pos(), static_cast<int>(l.i("x")))); }
    if (op == "insert_fill") {
        E const v = x();
        return it_off(c.insert(pos(), static_cast<std::size_t>(l.i("n")), v));
    }
    if (op == "insert_range") {
        auto src = mk_list<E>(l.list("xs"));
        E const* f = src.data();
        return it_off(c.insert(pos(), f, f + src.size()));
    }
    if (op == "move_insert") {
        auto src = mk_list<E>(l.list("xs"));
        E* f     = src.data();
        if constexpr (is_etl_sv<C>::value) {
            return it_off(c.move_insert(pos(), f, f + src.size()));
        } else {
            return it_off(c.insert(pos(), std::make_move_iterator(f), std::make_move_iterator(f + src.size())));
        }
    }
    if (op == "erase") { return it_off(c.erase(pos())); }
    if (op == "erase_range") { return it_off(c.erase(c.begin() + l.i("f"), c.begin() + l.i("l"))); }
    if (op == "resize") {
        c.resize(static_cast<std::size_t>(l.i("n")));
        return "ok";
    }
    if (op == "resize_val") {
        E const v = x();
        c.resize(static_cast<std::size_t>(l.i("n")), v);
        return "ok";
    }
    if (op == "assign_fill") {
        E const v = x();
        c.assign(static_cast<std::size_t>(l.i("n")), v);
        return "ok";
    }
    if (op == "assign_range") {
        auto src = mk_list<E>(l.list("xs"));
        E const* f = src.data();
        c.assign(f, f + src.size());
        return "ok";
    }
    if (op == "clear") {
        c.clear();
        return "ok";
    }
    if (op == "erase_val") {
        E const v = x();
        auto n    = erase(c, v); // ADL: etl::erase / std::erase
        return "cnt=" + std::to_string(n);
    }
    if (op == "erase_if") {
        long long m = l.i("m"), r = l.i("r");
        auto n = erase_if(c, [m, r](E const& e) { return val(e) % m == r; });
        return "cnt=" + std::to_string(n);
    }
    if (op == "dump") { return "ok"; }
    // the argument is a reference to an element of the container itself ([sequence.reqmts] requires this to work
    // for every member below; std::vector may even reallocate underneath the reference)
    auto elem = [&]() -> E const& { return std::as_const(c)[static_cast<std::size_t>(l.i("i"))]; };
    if (op == "push_alias") {
        c.push_back(elem());
        return "ok";
    }
    if (op == "emplace_back_alias") {
        c.emplace_back(elem());
        return "ok";
    }
    if (op == "push_top") {
        c.push_back(c.back());
        return "ok";
    }
    if (op == "emplace_top") {
        c.emplace_back(c.back());
        return "ok";
    }
    if (op == "insert_alias") { return it_off(c.insert(pos(), elem())); }
    if (op == "emplace_alias") { return it_off(c.emplace(pos(), elem())); }
    if (op == "insert_fill_alias") { return it_off(c.insert(pos(), static_cast<std::size_t>(l.i("n")), elem())); }
    if (op == "resize_val_alias") {
        c.resize(static_cast<std::size_t>(l.i("n")), elem());
        return "ok";
    }
    // the argument is an rvalue of an object the caller still owns: what it shows after the call is part of the result
    // (moved from iff an element has been constructed from it)
    auto arg = [](E const& t) { return " arg=" + std::to_string(val(t)); };
    if (op == "push_mv") {
        E t = x();
        c.push_back(std::move(t));
        return "ok" + arg(t);
    }
    if (op == "emplace_back_mv") {
        E t = x();
        c.emplace_back(std::move(t));
        return "ok" + arg(t);
    }
    if (op == "insert_mv") {
        E t    = x();
        auto r = it_off(c.insert(pos(), std::move(t)));
        return r + arg(t);
    }
    if (op == "emplace_mv") {
        E t    = x();
        auto r = it_off(c.emplace(pos(), std::move(t)));
        return r + arg(t);
    }
    handled = false;
    return "";
}

// object-level operations shared by the sequence containers and the stacks
template <typename C, typename E>
static auto object_op(Slot<C>* s, Line const& l, bool& handled) -> std::string
{
    handled        = true;
    auto const& op = l.op;
    auto k         = obj_of(l);
    if (op == "copy_ctor") {
        C const& src = *s[other_of(l)];
        s[k].make(src);
        return "ok";
    }
    if (op == "move_ctor") {
        s[k].make(std::move(*s[other_of(l)]));
        return "ok";
    }
    if (op == "copy_assign") {
        if constexpr (std::is_copy_assignable_v<C>) {
            C const& src = *s[other_of(l)];
            *s[k]        = src;
            return "ok";
        } else {
            return "n/a";
        }
    }
    if (op == "move_assign") {
        if constexpr (std::is_move_assignable_v<C>) {
            C& src = *s[other_of(l)];
            *s[k]  = std::move(src);
            return "ok";
        } else {
            return "n/a";
        }
    }
    if (op == "swap") {
        s[k]->swap(*s[other_of(l)]);
        return "ok";
    }
    if (op == "swap_free") {
        swap(*s[k], *s[other_of(l)]); // ADL
        return "ok";
    }
    if (op == "cmp") {
        C const& a = *s[k];
        C const& b = *s[other_of(l)];
        return rel6(a == b, a != b, a < b, a <= b, a > b, a >= b);
    }
    handled = false;
    return "";
}

template <typename C, typename E>
static auto ctor_op(Slot<C>* s, Line const& l, bool& handled) -> std::string
{
    handled        = true;
    auto const& op = l.op;
    auto k         = obj_of(l);
    if (op == "ctor_n") {
        s[k].make(static_cast<std::size_t>(l.i("n")));
        return "ok";
    }
    if (op == "ctor_n_val") {
        E const v = mk<E>(l.i("x"));
        s[k].make(static_cast<std::size_t>(l.i("n")), v);
        return "ok";
    }
    if (op == "ctor_range") {
        auto src   = mk_list<E>(l.list("xs"));
        E const* f = src.data();
        s[k].make(f, f + src.size());
        return "ok";
    }
    handled = false;
    return "";
}

template <typename E, std::size_t Cap>
struct SvRunner final : Runner {
    using V = etl::static_vector<E, Cap>;
    using R = std::vector<E>;
    Slot<V> a[4];
    Slot<R> b[4];

    template <typename C>
    auto side(Slot<C>* s, Line const& l) -> std::string
    {
        bool h = false;
        auto r = object_op<C, E>(s, l, h);
        if (h) return r;
        r = ctor_op<C, E>(s, l, h);
        if (h) return r;
        r = seq_op<C, E>(*s[obj_of(l)], l, h);
        if (h) return r;
        return "bad-op";
    }
    auto dump_impl() -> std::string
    {
        std::string x;
        for (int i = 0; i < 4; ++i) x += ";" + dump_seq<V, Cap>(*a[i]);
        return x;
    }
    auto step(Line const& l) -> std::string override
    {
        if (!valid_line("sv", l, Cap, a[l.has("obj") && l.i("obj") >= 0 && l.i("obj") < 4 ? obj_of(l) : 0]->size())
            || !spec_valid(l))
            return "invalid\tinvalid";
        track(l);
        auto x = side(a, l);
        // the std object can differ after an operation with an unspecified result (moved-from): an operation
        // that would be invalid on it is not executed and the std column is masked
        if (!valid_line("sv", l, Cap, b[obj_of(l)]->size())) return x + dump_impl() + "\t*";
        auto y = side(b, l);
        if (x == "bad-op") return "bad-op\tbad-op";
        std::string dy;
        for (int i = 0; i < 4; ++i) dy += ";" + dump_seq<R, Cap>(*b[i]);
        return x + dump_impl() + "\t" + y + dy;
    }
};

// ---------------------------------------------------------------- stacks
template <typename S, std::size_t Cap>
static auto dump_stack(S const& s) -> std::string
{
    S copy(s);
    std::vector<long long> d;
    std::string flags;
    auto n = static_cast<std::size_t>(s.size());
    std::string top = "-";
    if (!s.empty()) top = std::to_string(val(s.top()));
    while (!copy.empty()) {
        d.push_back(val(copy.top()));
        copy.pop();
        if (d.size() > Cap + 4) {
            flags += "@runaway";
            break;
        }
    }
    std::reverse(d.begin(), d.end());
    if (d.size() != n) flags += "@size";
    std::string fb = d.empty() ? std::string("-") : std::to_string(d.front()) + "/" + top;
    return "n=" + std::to_string(n) + " e=" + proto::fmt_bool(s.empty()) + " f=" + proto::fmt_bool(n == Cap) + " d="
         + proto::fmt_list(d) + " fb=" + fb + flags;
}

template <typename E, std::size_t Cap>
struct StkRunner final : Runner {
    using V = etl::stack<E, etl::static_vector<E, Cap>>;
    using R = std::stack<E, std::vector<E>>;
    Slot<V> a[4];
    Slot<R> b[4];

    template <typename C>
    auto side(Slot<C>* s, Line const& l) -> std::string
    {
        bool h = false;
        auto r = object_op<C, E>(s, l, h);
        if (h) return r;
        C& c           = *s[obj_of(l)];
        auto const& op = l.op;
        if (op == "push") {
            E const v = mk<E>(l.i("x"));
            c.push(v);
            return "ok";
        }
        if (op == "push_rv") {
            c.push(mk<E>(l.i("x")));
            return "ok";
        }
        if (op == "emplace_back") {
            c.emplace(static_cast<int>(l.i("x")));
            return "ok";
        }
        if (op == "pop") {
            c.pop();
            return "ok";
        }
        if (op == "push_top") {
            c.push(c.top());
            return "ok";
        }
        if (op == "emplace_top") {
            c.emplace(c.top());
            return "ok";
        }
        if (op == "push_mv") {
            E t = mk<E>(l.i("x"));
            c.push(std::move(t));
            return "ok arg=" + std::to_string(val(t));
        }
        if (op == "emplace_back_mv") {
            E t = mk<E>(l.i("x"));
            c.emplace(std::move(t));
            return "ok arg=" + std::to_string(val(t));
        }
        if (op == "dump") return "ok";
        return "bad-op";
    }
    auto step(Line const& l) -> std::string override
    {
        if (!valid_line("stk", l, Cap, a[l.has("obj") && l.i("obj") >= 0 && l.i("obj") < 4 ? obj_of(l) : 0]->size())
            || !spec_valid(l))
            return "invalid\tinvalid";
        track(l);
        auto x = side(a, l);
        std::string dx, dy;
        for (int i = 0; i < 4; ++i) dx += ";" + dump_stack<V, Cap>(*a[i]);
        if (!valid_line("stk", l, Cap, b[obj_of(l)]->size())) return x + dx + "\t*";
        auto y = side(b, l);
        if (x == "bad-op") return "bad-op\tbad-op";
        for (int i = 0; i < 4; ++i) dy += ";" + dump_stack<R, Cap>(*b[i]);
        return x + dx + "\t" + y + dy;
    }
};

// ---------------------------------------------------------------- inplace_vector (reference: std::vector + capacity)
template <typename E, std::size_t Cap>
struct IpvRunner final : Runner {
    using V = etl::inplace_vector<E, Cap>;
    using R = std::vector<E>;
    Slot<V> a[4];
    Slot<R> b[4];

    static auto dump_ipv(V& c) -> std::string
    {
        V const& cc = c;
        std::vector<long long> d;
        std::string flags;
        auto n = cc.size();
        if (n > Cap) {
            // an indeterminate size: do not walk outside the storage
            return "n=" + std::to_string(n) + " e=" + proto::fmt_bool(cc.empty()) + " f=0 d=? fb=?";
        }
        for (auto it = cc.begin(); it != cc.end(); ++it) d.push_back(val(*it));
        if (d.size() != n) flags += "@size";
        for (std::size_t i = 0; i < std::min(n, d.size()); ++i)
            if (val(cc[i]) != d[i] || val(c[i]) != d[i]) flags += "@idx";
        if (V::capacity() != Cap || V::max_size() != Cap) flags += "@cap";
        if (cc.data() != cc.begin()) flags += "@data";
        if (n != 0) {
            auto const* lo = reinterpret_cast<unsigned char const*>(&cc);
            auto const* p  = reinterpret_cast<unsigned char const*>(cc.data());
            if (p < lo || p + Cap * sizeof(E) > lo + sizeof(V)) flags += "@inl";
        }
        std::string fb = "-";
        if (n != 0) {
            fb = std::to_string(val(cc.front())) + "/" + std::to_string(val(cc.back()));
            if (&c.front() != c.begin() || &c.back() != c.end() - 1) flags += "@fbaddr";
        }
        return "n=" + std::to_string(n) + " e=" + proto::fmt_bool(cc.empty()) + " f=" + proto::fmt_bool(n == Cap)
             + " d=" + proto::fmt_list(d) + " fb=" + fb + flags;
    }

    // an object with an indeterminate size must not even be destroyed (the destructor walks `size()` elements)
    ~IpvRunner() override
    {
        for (auto& s : a)
            if (s.p != nullptr && s.p->size() > Cap) s.p = nullptr;
    }
    // objects whose size is indeterminate (> capacity): only size()/empty() can be looked at
    auto dump_poisoned() -> std::string
    {
        std::string dx, dy;
        for (int i = 0; i < 4; ++i) {
            dx += ";" + dump_ipv(*a[i]);
            dy += ";" + dump_seq<R, Cap>(*b[i]);
        }
        return "ok" + dx + "\tok" + dy;
    }
    auto impl(Line const& l) -> std::string
    {
        auto const& op = l.op;
        auto k         = obj_of(l);
        V& c           = *a[k];
        auto ptr       = [&](E* p) -> std::string {
            if (p == nullptr) return "null";
            return "ptr=" + std::to_string(val(*p)) + (p == &c.back() ? "" : "@ptr");
        };
        auto ref = [&](E& r) -> std::string {
            return "ref=" + std::to_string(val(r)) + (&r == &c.back() ? "" : "@ref");
        };
        if (op == "try_push") {
            E const v = mk<E>(l.i("x"));
            return ptr(c.try_push_back(v));
        }
        if (op == "try_push_rv") return ptr(c.try_push_back(mk<E>(l.i("x"))));
        if (op == "try_emplace") return ptr(c.try_emplace_back(static_cast<int>(l.i("x"))));
        if (op == "unchecked_push") {
            E const v = mk<E>(l.i("x"));
            return ref(c.unchecked_push_back(v));
        }
        if (op == "unchecked_push_rv") return ref(c.unchecked_push_back(mk<E>(l.i("x"))));
        if (op == "unchecked_emplace") return ref(c.unchecked_emplace_back(static_cast<int>(l.i("x"))));
        // the argument is an rvalue of an object the caller still owns: on a full vector try_* must leave it alone
        // ([inplace.vector.modifiers]: "Otherwise, there are no effects")
        auto arg = [](E const& t) { return " arg=" + std::to_string(val(t)); };
        if (op == "try_push_mv") {
            E t    = mk<E>(l.i("x"));
            auto r = ptr(c.try_push_back(std::move(t)));
            return r + arg(t);
        }
        if (op == "try_emplace_mv") {
            E t    = mk<E>(l.i("x"));
            auto r = ptr(c.try_emplace_back(std::move(t)));
            return r + arg(t);
        }
        if (op == "unchecked_push_mv") {
            E t    = mk<E>(l.i("x"));
            auto r = ref(c.unchecked_push_back(std::move(t)));
            return r + arg(t);
        }
        if (op == "unchecked_emplace_mv") {
            E t    = mk<E>(l.i("x"));
            auto r = ref(c.unchecked_emplace_back(std::move(t)));
            return r + arg(t);
        }
        auto elem = [&]() -> E const& { return std::as_const(c)[static_cast<std::size_t>(l.i("i"))]; };
        if (op == "try_push_alias") return ptr(c.try_push_back(elem()));
        if (op == "try_emplace_alias") return ptr(c.try_emplace_back(elem()));
        if (op == "unchecked_push_alias") return ref(c.unchecked_push_back(elem()));
        if (op == "unchecked_emplace_alias") return ref(c.unchecked_emplace_back(elem()));
        if (op == "pop") {
            c.pop_back();
            return "ok";
        }
        if (op == "clear") {
            c.clear();
            return "ok";
        }
        if (op == "copy_ctor") {
            V const& src = *a[other_of(l)];
            a[k].make(src);
            return "ok";
        }
        if (op == "move_ctor") {
            a[k].make(std::move(*a[other_of(l)]));
            return "ok";
        }
        if (op == "dump") return "ok";
        return "bad-op";
    }
    auto ref_side(Line const& l) -> std::string
    {
        auto const& op = l.op;
        auto k         = obj_of(l);
        R& c           = *b[k];
        if (op == "try_push" || op == "try_push_rv" || op == "try_emplace") {
            if (c.size() == Cap) return "null";
            c.push_back(mk<E>(l.i("x")));
            return "ptr=" + std::to_string(val(c.back()));
        }
        if (op == "unchecked_push" || op == "unchecked_push_rv" || op == "unchecked_emplace") {
            c.push_back(mk<E>(l.i("x")));
            return "ref=" + std::to_string(val(c.back()));
        }
        if (op == "try_push_mv" || op == "try_emplace_mv" || op == "unchecked_push_mv" || op == "unchecked_emplace_mv") {
            // std::vector + capacity test as stand-in for std::inplace_vector: nothing touches t when full
            E t        = mk<E>(l.i("x"));
            bool tryop = op[0] == 't';
            if (tryop && c.size() == Cap) return "null arg=" + std::to_string(val(t));
            if (op == "try_push_mv" || op == "unchecked_push_mv") c.push_back(std::move(t));
            else c.emplace_back(std::move(t));
            return (tryop ? "ptr=" : "ref=") + std::to_string(val(c.back())) + " arg=" + std::to_string(val(t));
        }
        if (op == "try_push_alias" || op == "try_emplace_alias") {
            if (c.size() == Cap) return "null";
            c.push_back(c[static_cast<std::size_t>(l.i("i"))]);
            return "ptr=" + std::to_string(val(c.back()));
        }
        if (op == "unchecked_push_alias" || op == "unchecked_emplace_alias") {
            c.push_back(c[static_cast<std::size_t>(l.i("i"))]);
            return "ref=" + std::to_string(val(c.back()));
        }
        if (op == "pop") {
            c.pop_back();
            return "ok";
        }
        if (op == "clear") {
            c.clear();
            return "ok";
        }
        if (op == "copy_ctor") {
            R const& src = *b[other_of(l)];
            b[k].make(src);
            return "ok";
        }
        if (op == "move_ctor") {
            b[k].make(std::move(*b[other_of(l)]));
            return "ok";
        }
        if (op == "dump") return "ok";
        return "bad-op";
    }
    auto step(Line const& l) -> std::string override
    {
        for (int i = 0; i < 4; ++i)
            if (a[i]->size() > Cap) return l.op == "dump" ? dump_poisoned() : std::string("invalid\tinvalid");
        if (!valid_line("ipv", l, Cap, a[l.has("obj") && l.i("obj") >= 0 && l.i("obj") < 4 ? obj_of(l) : 0]->size())
            || !spec_valid(l))
            return "invalid\tinvalid";
        track(l);
        auto x = impl(l);
        std::string dx, dy;
        for (int i = 0; i < 4; ++i) dx += ";" + dump_ipv(*a[i]);
        if (!valid_line("ipv", l, Cap, b[obj_of(l)]->size())) return x + dx + "\t*";
        auto y = ref_side(l);
        if (x == "bad-op") return "bad-op\tbad-op";
        for (int i = 0; i < 4; ++i) dy += ";" + dump_seq<R, Cap>(*b[i]);
        return x + dx + "\t" + y + dy;
    }
};

// ---------------------------------------------------------------- static facts
// Does the container type offer the member behind the operation name of the line protocol?  Pure
// compile-time probes (requires-expressions / type traits): nothing is executed.  -1 = unknown name.
template <typename C, typename E>
static auto has_seq_member(std::string const& m) -> int
{
    using P = typename C::const_iterator;
    auto pred = [](E const&) { return true; };
    (void)pred;
    if (m == "push") return requires(C& c, E const& v) { c.push_back(v); };
    if (m == "push_rv") return requires(C& c, E&& v) { c.push_back(std::move(v)); };
    if (m == "emplace_back") return requires(C& c) { c.emplace_back(1); };
    if (m == "pop") return requires(C& c) { c.pop_back(); };
    if (m == "insert") return requires(C& c, P p, E const& v) { c.insert(p, v); };
    if (m == "insert_rv") return requires(C& c, P p, E&& v) { c.insert(p, std::move(v)); };
    if (m == "emplace") return requires(C& c, P p) { c.emplace(p, 1); };
    if (m == "insert_fill") return requires(C& c, P p, std::size_t n, E const& v) { c.insert(p, n, v); };
    if (m == "insert_range") return requires(C& c, P p, E const* f) { c.insert(p, f, f); };
    if (m == "move_insert")
        return requires(C& c, P p, E* f) { c.move_insert(p, f, f); }
            || requires(C& c, P p, E* f) { c.insert(p, std::make_move_iterator(f), std::make_move_iterator(f)); };
    if (m == "erase") return requires(C& c, P p) { c.erase(p); };
    if (m == "erase_range") return requires(C& c, P p) { c.erase(p, p); };
    if (m == "resize") return requires(C& c, std::size_t n) { c.resize(n); };
    if (m == "resize_val") return requires(C& c, std::size_t n, E const& v) { c.resize(n, v); };
    if (m == "assign_fill") return requires(C& c, std::size_t n, E const& v) { c.assign(n, v); };
    if (m == "assign_range") return requires(C& c, E const* f) { c.assign(f, f); };
    if (m == "clear") return requires(C& c) { c.clear(); };
    if (m == "ctor_n") return std::is_constructible_v<C, std::size_t>;
    if (m == "ctor_n_val") return std::is_constructible_v<C, std::size_t, E const&>;
    if (m == "ctor_range") return std::is_constructible_v<C, E const*, E const*>;
    if (m == "copy_ctor") return std::is_copy_constructible_v<C>;
    if (m == "move_ctor") return std::is_move_constructible_v<C>;
    if (m == "copy_assign") return std::is_copy_assignable_v<C>;
    if (m == "move_assign") return std::is_move_assignable_v<C>;
    if (m == "swap") return requires(C& c) { c.swap(c); };
    if (m == "swap_free") return requires(C& c) { swap(c, c); };
    if (m == "erase_val") return requires(C& c, E const& v) { erase(c, v); };
    if (m == "erase_if") return requires(C& c, decltype(pred) q) { erase_if(c, q); };
    if (m == "cmp")
        return requires(C const& c) {
            c == c;
            c != c;
            c < c;
            c <= c;
            c > c;
            c >= c;
        };
    if (m == "try_push") return requires(C& c, E const& v) { c.try_push_back(v); };
    if (m == "try_push_rv") return requires(C& c, E&& v) { c.try_push_back(std::move(v)); };
    if (m == "try_emplace") return requires(C& c) { c.try_emplace_back(1); };
    if (m == "unchecked_push") return requires(C& c, E const& v) { c.unchecked_push_back(v); };
    if (m == "unchecked_push_rv") return requires(C& c, E&& v) { c.unchecked_push_back(std::move(v)); };
    if (m == "unchecked_emplace") return requires(C& c) { c.unchecked_emplace_back(1); };
    // the two push overloads exist as functions of their own ([inplace.vector.overview]: try_push_back(const T&) and
    // try_push_back(T&&), likewise unchecked_push_back): one by-value overload would accept the same calls, but consume an
    // rvalue before the capacity test
    if (m == "try_push_cref_sig") return requires { static_cast<E* (C::*)(E const&)>(&C::try_push_back); };
    if (m == "try_push_rv_sig") return requires { static_cast<E* (C::*)(E&&)>(&C::try_push_back); };
    if (m == "unchecked_push_cref_sig") return requires { static_cast<E& (C::*)(E const&)>(&C::unchecked_push_back); };
    if (m == "unchecked_push_rv_sig") return requires { static_cast<E& (C::*)(E&&)>(&C::unchecked_push_back); };
    if (m == "dump") return requires(C const& c) { c.size(); c.empty(); c.begin(); c.end(); };
    return -1;
}

static char const* const ALL_MEMBERS[] = {"push", "push_rv", "emplace_back", "pop", "insert", "insert_rv", "emplace",
    "insert_fill", "insert_range", "move_insert", "erase", "erase_range", "resize", "resize_val", "assign_fill", "assign_range",
    "clear", "ctor_n", "ctor_n_val", "ctor_range", "copy_ctor", "move_ctor", "copy_assign", "move_assign", "swap", "swap_free",
    "erase_val", "erase_if", "cmp", "try_push", "try_push_rv", "try_emplace", "unchecked_push", "unchecked_push_rv",
    "unchecked_emplace", "try_push_cref_sig", "try_push_rv_sig", "unchecked_push_cref_sig", "unchecked_push_rv_sig", "dump"};

template <typename C, typename E>
static auto has_stack_member(std::string const& m) -> int
{
    if (m == "push") return requires(C& c, E const& v) { c.push(v); };
    if (m == "push_rv") return requires(C& c, E&& v) { c.push(std::move(v)); };
    if (m == "emplace_back") return requires(C& c) { c.emplace(1); };
    if (m == "pop") return requires(C& c) { c.pop(); };
    if (m == "copy_ctor") return std::is_copy_constructible_v<C>;
    if (m == "move_ctor") return std::is_move_constructible_v<C>;
    if (m == "copy_assign") return std::is_copy_assignable_v<C>;
    if (m == "move_assign") return std::is_move_assignable_v<C>;
    if (m == "swap") return requires(C& c) { c.swap(c); };
    if (m == "swap_free") return requires(C& c) { swap(c, c); };
    if (m == "cmp")
        return requires(C const& c) {
            c == c;
            c != c;
            c < c;
            c <= c;
            c > c;
            c >= c;
        };
    if (m == "dump") return requires(C const& c) { c.size(); c.empty(); c.top(); };
    // a container adaptor offers none of the sequence members
    if (m == "insert_fill") return requires(C& c, std::size_t n, E const& v) { c.insert(nullptr, n, v); };
    if (m == "resize") return requires(C& c, std::size_t n) { c.resize(n); };
    if (m == "clear") return requires(C& c) { c.clear(); };
    for (auto const* k : ALL_MEMBERS)
        if (m == k) return 0;
    return -1;
}

template <typename T>
struct is_stack_type : std::false_type { };
template <typename E, typename Q>
struct is_stack_type<std::stack<E, Q>> : std::true_type { };
template <typename E, typename Q>
struct is_stack_type<etl::stack<E, Q>> : std::true_type { };

// `api_member ty=… cap=… kind=… member=<op name>`: impl = the tetl type, reference = the std type.  libstdc++ 12
// has no std::inplace_vector: its reference is std::vector for the common members and the synopsis of
// [inplace.vector] (try_* / unchecked_* exist) for the rest.
template <typename V, typename R, typename E>
static auto api_member(Line const& l, bool ipv) -> std::string
{
    auto m = l.str("member");
    int a = 0, b = 0;
    if constexpr (is_stack_type<V>::value) {
        a = has_stack_member<V, E>(m);
        b = has_stack_member<R, E>(m);
    } else {
        a = has_seq_member<V, E>(m);
        b = has_seq_member<R, E>(m);
        if (ipv && (m.rfind("try_", 0) == 0 || m.rfind("unchecked_", 0) == 0)) b = 1;
    }
    if (a < 0 || b < 0) return "bad-op\tbad-op";
    return "has=" + std::to_string(a) + "\thas=" + std::to_string(b);
}

// "smallest unsigned integer type that can represent values in the range [0, N]", from the limits of the fixed-width types
template <unsigned long long N>
static constexpr auto min_bits() -> int
{
    if (N <= std::numeric_limits<std::uint8_t>::max()) return 8;
    if (N <= std::numeric_limits<std::uint16_t>::max()) return 16;
    if (N <= std::numeric_limits<std::uint32_t>::max()) return 32;
    return 64;
}

// `api_width cap=N`: smallest_size_t<N> alone, also for N far beyond any container the harness instantiates
#define C01_WIDTHS(X)                                                                                                  \
    X(0ULL) X(1ULL) X(254ULL) X(255ULL) X(256ULL) X(65534ULL) X(65535ULL) X(65536ULL) X(4294967294ULL) X(4294967295ULL)      \
    X(4294967296ULL) X(9223372036854775807ULL)
static auto api_width(Line const& l) -> std::string
{
    auto cap = static_cast<unsigned long long>(l.i("cap"));
#define X(N)                                                                                                           \
    if (cap == (N))                                                                                                    \
        return "bits=" + std::to_string(sizeof(etl::smallest_size_t<N>) * CHAR_BIT) + "\tbits="                        \
             + std::to_string(min_bits<N>());
    C01_WIDTHS(X)
#undef X
    return "bad-op\tbad-op";
}

// `api_abi`: the widths of the types the size-type chain names (the model's table CTy.bits)
static auto api_abi() -> std::string
{
    auto b = [](std::size_t n) { return std::to_string(n * CHAR_BIT); };
    auto s = "uchar=" + b(sizeof(unsigned char)) + " ushort=" + b(sizeof(unsigned short)) + " uint=" + b(sizeof(unsigned int))
           + " ulong=" + b(sizeof(unsigned long)) + " ulonglong=" + b(sizeof(unsigned long long));
    return s + "\t" + s;
}

template <typename V, typename R, std::size_t Cap>
static auto api(Line const& l) -> std::string
{
    if (l.op == "api_member") {
        using E = typename R::value_type;
        return api_member<V, R, E>(l, std::is_same_v<V, etl::inplace_vector<E, Cap>>);
    }
    if (l.op == "api_bits") {
        return "bits=" + std::to_string(sizeof(etl::smallest_size_t<Cap>) * CHAR_BIT) + "\tbits="
             + std::to_string(min_bits<Cap>());
    }
    auto f = [](bool c, bool m) {
        return std::string("copy_assign=") + proto::fmt_bool(c) + " move_assign=" + proto::fmt_bool(m);
    };
    return f(std::is_copy_assignable_v<V>, std::is_move_assignable_v<V>) + "\t"
         + f(std::is_copy_assignable_v<R>, std::is_move_assignable_v<R>);
}

// ---------------------------------------------------------------- instantiation table
#ifndef C01_CAPS
    #define C01_CAPS(X) X(0) X(1) X(2) X(3) X(4) X(7) X(254) X(255) X(256)
#endif
#ifndef C01_STK_CAPS
    #define C01_STK_CAPS(X) X(0) X(1) X(3) X(4)
#endif

template <typename E, std::size_t N>
static void set_init(bool v)
{
    Slot<etl::static_vector<E, N>>::value_init                 = v;
    Slot<etl::inplace_vector<E, N>>::value_init                = v;
    Slot<etl::stack<E, etl::static_vector<E, N>>>::value_init = v;
}

template <typename E>
static auto make(std::string const& ty, std::size_t cap, bool value_init) -> std::unique_ptr<Runner>
{
#define X(N) if (cap == (N)) set_init<E, N>(value_init);
    C01_CAPS(X)
#undef X
#define X(N)                                                                                                           \
    if (cap == (N) && ty == "sv") return std::make_unique<SvRunner<E, N>>();                                           \
    if (cap == (N) && ty == "ipv") return std::make_unique<IpvRunner<E, N>>();
    C01_CAPS(X)
#undef X
#define X(N)                                                                                                           \
    if (cap == (N) && ty == "stk") return std::make_unique<StkRunner<E, N>>();
    C01_STK_CAPS(X)
#undef X
    return nullptr;
}

// the handle kind: static_vector only (the remove_if / erase / rotate based members), small capacities
#ifndef C01_HD_CAPS
    #define C01_HD_CAPS(X) X(0) X(1) X(2) X(3) X(4) X(7)
#endif
static auto make_hd(std::string const& ty, std::size_t cap, bool value_init) -> std::unique_ptr<Runner>
{
    if (ty != "sv") return nullptr;
#define X(N)                                                                                                           \
    if (cap == (N)) {                                                                                                  \
        Slot<etl::static_vector<HD, N>>::value_init = value_init;                                                      \
        return std::make_unique<SvRunner<HD, N>>();                                                                    \
    }
    C01_HD_CAPS(X)
#undef X
    return nullptr;
}

// the key/payload kind: static_vector and the stack over it (the relational operators), small capacities
#ifndef C01_KP_CAPS
    #define C01_KP_CAPS(X) X(0) X(1) X(2) X(3) X(4)
#endif
#ifndef C01_KP_STK_CAPS
    #define C01_KP_STK_CAPS(X) X(1) X(3)
#endif
static auto make_kp(std::string const& ty, std::size_t cap, bool value_init) -> std::unique_ptr<Runner>
{
#define X(N)                                                                                                           \
    if (ty == "sv" && cap == (N)) {                                                                                    \
        Slot<etl::static_vector<KP, N>>::value_init = value_init;                                                      \
        return std::make_unique<SvRunner<KP, N>>();                                                                    \
    }
    C01_KP_CAPS(X)
#undef X
#define X(N)                                                                                                           \
    if (ty == "stk" && cap == (N)) {                                                                                   \
        Slot<etl::stack<KP, etl::static_vector<KP, N>>>::value_init = value_init;                                      \
        return std::make_unique<StkRunner<KP, N>>();                                                                   \
    }
    C01_KP_STK_CAPS(X)
#undef X
    return nullptr;
}

template <typename E>
static auto api_for(Line const& l, std::string const& ty, std::size_t cap) -> std::string
{
#define X(N)                                                                                                           \
    if (cap == (N) && ty == "sv") return api<etl::static_vector<E, N>, std::vector<E>, N>(l);                          \
    if (cap == (N) && ty == "ipv") return api<etl::inplace_vector<E, N>, std::vector<E>, N>(l);                        \
    if (cap == (N) && ty == "stk")                                                                                     \
        return api<etl::stack<E, etl::static_vector<E, N>>, std::stack<E, std::vector<E>>, N>(l);
    C01_CAPS(X)
#undef X
    return "bad-op\tbad-op";
}

static std::unique_ptr<Runner> g_runner;

static auto step(Line const& l) -> std::string
{
    // watchdog: a single operation that runs away (e.g. a loop whose bound no longer matches a truncated
    // size) ends the process; check.py reports the line as a crash instead of hanging.  Wall-clock seconds:
    // generous, the machine may be heavily loaded
    alarm(20);
    if (l.op == "api_width") return api_width(l);
    if (l.op == "api_abi") return api_abi();
    if (l.op == "new" || l.op == "api_bits" || l.op == "api_assign" || l.op == "api_member") {
        auto ty   = l.str("ty");
        auto cap  = static_cast<std::size_t>(l.i("cap"));
        auto kind = l.str("kind");
        if (kind != "int" && kind != "nt" && kind != "hd" && kind != "kp") return "bad-op\tbad-op";
        if (l.op != "new") {
            if (kind == "hd" || kind == "kp") return "bad-op\tbad-op";
            return kind == "nt" ? api_for<NT>(l, ty, cap) : api_for<int>(l, ty, cap);
        }
        g_runner.reset();
        bool vi  = l.has("init") ? l.str("init") == "value" : true;
        g_runner = kind == "kp" ? make_kp(ty, cap, vi) : kind == "hd" ? make_hd(ty, cap, vi) : kind == "nt" ? make<NT>(ty, cap, vi) : make<int>(ty, cap, vi);
        if (!g_runner) return "bad-op\tbad-op";
        Line d;
        d.op   = "dump";
        auto r = g_runner->step(d);
        // "ok;…\tok;…" -> "new;…\tnew;…"
        auto tab = r.find('\t');
        return "new" + r.substr(2, tab - 2) + "\tnew" + r.substr(tab + 3);
    }
    if (!g_runner) return "bad-op\tbad-op";
    return g_runner->step(l);
}

int main(int argc, char** argv)
{
    int rc = proto::run(argc, argv, step);
    alarm(0); // all lines answered: the watchdog must not fire during teardown / the leak check at exit
    g_runner.reset();
    return rc;
}
