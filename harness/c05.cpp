// C05 harness: contract checks.  Built twice from $VERIF_REPO/include (DESIGN §4 C05):
//   -DTETL_ENABLE_CONTRACT_CHECKS=1       and      -DTETL_ENABLE_CONTRACT_CHECKS_SAFE=1
// always with TETL_ENABLE_CUSTOM_ASSERT_HANDLER: the handler below snapshots the object under test, writes
// `file:line` and the snapshot to a pipe and _exit(42).  EVERY case line runs in a forked child; the parent
// prints
//     assert(<file relative to include/etl>:<line>) same=<snapshot == pre-state>     the handler ran
//     ok r=[result] e=[object afterwards]                                            the call returned
//     ub(<kind>)                                                                     a sanitizer report / crash came first
// and, as second column, an oracle computed WITHOUT tetl from the documented precondition and a std container:
//     assert     |     ok r=[..] e=[..]
#if !defined(TETL_ENABLE_CONTRACT_CHECKS) && !defined(TETL_ENABLE_CONTRACT_CHECKS_SAFE)
    #error "build with -DTETL_ENABLE_CONTRACT_CHECKS=1 or -DTETL_ENABLE_CONTRACT_CHECKS_SAFE=1"
#endif
#define TETL_ENABLE_CUSTOM_ASSERT_HANDLER 1
#include "proto.hpp"

#include <etl/array.hpp>
#include <etl/bit.hpp>
#include <etl/bitset.hpp>
#include <etl/chrono.hpp>
#include <etl/cstring.hpp>
#include <etl/cwchar.hpp>
#include <etl/expected.hpp>
#include <etl/inplace_vector.hpp>
#include <etl/linalg.hpp>
#include <etl/mdspan.hpp>
#include <etl/numeric.hpp>
#include <etl/optional.hpp>
#include <etl/set.hpp>
#include <etl/span.hpp>
#include <etl/string.hpp>
#include <etl/string_view.hpp>
#include <etl/variant.hpp>
#include <etl/vector.hpp>

#include <algorithm>
#include <bitset>
#include <functional>
#include <limits>
#include <stdexcept>
#include <sys/wait.h>
#include <unistd.h>

using proto::Line;
using LL  = long long;
using Vec = std::vector<LL>;

// ---------------------------------------------------------------- handler + fork machinery
static int g_pipe = -1;
static std::function<std::string()> g_snap;
// valid calls that bring the object into its pre-state (hist=...): run in the child, before the pre-state snapshot, so that a
// (mutated) library whose valid call fires the handler is reported for this case line instead of killing the harness
static std::function<void()> g_setup;

namespace etl {
template <typename Assertion>
[[noreturn]] auto assert_handler(Assertion const& msg) -> void
{
    std::string s = g_snap ? g_snap() : std::string("-");
    std::string f = msg.file ? msg.file : "?";
    auto p        = f.find("include/etl/");
    if (p != std::string::npos) f = f.substr(p + 12);
    std::string o = "A " + f + ":" + std::to_string(msg.line) + " " + s + "\n";
    if (g_pipe >= 0) { (void)!::write(g_pipe, o.data(), o.size()); }
    ::_exit(42);
}
} // namespace etl

static std::string fmt(Vec const& v) { return proto::fmt_list(v); }
static std::string okstr(Vec const& r, Vec const& e) { return "ok r=" + fmt(r) + " e=" + fmt(e); }

static std::string read_all(int fd)
{
    std::string s;
    char buf[4096];
    for (;;) {
        auto n = ::read(fd, buf, sizeof buf);
        if (n <= 0) break;
        s.append(buf, static_cast<std::size_t>(n));
    }
    return s;
}

static std::string san_kind(std::string const& err, int status)
{
    auto p = err.find("ERROR: AddressSanitizer: ");
    if (p != std::string::npos) {
        auto q = err.find_first_of(" \n", p + 25);
        return "ub(asan:" + err.substr(p + 25, q - (p + 25)) + ")";
    }
    p = err.find("runtime error: ");
    if (p != std::string::npos) {
        auto q        = err.find('\n', p);
        std::string m = err.substr(p + 15, q - (p + 15));
        std::string r;
        bool num = false;
        for (char ch : m) { // digits -> N, blanks -> _
            if (std::isdigit(static_cast<unsigned char>(ch))) {
                if (!num) r += 'N';
                num = true;
            } else {
                num = false;
                r += (ch == ' ' ? '_' : ch);
            }
        }
        return "ub(ubsan:" + r.substr(0, 60) + ")";
    }
    if (WIFSIGNALED(status)) return "ub(signal:" + std::to_string(WTERMSIG(status)) + ")";
    return "ub(exit:" + std::to_string(WIFEXITED(status) ? WEXITSTATUS(status) : -1) + ")";
}

// `snap`: canonical text of the object under test (callable in the handler); `body`: the call, returns the ok-line.
static int g_timeouts = 0;
static std::string in_child(std::function<std::string()> snap, std::function<std::string()> body)
{
    std::string pre;
    int p[2], q[2];
    if (::pipe(p) != 0 || ::pipe(q) != 0) { std::perror("pipe"); std::exit(2); }
    std::fflush(stdout);
    pid_t pid = ::fork();
    if (pid < 0) { std::perror("fork"); std::exit(2); }
    if (pid == 0) {
        // a call that never returns (e.g. a loop running on a corrupted size) ends as ub(signal:14); after a few of
        // them the budget per call drops to one second so that a tree on which every unchecked call hangs still ends
        ::alarm(g_timeouts < 8 ? 10 : 1);
        ::close(p[0]);
        ::close(q[0]);
        ::dup2(q[1], 2);
        g_pipe = p[1];
        g_snap = snap;
        if (g_setup) g_setup();
        std::string ps = "P " + (snap ? snap() : std::string("-")) + "\n";
        (void)!::write(p[1], ps.data(), ps.size());
        std::string r = body() + "\n";
        (void)!::write(p[1], r.data(), r.size());
        ::_exit(0);
    }
    ::close(p[1]);
    ::close(q[1]);
    std::string out = read_all(p[0]);
    std::string err = read_all(q[0]);
    ::close(p[0]);
    ::close(q[0]);
    int status = 0;
    ::waitpid(pid, &status, 0);
    if (WIFSIGNALED(status) && WTERMSIG(status) == SIGALRM) ++g_timeouts;
    if (out.rfind("P ", 0) == 0) { // the pre-state snapshot taken in the child after the setup calls
        auto nl = out.find('\n');
        pre     = out.substr(2, nl == std::string::npos ? std::string::npos : nl - 2);
        out     = nl == std::string::npos ? std::string() : out.substr(nl + 1);
    } else pre = "<setup did not finish>";
    if (!out.empty() && out.back() == '\n') out.pop_back();
    if (WIFEXITED(status) && WEXITSTATUS(status) == 42 && out.rfind("A ", 0) == 0) {
        auto sp          = out.find(' ', 2);
        std::string site = out.substr(2, sp - 2);
        std::string st   = sp == std::string::npos ? "" : out.substr(sp + 1);
        bool sanitizer   = err.find("Sanitizer") != std::string::npos || err.find("runtime error") != std::string::npos;
        if (sanitizer) return san_kind(err, status) + "+assert(" + site + ")";
        return "assert(" + site + ") same=" + (st == pre ? "1" : "0");
    }
    if (WIFEXITED(status) && WEXITSTATUS(status) == 0) return out;
    return san_kind(err, status);
}

// ---------------------------------------------------------------- helpers
struct NT { // non-trivial element
    int v;
    NT() noexcept : v(0) { }
    NT(int x) noexcept : v(x) { }
    NT(NT const& o) noexcept : v(o.v) { }
    NT(NT&& o) noexcept : v(o.v) { }
    auto operator=(NT const& o) noexcept -> NT& { v = o.v; return *this; }
    auto operator=(NT&& o) noexcept -> NT& { v = o.v; return *this; }
    ~NT() { v = -77; }
    operator int() const { return v; }
};

template <typename C>
static Vec contents(C const& c, std::size_t cap)
{
    Vec r;
    std::size_t n = std::min<std::size_t>(c.size(), cap);
    for (std::size_t k = 0; k < n; ++k) r.push_back(static_cast<LL>(static_cast<int>(c.data()[k])));
    if (c.size() > cap) r.push_back(-999999); // size field beyond the capacity: corrupted
    return r;
}

static std::size_t SZ(Line const& l, char const* k) { return l.pos(k); }
static Vec LST(Line const& l, char const* k) { return l.has(k) ? l.list(k) : Vec{}; }
static std::string both(std::string const& a, std::string const& b) { return a + "\t" + b; }
static std::string const ASSERT = "assert";

// ---------------------------------------------------------------- members behind the public interface
// The inner check sites (unsafe_set_size, unsafe_destroy) are implied by the outer documented preconditions and cannot be
// reached with a violating argument through the public members.  They are driven directly:
//  * the protected members of the static_vector storage classes through a derived class that re-exports them;
//  * the private `unsafe_set_size` of inplace_vector / basic_inplace_string through a member pointer obtained in an
//    explicit template instantiation (access checking does not apply to the arguments of an explicit instantiation,
//    [temp.spec]/6) - no edit of the library, no -fno-access-control.
template <typename Tag, auto M>
struct Rob {
    friend auto rob_get(Tag) { return M; }
};
#pragma GCC diagnostic push
#pragma GCC diagnostic ignored "-Wnon-template-friend"
template <std::size_t Cap>
struct IvSetSize {
    friend auto rob_get(IvSetSize);
};
template <std::size_t Cap>
struct StrSetSize {
    friend auto rob_get(StrSetSize);
};
#pragma GCC diagnostic pop
template struct Rob<IvSetSize<1>, &etl::inplace_vector<int, 1>::unsafe_set_size>;
template struct Rob<IvSetSize<3>, &etl::inplace_vector<int, 3>::unsafe_set_size>;
template struct Rob<IvSetSize<4>, &etl::inplace_vector<int, 4>::unsafe_set_size>;
template struct Rob<StrSetSize<4>, &etl::inplace_string<4>::unsafe_set_size>;
template struct Rob<StrSetSize<20>, &etl::inplace_string<20>::unsafe_set_size>;

template <typename T, std::size_t Cap>
struct OpenStorage : etl::detail::static_vector_storage_type<T, Cap> {
    using base = etl::detail::static_vector_storage_type<T, Cap>;
    using base::unsafe_destroy;
    using base::unsafe_set_size;
};

// sv.unsafe_set_size / sv.unsafe_destroy on the storage base of static_vector<T, Cap>
template <typename T, std::size_t Cap>
static std::string sv_unsafe(Line const& l)
{
    using V        = OpenStorage<T, Cap>;
    Vec const e    = LST(l, "e");
    auto const& op = l.op;
    auto* v        = new V();
    if constexpr (Cap != 0) {
        for (auto x : e) v->emplace_back(T(static_cast<int>(x)));
    }
    auto state = [v] {
        Vec r;
        std::size_t n = std::min<std::size_t>(v->size(), Cap);
        for (std::size_t k = 0; k < n; ++k) r.push_back(static_cast<LL>(static_cast<int>(v->data()[k])));
        if (v->size() > Cap) r.push_back(-999999);
        return r;
    };
    auto snap = [state] { return fmt(state()); };
    std::string impl, oracle;
    if (op == "sv.unsafe_set_size") {
        std::size_t n = SZ(l, "n");
        impl   = in_child(snap, [&] { v->unsafe_set_size(n); return okstr({}, state()); });
        oracle = n <= Cap ? okstr({}, Vec(e.begin(), e.begin() + static_cast<LL>(std::min(n, e.size())))) : ASSERT;
    } else if (op == "sv.unsafe_destroy") {
        LL f = l.i("f"), la = l.i("l");
        auto sz = static_cast<LL>(e.size());
        impl = in_child(snap, [&] { v->unsafe_destroy(v->data() + f, v->data() + la); return okstr({}, state()); });
        oracle = (f >= 0 && f <= sz && la >= 0 && la <= sz) ? okstr({}, e) : ASSERT;
    } else {
        delete v;
        return "bad-op\tbad-op";
    }
    delete v;
    return both(impl, oracle);
}

// ---------------------------------------------------------------- static_vector
template <typename T, std::size_t Cap>
static std::string sv_ops(Line const& l)
{
    using V        = etl::static_vector<T, Cap>;
    Vec const e    = LST(l, "e");
    auto const& op = l.op;
    auto* v        = new V();
    for (auto x : e) v->push_back(T(static_cast<int>(x)));
    // hist=1..3: the same abstract state reached through insert/erase, pop/push, resize up and down (valid calls only)
    if constexpr (Cap != 0) {
        int const hist = static_cast<int>(l.i("hist", 0));
        g_setup = [v, hist, n0 = e.size()] {
            if (hist == 1 && n0 < Cap) { v->insert(v->begin(), T(77)); v->erase(v->begin()); }
            if (hist == 2 && n0 != 0) { T last = v->back(); v->pop_back(); v->emplace_back(last); }
            if (hist == 3) { v->resize(Cap); v->resize(n0); }
        };
    }
    V const* cv = v;
    auto snap   = [v] { return fmt(contents(*v, Cap)); };
    int const k = static_cast<int>(l.i("k", 0));
    T const val = T(static_cast<int>(l.i("v", 0)));
    LL const p  = l.i("p", 0);
    Vec xs      = LST(l, "xs");
    bool ord    = l.i("ord", 1) != 0;
    std::vector<T> src;
    for (auto x : xs) src.push_back(T(static_cast<int>(x)));
    T* sf = src.data();
    T* sl = src.data() + src.size();
    if (!ord) std::swap(sf, sl);
    Vec ref = e;
    auto sz = static_cast<LL>(e.size());
    auto done = [&](std::function<Vec()> f) {
        return in_child(snap, [&] { Vec r = f(); return okstr(r, contents(*v, Cap)); });
    };
    auto pos_ok = [&](LL q) { return q >= 0 && q <= sz; };
    std::string impl, oracle;
    if (op == "sv.at") {
        std::size_t i = SZ(l, "i");
        impl   = done([&] { return Vec{k ? static_cast<int>((*cv)[i]) : static_cast<int>((*v)[i])}; });
        oracle = i < e.size() ? okstr({e[i]}, e) : ASSERT;
    } else if (op == "sv.front") {
        impl   = done([&] { return Vec{k ? static_cast<int>(cv->front()) : static_cast<int>(v->front())}; });
        oracle = !e.empty() ? okstr({e.front()}, e) : ASSERT;
    } else if (op == "sv.back") {
        impl   = done([&] { return Vec{k ? static_cast<int>(cv->back()) : static_cast<int>(v->back())}; });
        oracle = !e.empty() ? okstr({e.back()}, e) : ASSERT;
    } else if (op == "sv.push" || op == "sv.emplace_back") {
        impl = done([&] {
            if (op == "sv.push") v->push_back(val); else v->emplace_back(val);
            return Vec{};
        });
        ref.push_back(static_cast<int>(val));
        oracle = e.size() < Cap ? okstr({}, ref) : ASSERT;
    } else if (op == "sv.pop") {
        impl = done([&] { v->pop_back(); return Vec{}; });
        if (!ref.empty()) ref.pop_back();
        oracle = !e.empty() ? okstr({}, ref) : ASSERT;
    } else if (op == "sv.insert_n") {
        std::size_t n = SZ(l, "n");
        impl = done([&] { auto it = v->insert(v->begin() + p, n, val); return Vec{static_cast<LL>(it - v->begin())}; });
        if (pos_ok(p) && n <= Cap - e.size()) {
            ref.insert(ref.begin() + p, n, static_cast<int>(val));
            oracle = okstr({p}, ref);
        } else oracle = ASSERT;
    } else if (op == "sv.insert_cr" || op == "sv.insert_mv" || op == "sv.emplace") {
        impl = done([&] {
            typename V::iterator it;
            if (op == "sv.insert_cr") it = v->insert(v->begin() + p, val);
            else if (op == "sv.insert_mv") { T tmp = val; it = v->insert(v->begin() + p, std::move(tmp)); }
            else it = v->emplace(v->begin() + p, static_cast<int>(val));
            return Vec{static_cast<LL>(it - v->begin())};
        });
        if (pos_ok(p) && e.size() < Cap) {
            ref.insert(ref.begin() + p, static_cast<int>(val));
            oracle = okstr({p}, ref);
        } else oracle = ASSERT;
    } else if (op == "sv.insert_rng") {
        impl = done([&] { auto it = v->insert(v->begin() + p, sf, sl); return Vec{static_cast<LL>(it - v->begin())}; });
        if (pos_ok(p) && ord && e.size() + xs.size() <= Cap) {
            ref.insert(ref.begin() + p, xs.begin(), xs.end());
            oracle = okstr({p}, ref);
        } else oracle = ASSERT;
    } else if (op == "sv.move_insert") { // the public member move_insert(position, first, last) with a pointer range
        impl = done([&] { auto it = v->move_insert(v->begin() + p, sf, sl); return Vec{static_cast<LL>(it - v->begin())}; });
        if (pos_ok(p) && ord && e.size() + xs.size() <= Cap) {
            ref.insert(ref.begin() + p, xs.begin(), xs.end());
            oracle = okstr({p}, ref);
        } else oracle = ASSERT;
    } else if (op == "sv.erase") {
        impl = done([&] { auto it = v->erase(v->begin() + p); return Vec{static_cast<LL>(it - v->begin())}; });
        if (p >= 0 && p < sz) {
            ref.erase(ref.begin() + p);
            oracle = okstr({p}, ref);
        } else oracle = ASSERT;
    } else if (op == "sv.erase_rng") {
        LL f = l.i("f"), la = l.i("l");
        impl = done([&] { auto it = v->erase(v->begin() + f, v->begin() + la); return Vec{static_cast<LL>(it - v->begin())}; });
        if (f >= 0 && f <= la && la <= sz) {
            ref.erase(ref.begin() + f, ref.begin() + la);
            oracle = okstr({f}, ref);
        } else oracle = ASSERT;
    } else if (op == "sv.resize" || op == "sv.resize_v") {
        std::size_t n = SZ(l, "n");
        impl = done([&] { if (op == "sv.resize") v->resize(n); else v->resize(n, val); return Vec{}; });
        if (n <= Cap) {
            ref.resize(n, op == "sv.resize" ? 0 : static_cast<int>(val));
            oracle = okstr({}, ref);
        } else oracle = ASSERT;
    } else if (op == "sv.assign_n") {
        std::size_t n = SZ(l, "n");
        impl = done([&] { v->assign(n, val); return Vec{}; });
        if (n <= Cap) { ref.assign(n, static_cast<int>(val)); oracle = okstr({}, ref); } else oracle = ASSERT;
    } else if (op == "sv.assign_rng") {
        impl = done([&] { v->assign(sf, sl); return Vec{}; });
        if (ord && xs.size() <= Cap) { ref = xs; oracle = okstr({}, ref); } else oracle = ASSERT;
    } else if (op == "sv.clear") {
        impl   = done([&] { v->clear(); return Vec{}; });
        oracle = okstr({}, {});
    } else if (op == "sv.ctor_n" || op == "sv.ctor_nv" || op == "sv.ctor_rng") {
        // a fresh object is constructed in the child; there is no pre-state to snapshot
        std::size_t n = l.has("n") ? SZ(l, "n") : 0;
        impl = in_child(nullptr, [&] {
            V* w = nullptr;
            if (op == "sv.ctor_n") w = new V(n);
            else if (op == "sv.ctor_nv") w = new V(n, val);
            else w = new V(sf, sl);
            return okstr({}, contents(*w, Cap));
        });
        if (op == "sv.ctor_rng") oracle = (ord && xs.size() <= Cap) ? okstr({}, xs) : ASSERT;
        else oracle = n <= Cap ? okstr({}, Vec(n, op == "sv.ctor_n" ? 0 : static_cast<int>(val))) : ASSERT;
    } else {
        delete v;
        return "bad-op\tbad-op";
    }
    delete v;
    return both(impl, oracle);
}

// ---------------------------------------------------------------- inplace_vector
template <std::size_t Cap>
static std::string iv_ops(Line const& l)
{
    using V        = etl::inplace_vector<int, Cap>;
    Vec const e    = LST(l, "e");
    auto const& op = l.op;
    auto* v        = new V();
    for (auto x : e) v->try_push_back(static_cast<int>(x));
    if constexpr (Cap != 0) { // hist=1,2: the same abstract state reached through push/pop
        int const hist = static_cast<int>(l.i("hist", 0));
        g_setup = [v, hist, n0 = e.size()] {
            if (hist == 1 && n0 < Cap) { v->unchecked_push_back(77); v->pop_back(); }
            if (hist == 2 && n0 != 0) { int last = v->back(); v->pop_back(); v->unchecked_emplace_back(last); }
        };
    }
    V const* cv = v;
    auto snap   = [v] { return fmt(contents(*v, Cap)); };
    int const k = static_cast<int>(l.i("k", 0));
    int val     = static_cast<int>(l.i("v", 0));
    Vec ref     = e;
    auto done   = [&](std::function<Vec()> f) {
        return in_child(snap, [&] { Vec r = f(); return okstr(r, contents(*v, Cap)); });
    };
    std::string impl, oracle;
    if (op == "iv.at") {
        std::size_t i = SZ(l, "i");
        impl   = done([&] { return Vec{k ? (*cv)[i] : (*v)[i]}; });
        oracle = i < e.size() ? okstr({e[i]}, e) : ASSERT;
    } else if (op == "iv.front") {
        impl   = done([&] { return Vec{k ? cv->front() : v->front()}; });
        oracle = !e.empty() ? okstr({e.front()}, e) : ASSERT;
    } else if (op == "iv.back") {
        impl   = done([&] { return Vec{k ? cv->back() : v->back()}; });
        oracle = !e.empty() ? okstr({e.back()}, e) : ASSERT;
    } else if (op == "iv.emplace_back" || op == "iv.push") {
        impl = done([&] {
            int r = 0;
            if (op == "iv.emplace_back") r = v->unchecked_emplace_back(val);
            else if (k == 0) r = v->unchecked_push_back(static_cast<int const&>(val));
            else r = v->unchecked_push_back(std::move(val));
            return Vec{r};
        });
        ref.push_back(val);
        oracle = e.size() < Cap ? okstr({val}, ref) : ASSERT;
    } else if (op == "iv.pop") {
        impl = done([&] { v->pop_back(); return Vec{}; });
        if (!ref.empty()) ref.pop_back();
        oracle = !e.empty() ? okstr({}, ref) : ASSERT;
    } else if (op == "iv.unsafe_set_size") { // the private member, see Rob
        std::size_t n = SZ(l, "n");
        if constexpr (Cap != 0) { // inplace_vector<T, 0> has no size field
            impl = done([&] { (v->*rob_get(IvSetSize<Cap>{}))(n); return Vec{}; });
        } else return "bad-op\tbad-op";
        oracle = n <= Cap ? okstr({}, Vec(e.begin(), e.begin() + static_cast<LL>(std::min(n, e.size())))) : ASSERT;
    } else {
        delete v;
        return "bad-op\tbad-op";
    }
    delete v;
    return both(impl, oracle);
}

// calls f(integral_constant<size_t, I>) for the I < Max that equals v
template <std::size_t Max, typename F>
static bool with_const(std::size_t v, F&& f)
{
    return [&]<std::size_t... I>(std::index_sequence<I...>) {
        return ((v == I ? (f(std::integral_constant<std::size_t, I>{}), true) : false) || ...);
    }(std::make_index_sequence<Max>{});
}

// ---------------------------------------------------------------- string_view / span / array
static std::string view_ops(Line const& l)
{
    Vec const e    = LST(l, "e");
    auto const& op = l.op;
    proto::heap_buf<char> hb(e);
    etl::string_view sv(hb.p, hb.n);
    etl::span<char> sp(hb.p, hb.n);
    auto units = [](auto const& r) { Vec o; for (auto ch : r) o.push_back(static_cast<unsigned char>(ch)); return o; };
    auto snap  = [&] { return fmt(units(sv)); };
    auto done  = [&](std::function<Vec()> f) { return in_child(snap, [&] { Vec r = f(); return okstr(r, units(sv)); }); };
    std::size_t const n = e.size();
    std::size_t a = l.has("a") ? SZ(l, "a") : 0, b = l.has("b") ? SZ(l, "b") : 0;
    auto subv = [&](std::size_t off, std::size_t cnt) { return Vec(e.begin() + static_cast<LL>(off), e.begin() + static_cast<LL>(off + cnt)); };
    std::string impl, oracle;
    if (op == "vw.at") { impl = done([&] { return Vec{static_cast<unsigned char>(sv[a])}; }); oracle = a < n ? okstr({e[a]}, e) : ASSERT; }
    else if (op == "vw.front") { impl = done([&] { return Vec{static_cast<unsigned char>(sv.front())}; }); oracle = n ? okstr({e.front()}, e) : ASSERT; }
    else if (op == "vw.back") { impl = done([&] { return Vec{static_cast<unsigned char>(sv.back())}; }); oracle = n ? okstr({e.back()}, e) : ASSERT; }
    else if (op == "vw.remove_prefix") { impl = done([&] { sv.remove_prefix(a); return Vec{}; }); oracle = a <= n ? okstr({}, subv(a, n - a)) : ASSERT; }
    else if (op == "vw.remove_suffix") { impl = done([&] { sv.remove_suffix(a); return Vec{}; }); oracle = a <= n ? okstr({}, subv(0, n - a)) : ASSERT; }
    else if (op == "vw.substr") { // a = pos, b = count
        impl = done([&] { return units(sv.substr(a, b)); });
        oracle = a <= n ? okstr(subv(a, std::min(b, n - a)), e) : ASSERT;
    } else if (op == "vw.copy") { // a = count, b = pos
        impl = done([&] {
            std::size_t want = b <= n ? std::min(a, n - b) : 0;
            proto::heap_buf<char> dst(want);
            auto got = sv.copy(dst.p, a, b);
            Vec o;
            for (std::size_t i = 0; i < got && i < want; ++i) o.push_back(static_cast<unsigned char>(dst.p[i]));
            return o;
        });
        oracle = b <= n ? okstr(subv(b, std::min(a, n - b)), e) : ASSERT;
    } else if (op == "sp.at") { impl = done([&] { return Vec{static_cast<unsigned char>(sp[a])}; }); oracle = a < n ? okstr({e[a]}, e) : ASSERT; }
    else if (op == "sp.front") { impl = done([&] { return Vec{static_cast<unsigned char>(sp.front())}; }); oracle = n ? okstr({e.front()}, e) : ASSERT; }
    else if (op == "sp.back") { impl = done([&] { return Vec{static_cast<unsigned char>(sp.back())}; }); oracle = n ? okstr({e.back()}, e) : ASSERT; }
    else if (op == "sp.first") { impl = done([&] { return units(sp.first(a)); }); oracle = a <= n ? okstr(subv(0, a), e) : ASSERT; }
    else if (op == "sp.last") { impl = done([&] { return units(sp.last(a)); }); oracle = a <= n ? okstr(subv(n - a, a), e) : ASSERT; }
    else if (op == "sp.subspan") { // a = offset, b = count (npos = dynamic_extent)
        impl = done([&] { return units(sp.subspan(a, b)); });
        bool dyn = b == static_cast<std::size_t>(-1);
        oracle   = (a <= n && (dyn || b <= n - a)) ? okstr(subv(a, dyn ? n - a : b), e) : ASSERT;
    } else if (op == "sp.first_t" || op == "sp.last_t") { // first<a>() / last<a>() on a span of dynamic extent, a < 7
        bool fst = op == "sp.first_t";
        impl = done([&] {
            Vec o;
            bool hit = with_const<7>(a, [&](auto c) { o = fst ? units(sp.template first<decltype(c)::value>()) : units(sp.template last<decltype(c)::value>()); });
            if (!hit) std::exit(3);
            return o;
        });
        oracle = a <= n ? okstr(fst ? subv(0, a) : subv(n - a, a), e) : ASSERT;
    } else if (op == "sp.subspan_t") { // subspan<a, b>() with a < 6, b < 5 or npos (dynamic_extent)
        bool dyn = b == static_cast<std::size_t>(-1);
        impl = done([&] {
            Vec o;
            bool hit = with_const<6>(a, [&](auto ca) {
                constexpr std::size_t A = decltype(ca)::value;
                if (dyn) o = units(sp.template subspan<A>());
                else with_const<5>(b, [&](auto cb) { o = units(sp.template subspan<A, decltype(cb)::value>()); });
            });
            if (!hit) std::exit(3);
            return o;
        });
        oracle = (a <= n && (dyn || b <= n - a)) ? okstr(subv(a, dyn ? n - a : b), e) : ASSERT;
    } else if (op == "sp.ctor_ext") { // span<char, ext> from (pointer, count) k=0 / a sized range k=1 / a span of dynamic extent k=2
        std::size_t ext = SZ(l, "ext");
        int k = static_cast<int>(l.i("k", 0));
        etl::static_vector<char, 8> vec;
        for (auto x : e) vec.push_back(static_cast<char>(x));
        impl = done([&] {
            Vec o;
            bool hit = with_const<7>(ext, [&](auto c) {
                constexpr std::size_t N = decltype(c)::value;
                if (k == 0) { etl::span<char, N> t(hb.p, n); for (std::size_t i = 0; i < n && i < N; ++i) o.push_back(static_cast<unsigned char>(t.data()[i])); }
                else if (k == 1) { etl::span<char const, N> t(vec); for (std::size_t i = 0; i < n && i < N; ++i) o.push_back(static_cast<unsigned char>(t.data()[i])); }
                else { etl::span<char> const csp = sp; etl::span<char, N> t(csp); for (std::size_t i = 0; i < n && i < N; ++i) o.push_back(static_cast<unsigned char>(t.data()[i])); }
            });
            if (!hit) std::exit(3);
            return o;
        });
        oracle = n == ext ? okstr(e, e) : ASSERT;
    } else return "bad-op\tbad-op";
    return both(impl, oracle);
}

template <std::size_t N>
static std::string ar_ops(Line const& l)
{
    Vec const e    = LST(l, "e");
    auto const& op = l.op;
    auto* arr      = new etl::array<int, N>();
    if constexpr (N != 0) {
        for (std::size_t i = 0; i < N && i < e.size(); ++i) (*arr)[i] = static_cast<int>(e[i]);
    }
    etl::array<int, N> const* ca = arr;
    auto all  = [arr] { Vec o; for (auto x : *arr) o.push_back(x); return o; };
    auto snap = [all] { return fmt(all()); };
    int k     = static_cast<int>(l.i("k", 0));
    std::string impl, oracle;
    if (op == "ar.at") {
        std::size_t i = SZ(l, "i");
        impl   = in_child(snap, [&] { Vec r{k ? (*ca)[i] : (*arr)[i]}; return okstr(r, all()); });
        oracle = i < N ? okstr({e[i]}, e) : ASSERT;
    } else if (op == "ar.front") {
        impl   = in_child(snap, [&] { Vec r{k ? ca->front() : arr->front()}; return okstr(r, all()); });
        oracle = N != 0 ? okstr({e.front()}, e) : ASSERT;
    } else if (op == "ar.back") {
        impl   = in_child(snap, [&] { Vec r{k ? ca->back() : arr->back()}; return okstr(r, all()); });
        oracle = N != 0 ? okstr({e.back()}, e) : ASSERT;
    } else {
        delete arr;
        return "bad-op\tbad-op";
    }
    delete arr;
    return both(impl, oracle);
}

// ---------------------------------------------------------------- basic_inplace_string
template <std::size_t Cap>
static std::string str_ops(Line const& l)
{
    using S        = etl::inplace_string<Cap>;
    Vec const e    = LST(l, "e");
    auto const& op = l.op;
    auto* s        = new S();
    for (auto x : e) s->push_back(static_cast<char>(x));
    { // hist=1..3: the same abstract state reached through insert/erase, pop/push, a longer string that was cut back
        int const hist = static_cast<int>(l.i("hist", 0));
        g_setup = [s, hist, n0 = e.size()] {
            if (hist == 1 && n0 < Cap) { s->insert(0, 1, 'Z'); s->erase(0, 1); }
            if (hist == 2 && n0 != 0) { char last = s->back(); s->pop_back(); s->push_back(last); }
            if (hist == 3) { s->append(Cap - n0, 'Q'); s->erase(n0, Cap); }
        };
    }
    S const* cs = s;
    auto state  = [s] {
        Vec o;
        std::size_t n = std::min<std::size_t>(s->size(), Cap);
        for (std::size_t i = 0; i < n; ++i) o.push_back(static_cast<unsigned char>(s->data()[i]));
        if (s->size() > Cap) o.push_back(-999999);
        else if (s->data()[s->size()] != 0) o.push_back(-888888); // terminator missing
        return o;
    };
    auto snap = [state] { return fmt(state()); };
    auto done = [&](std::function<Vec()> f) { return in_child(snap, [&] { Vec r = f(); return okstr(r, state()); }); };
    int const k = static_cast<int>(l.i("k", 0));
    Vec xs      = LST(l, "xs");
    proto::heap_buf<char> src(xs);
    std::vector<char> z(xs.begin(), xs.end());
    z.push_back('\0');
    std::size_t a = l.has("a") ? SZ(l, "a") : 0, b = l.has("b") ? SZ(l, "b") : 0;
    char const ch = static_cast<char>(l.i("v", 120));
    std::size_t const n = e.size();
    Vec ref = e;
    std::string impl, oracle;
    if (op == "str.ctor_ptr" || op == "str.ctor_fill") {
        impl = in_child(nullptr, [&] {
            S* w = op == "str.ctor_ptr" ? new S(src.p, a) : new S(a, ch);
            Vec o;
            for (std::size_t i = 0; i < std::min<std::size_t>(w->size(), Cap); ++i) o.push_back(static_cast<unsigned char>(w->data()[i]));
            return okstr({}, o);
        });
        if (op == "str.ctor_ptr") oracle = a <= Cap ? okstr({}, Vec(xs.begin(), xs.begin() + static_cast<LL>(a))) : ASSERT;
        else oracle = a <= Cap ? okstr({}, Vec(a, static_cast<unsigned char>(ch))) : ASSERT;
    } else if (op == "str.op_assign") {
        impl   = done([&] { (*s) = z.data(); return Vec{}; });
        oracle = xs.size() <= Cap ? okstr({}, xs) : ASSERT;
    } else if (op == "str.assign_fill") {
        impl   = done([&] { s->assign(a, ch); return Vec{}; });
        oracle = a <= Cap ? okstr({}, Vec(a, static_cast<unsigned char>(ch))) : ASSERT;
    } else if (op == "str.assign_ptr") {
        impl   = done([&] { s->assign(src.p, a); return Vec{}; });
        oracle = a <= Cap ? okstr({}, Vec(xs.begin(), xs.begin() + static_cast<LL>(a))) : ASSERT;
    } else if (op == "str.front") {
        impl = done([&] { return Vec{static_cast<unsigned char>(k ? cs->front() : s->front())}; });
        oracle = n ? okstr({e.front()}, e) : ASSERT;
    } else if (op == "str.back") {
        impl = done([&] { return Vec{static_cast<unsigned char>(k ? cs->back() : s->back())}; });
        oracle = n ? okstr({e.back()}, e) : ASSERT;
    } else if (op == "str.at") {
        impl = done([&] { return Vec{static_cast<unsigned char>(k ? (*cs)[a] : (*s)[a])}; });
        oracle = a <= n ? okstr({a == n ? 0 : e[a]}, e) : ASSERT;
    } else if (op == "str.push") {
        impl = done([&] { s->push_back(ch); return Vec{}; });
        ref.push_back(static_cast<unsigned char>(ch));
        oracle = n < Cap ? okstr({}, ref) : ASSERT;
    } else if (op == "str.pop") {
        impl = done([&] { s->pop_back(); return Vec{}; });
        if (n) ref.pop_back();
        oracle = n ? okstr({}, ref) : ASSERT;
    } else if (op == "str.unsafe_set_size") { // the private member, see Rob
        impl   = done([&] { (s->*rob_get(StrSetSize<Cap>{}))(a); return Vec{}; });
        oracle = a <= Cap ? okstr({}, Vec(e.begin(), e.begin() + static_cast<LL>(std::min(a, n)))) : ASSERT;
    } else if (op == "str.erase_rng") { // a = start, b = distance
        impl = done([&] { auto it = s->erase(s->cbegin() + static_cast<LL>(a), s->cbegin() + static_cast<LL>(a) + static_cast<LL>(b)); return Vec{static_cast<LL>(it - s->begin())}; });
        if (a <= n && b <= n - a) {
            ref.erase(ref.begin() + static_cast<LL>(a), ref.begin() + static_cast<LL>(a + b));
            oracle = okstr({static_cast<LL>(a)}, ref);
        } else oracle = ASSERT;
    } else if (op == "str.insert") { // a = index, xs = the inserted units (they fit), k = overload 1..6
        impl = done([&] {
            std::size_t m = xs.size();
            etl::string_view vw(src.p, m);
            if (k == 1) s->insert(a, z.data());
            else if (k == 2) s->insert(a, src.p, m);
            else if (k == 3) { S other(src.p, std::min<std::size_t>(m, Cap)); s->insert(a, other); }
            else if (k == 4) { S other(src.p, std::min<std::size_t>(m, Cap)); s->insert(a, other, 0, m); }
            else if (k == 5) s->insert(a, vw);
            else s->insert(a, vw, 0, m);
            return Vec{};
        });
        if (a <= n) {
            ref.insert(ref.begin() + static_cast<LL>(a), xs.begin(), xs.end());
            oracle = okstr({}, ref);
        } else oracle = ASSERT;
    } else if (op == "str.insert_fill") { // a = index, b = count (fits), v = the character
        impl = done([&] { s->insert(a, b, ch); return Vec{}; });
        if (a <= n) {
            ref.insert(ref.begin() + static_cast<LL>(a), b, static_cast<unsigned char>(ch));
            oracle = okstr({}, ref);
        } else oracle = ASSERT;
    } else if (op == "str.erase_idx") { // a = index, b = count (npos = to the end)
        impl = done([&] { s->erase(a, b); return Vec{}; });
        if (a <= n) {
            std::size_t m = std::min(b, n - a);
            ref.erase(ref.begin() + static_cast<LL>(a), ref.begin() + static_cast<LL>(a + m));
            oracle = okstr({}, ref);
        } else oracle = ASSERT;
    } else if (op == "str.replace") { // a = pos, b = count, xs = replacement; k = overload
        impl = done([&] {
            if (k == 0) { S other(src.p, std::min<std::size_t>(xs.size(), Cap)); s->replace(a, b, other); }
            else if (k == 1) s->replace(a, b, src.p, xs.size());
            else s->replace(a, b, z.data());
            return Vec{};
        });
        // documented (std) precondition: pos <= size(); tetl overwrites min(count, |xs|) units in place
        if (a <= n) {
            std::size_t m = std::min(std::min(b, n - a), xs.size());
            for (std::size_t i = 0; i < m; ++i) ref[a + i] = xs[i];
            oracle = okstr({}, ref);
        } else oracle = ASSERT;
    } else if (op == "str.replace_sub") { // a = pos, b = count, xs, c = pos2, d = count2
        std::size_t c = SZ(l, "c"), d = SZ(l, "d");
        impl = done([&] { S other(src.p, std::min<std::size_t>(xs.size(), Cap)); s->replace(a, b, other, c, d); return Vec{}; });
        if (a <= n && c <= xs.size()) {
            std::size_t cnt2 = std::min(d, xs.size() - c);
            std::size_t m    = std::min(std::min(b, n - a), cnt2);
            for (std::size_t i = 0; i < m; ++i) ref[a + i] = xs[c + i];
            oracle = okstr({}, ref);
        } else oracle = ASSERT;
    } else {
        delete s;
        return "bad-op\tbad-op";
    }
    delete s;
    return both(impl, oracle);
}

// ---------------------------------------------------------------- optional / expected / variant
static std::string oev_ops(Line const& l)
{
    auto const& op = l.op;
    Vec const e    = LST(l, "e");
    int const k    = static_cast<int>(l.i("k", 0));
    int const alt  = static_cast<int>(l.i("alt", 0));
    int const val  = e.empty() ? 0 : static_cast<int>(e[0]);
    std::string impl, oracle;
    if (op == "opt.deref") {
        auto* o = new etl::optional<int>();
        if (!e.empty()) *o = val;
        int target = val;
        auto* r    = new etl::optional<int&>();
        if (!e.empty()) r->emplace(target);
        auto snap = [o] { return o->has_value() ? fmt({*(o->operator->())}) : fmt({}); };
        impl = in_child(snap, [&] {
            int x = 0;
            switch (k) {
            case 0: x = **static_cast<etl::optional<int> const*>(o); break;
            case 1: x = **o; break;
            case 2: x = *std::move(*static_cast<etl::optional<int> const*>(o)); break;
            case 3: x = *std::move(*o); break;
            default: x = **r; break;
            }
            return okstr({x}, e);
        });
        oracle = !e.empty() ? okstr({val}, e) : ASSERT;
        delete o;
        delete r;
    } else if (op == "exp.deref" || op == "exp.error") {
        using E = etl::expected<int, long>;
        E* x = alt == 0 ? new E(etl::in_place, val) : new E(etl::unexpect, static_cast<long>(val));
        auto snap = [x, alt] { return std::string(x->has_value() == (alt == 0) ? "same" : "changed"); };
        bool want_val = op == "exp.deref";
        impl = in_child(snap, [&] {
            LL r = 0;
            E const* cx = x;
            if (want_val) {
                switch (k) { case 0: r = **cx; break; case 1: r = **x; break; case 2: r = *std::move(*cx); break; default: r = *std::move(*x); break; }
            } else {
                switch (k) { case 0: r = x->error(); break; case 1: r = cx->error(); break; case 2: r = std::move(*x).error(); break; default: r = std::move(*cx).error(); break; }
            }
            return okstr({r}, e);
        });
        oracle = (want_val == (alt == 0)) ? okstr({val}, e) : ASSERT;
        delete x;
    } else if (op == "var.idx" || op == "var.get") {
        using W = etl::variant<int, long, short>;
        W* w = alt == 0 ? new W(etl::in_place_index<0>, val) : alt == 1 ? new W(etl::in_place_index<1>, static_cast<long>(val)) : new W(etl::in_place_index<2>, static_cast<short>(val));
        auto snap = [w] { return std::to_string(w->index()); };
        int const I = static_cast<int>(l.i("i"));
        auto call = [&](auto ic) -> LL {
            constexpr std::size_t J = decltype(ic)::value;
            W const* cw = w;
            if (op == "var.idx") {
                switch (k) { case 0: return (*w)[etl::index_v<J>]; case 1: return (*cw)[etl::index_v<J>]; case 2: return std::move(*w)[etl::index_v<J>]; default: return std::move(*cw)[etl::index_v<J>]; }
            }
            switch (k) { case 0: return etl::unchecked_get<J>(*w); case 1: return etl::unchecked_get<J>(*cw); case 2: return etl::unchecked_get<J>(std::move(*w)); default: return etl::unchecked_get<J>(std::move(*cw)); }
        };
        impl = in_child(snap, [&] {
            LL r = I == 0 ? call(std::integral_constant<std::size_t, 0>{}) : I == 1 ? call(std::integral_constant<std::size_t, 1>{}) : call(std::integral_constant<std::size_t, 2>{});
            return okstr({r}, e);
        });
        oracle = I == alt ? okstr({val}, e) : ASSERT;
        delete w;
    } else return "bad-op\tbad-op";
    return both(impl, oracle);
}

// ---------------------------------------------------------------- bitset
template <std::size_t N>
static std::string bs_ops(Line const& l)
{
    auto const& op = l.op;
    Vec const e    = LST(l, "e"); // N bits, bit 0 first
    auto* b        = new etl::bitset<N>();
    auto* bb       = new etl::basic_bitset<N, unsigned char>();
    for (std::size_t i = 0; i < N && i < e.size(); ++i) {
        if (e[i]) { b->set(i); bb->unchecked_set(i); }
    }
    bool basic = op.rfind("bb.", 0) == 0;
    auto state = [=] { Vec o; for (std::size_t i = 0; i < N; ++i) o.push_back(basic ? bb->unchecked_test(i) : b->test(i)); return o; };
    auto snap  = [state] { return fmt(state()); };
    auto done  = [&](std::function<Vec()> f) { return in_child(snap, [&] { Vec r = f(); return okstr(r, state()); }); };
    std::size_t const pos = SZ(l, "pos");
    int const w   = static_cast<int>(l.i("w"));
    bool const v  = l.i("v", 1) != 0;
    Vec ref = e;
    Vec res;
    auto const* cb  = b;
    auto const* cbb = bb;
    std::string impl;
    if (basic) {
        impl = done([&]() -> Vec {
            switch (w) {
            case 0: return {(*cbb)[pos] ? 1 : 0};
            case 1: { auto r = (*bb)[pos]; (void)r; return {}; }
            case 2: return {bb->unchecked_test(pos) ? 1 : 0};
            case 3: bb->unchecked_set(pos, v); return {};
            case 4: bb->unchecked_reset(pos); return {};
            default: bb->unchecked_flip(pos); return {};
            }
        });
        if (pos < N) {
            if (w == 0 || w == 2) res = {e[pos]};
            if (w == 3) ref[pos] = v;
            if (w == 4) ref[pos] = 0;
            if (w == 5) ref[pos] = 1 - e[pos];
        }
    } else {
        impl = done([&]() -> Vec {
            switch (w) {
            case 0: b->set(pos, v); return {};
            case 1: b->reset(pos); return {};
            case 2: b->flip(pos); return {};
            case 3: { auto r = (*b)[pos]; (void)r; return {}; }
            case 4: return {(*cb)[pos] ? 1 : 0};
            default: return {b->test(pos) ? 1 : 0};
            }
        });
        if (pos < N) {
            if (w == 4 || w == 5) res = {e[pos]};
            if (w == 0) ref[pos] = v;
            if (w == 1) ref[pos] = 0;
            if (w == 2) ref[pos] = 1 - e[pos];
        }
    }
    std::string oracle = pos < N ? okstr(res, ref) : ASSERT;
    delete b;
    delete bb;
    return both(impl, oracle);
}

// bs.to_u: to_ulong() (w = 0) / to_ullong() (w = 1) of a bitset<N>; d = the digits of the result type the case was
// generated for (checked against this platform).  Oracle: std::bitset<N>, which throws overflow_error exactly when the
// value cannot be represented.  The result is printed as its two 32-bit halves (low, high).
template <std::size_t N>
static std::string bs_tou(Line const& l)
{
    Vec const e = LST(l, "e");
    int const w = static_cast<int>(l.i("w", 0));
    std::size_t const d = SZ(l, "d");
    std::size_t const digits = w == 0 ? std::numeric_limits<unsigned long>::digits : std::numeric_limits<unsigned long long>::digits;
    if (d != digits || e.size() != N) return "bad-op\tbad-op";
    auto* b = new etl::bitset<N>();
    std::bitset<N> sb;
    for (std::size_t i = 0; i < N; ++i) {
        if (e[i]) { b->set(i); sb.set(i); }
    }
    auto state  = [b] { Vec o; for (std::size_t i = 0; i < N; ++i) o.push_back(b->test(i) ? 1 : 0); return o; };
    auto snap   = [state] { return fmt(state()); };
    auto halves = [](unsigned long long r) { return Vec{static_cast<LL>(r & 0xFFFFFFFFULL), static_cast<LL>(r >> 32)}; };
    std::string impl = in_child(snap, [&] {
        unsigned long long r = w == 0 ? static_cast<unsigned long long>(b->to_ulong()) : b->to_ullong();
        return okstr(halves(r), state());
    });
    std::string oracle;
    try {
        unsigned long long r = w == 0 ? static_cast<unsigned long long>(sb.to_ulong()) : sb.to_ullong();
        oracle = okstr(halves(r), e);
    } catch (std::overflow_error const&) {
        oracle = ASSERT;
    }
    delete b;
    return both(impl, oracle);
}

static std::string bs_ctor(Line const& l)
{
    Vec const e = LST(l, "e"); // the characters '0'/'1' as 0/1
    std::size_t pos = SZ(l, "pos"), n = SZ(l, "n");
    Vec chars;
    for (auto x : e) chars.push_back(x ? '1' : '0');
    proto::heap_buf<char> hb(chars);
    etl::string_view sv(hb.p, hb.n);
    constexpr std::size_t Bits = 5;
    auto snap = [&] { return fmt(e); };
    std::string impl = in_child(snap, [&] {
        etl::bitset<Bits> b(sv, pos, n);
        // the characters used, in string order, as read back from the bits
        std::size_t len = std::min(std::min(n, e.size() - pos), Bits);
        Vec o;
        for (std::size_t i = 0; i < len; ++i) o.push_back(b.test(len - 1 - i) ? 1 : 0);
        return okstr(o, e);
    });
    std::string oracle = ASSERT;
    if (pos <= e.size()) {
        std::size_t len = std::min(std::min(n, e.size() - pos), Bits);
        oracle = okstr(Vec(e.begin() + static_cast<LL>(pos), e.begin() + static_cast<LL>(pos + len)), e);
    }
    return both(impl, oracle);
}

// ---------------------------------------------------------------- scalars
template <typename U>
static void bit_call(int which, U word, U pos)
{
    U r{};
    switch (which) {
    case 0: r = etl::flip_bit(word, pos); break;
    case 1: r = etl::reset_bit(word, pos); break;
    case 2: r = etl::set_bit(word, pos); break;
    case 3: r = etl::set_bit(word, pos, true); break;
    default: r = static_cast<U>(etl::test_bit(word, pos)); break;
    }
    static volatile unsigned long long sink;
    sink = static_cast<unsigned long long>(r);
}

static std::string sc_ops(Line const& l)
{
    auto const& op = l.op;
    std::string impl, oracle;
    if (op == "bit") {
        int which = static_cast<int>(l.i("which")), w = static_cast<int>(l.i("w"));
        std::size_t pos = SZ(l, "pos");
        impl = in_child(nullptr, [&] {
            if (w == 8) bit_call<std::uint8_t>(which, 0x5A, static_cast<std::uint8_t>(pos));
            else if (w == 16) bit_call<std::uint16_t>(which, 0x5A5A, static_cast<std::uint16_t>(pos));
            else if (w == 32) bit_call<std::uint32_t>(which, 0x5A5A5A5AU, static_cast<std::uint32_t>(pos));
            else bit_call<std::uint64_t>(which, 0x5A5A5A5A5A5A5A5AULL, static_cast<std::uint64_t>(pos));
            return okstr({}, {});
        });
        oracle = pos < static_cast<std::size_t>(w) ? okstr({}, {}) : ASSERT;
    } else if (op == "div_sat") {
        LL x = l.i("x"), y = l.i("y");
        impl = in_child(nullptr, [&] { int q = etl::div_sat(static_cast<int>(x), static_cast<int>(y)); return okstr({static_cast<LL>(q)}, {}); });
        // [numeric.sat]: y != 0; the truncated mathematical quotient, saturated to int (computed in 64 bits)
        oracle = y != 0 ? okstr({std::max<LL>(-2147483648LL, std::min<LL>(2147483647LL, x / y))}, {}) : ASSERT;
    } else if (op == "day" || op == "month") {
        unsigned d = static_cast<unsigned>(l.i("d"));
        impl = in_child(nullptr, [&] {
            unsigned got = op == "day" ? static_cast<unsigned>(etl::chrono::day(d)) : static_cast<unsigned>(etl::chrono::month(d));
            return okstr({}, {static_cast<LL>(got)});
        });
        // day.hpp / month.hpp document "may hold any number in [0, 255]" ([time.cal.day]: no precondition, unspecified beyond)
        oracle = d <= 255 ? okstr({}, {static_cast<LL>(d)}) : ASSERT;
    } else if (op == "stride") {
        std::string lay = l.str("l");
        std::size_t r   = SZ(l, "r");
        Vec e           = LST(l, "e"); // the strides of a rank-3 mapping with extents 2 x 3 x 4
        using Ext = etl::extents<std::size_t, 2, 3, 4>;
        impl = in_child(nullptr, [&] {
            LL s = 0;
            if (lay == "layout_left") { etl::layout_left::mapping<Ext> m{}; s = static_cast<LL>(m.stride(r)); }
            else if (lay == "layout_stride") {
                etl::array<std::size_t, 3> st{static_cast<std::size_t>(e[0]), static_cast<std::size_t>(e[1]), static_cast<std::size_t>(e[2])};
                etl::layout_stride::mapping<Ext> m{Ext{}, st};
                s = static_cast<LL>(m.stride(r));
            }
            else { etl::layout_right::mapping<Ext> m{}; s = static_cast<LL>(m.stride(r)); }
            return okstr({s}, e);
        });
        oracle = r < 3 ? okstr({e[r]}, e) : ASSERT;
    } else if (op == "null") {
        // fn = memmove|strcpy|strncpy|strchr0|strchr1|wcscpy|wcsncpy ; d / s = 1 when the pointer is non-null
        std::string fn = l.str("fn");
        bool d = l.i("d", 1) != 0, s = l.i("s", 1) != 0;
        impl = in_child(nullptr, [&] {
            char dst[8]    = {0};
            char const* sr = "abc";
            wchar_t wdst[8] = {0};
            wchar_t const* wsr = L"abc";
            char* dp = d ? dst : nullptr;
            char const* sp = s ? sr : nullptr;
            if (fn == "memmove") etl::memmove(dp, sp, 3);
            else if (fn == "strcpy") etl::strcpy(dp, sp);
            else if (fn == "strncpy") etl::strncpy(dp, sp, 3);
            else if (fn == "strchr0") { auto* r = etl::strchr(s ? static_cast<char const*>(sr) : nullptr, 'b'); (void)r; }
            else if (fn == "strchr1") { auto* r = etl::strchr(s ? dst : static_cast<char*>(nullptr), 'b'); (void)r; }
            else if (fn == "wcscpy") etl::wcscpy(d ? wdst : nullptr, s ? wsr : nullptr);
            else etl::wcsncpy(d ? wdst : nullptr, s ? wsr : nullptr, 3);
            return okstr({}, {});
        });
        bool one = fn == "strchr0" || fn == "strchr1";
        oracle = ((one || d) && s) ? okstr({}, {}) : ASSERT;
    } else if (op == "linalg") {
        // fn = add|copy|swap|mvp ; 1-D objects of nx / ny / nz elements; mvp: a is r x c, x has nx, y has ny elements
        std::string fn = l.str("fn");
        std::size_t nx = SZ(l, "nx"), ny = SZ(l, "ny"), nz = l.has("nz") ? SZ(l, "nz") : 0;
        std::size_t r = l.has("r") ? SZ(l, "r") : 0, c = l.has("c") ? SZ(l, "c") : 0;
        using V1 = etl::mdspan<int, etl::dextents<std::size_t, 1>>;
        using M2 = etl::mdspan<int, etl::dextents<std::size_t, 2>>;
        proto::heap_buf<int> bx(nx), by(ny), bz(nz), ba(r * c);
        for (std::size_t i = 0; i < nx; ++i) bx.p[i] = static_cast<int>(i + 1);
        for (std::size_t i = 0; i < ny; ++i) by.p[i] = static_cast<int>(2 * i + 1);
        for (std::size_t i = 0; i < nz; ++i) bz.p[i] = 0;
        for (std::size_t i = 0; i < r * c; ++i) ba.p[i] = static_cast<int>(i);
        impl = in_child(nullptr, [&] {
            V1 x(bx.p, nx), y(by.p, ny), zz(bz.p, nz);
            if (fn == "add") etl::linalg::add(x, y, zz);
            else if (fn == "copy") etl::linalg::copy(x, y);
            else if (fn == "swap") etl::linalg::swap_elements(x, y);
            else { M2 a(ba.p, r, c); etl::linalg::matrix_vector_product(a, x, y); }
            return okstr({}, {});
        });
        bool ok = fn == "add" ? (nx == ny && nx == nz) : fn == "mvp" ? (c == nx && r == ny) : nx == ny;
        oracle  = ok ? okstr({}, {}) : ASSERT;
    } else if (op == "to_string") {
        // to_string<cap>(x): the decimal text and its terminator must fit into cap characters
        LL x = l.i("x");
        std::size_t cap = SZ(l, "cap");
        impl = in_child(nullptr, [&] {
            std::size_t len = 0;
            if (cap == 2) len = etl::to_string<2>(static_cast<long long>(x)).size();
            else if (cap == 4) len = etl::to_string<4>(static_cast<long long>(x)).size();
            else len = etl::to_string<21>(static_cast<long long>(x)).size();
            static volatile std::size_t sink;
            sink = len;
            return okstr({}, {});
        });
        oracle = std::to_string(x).size() + 1 <= cap ? okstr({}, {}) : ASSERT;
    } else if (op == "set.ctor") {
        Vec xs   = LST(l, "xs");
        bool ord = l.i("ord", 1) != 0;
        std::vector<int> src(xs.begin(), xs.end());
        int* f = src.data();
        int* la = src.data() + src.size();
        if (!ord) std::swap(f, la);
        constexpr std::size_t Cap = 3;
        impl = in_child(nullptr, [&] { etl::static_set<int, Cap> st(f, la); return okstr({}, {}); });
        oracle = (ord && xs.size() <= Cap) ? okstr({}, {}) : ASSERT;
    } else return "bad-op\tbad-op";
    return both(impl, oracle);
}

static std::string step_(Line const& l);
static std::string step(Line const& l)
{
    g_setup = nullptr;
    std::string r = step_(l);
    g_setup = nullptr;
    return r;
}

static std::string step_(Line const& l)
{
    auto const& op = l.op;
    auto pre = op.substr(0, op.find('.'));
    std::size_t cap = l.has("cap") ? static_cast<std::size_t>(l.i("cap")) : 0;
    if (op == "sv.unsafe_set_size" || op == "sv.unsafe_destroy") {
        std::string T = l.has("T") ? l.str("T") : "triv";
        if (T == "zero") return op == "sv.unsafe_set_size" ? sv_unsafe<int, 0>(l) : "bad-op\tbad-op";
        if (T == "nontriv") return cap == 3 ? sv_unsafe<NT, 3>(l) : "bad-op\tbad-op";
        if (op == "sv.unsafe_destroy") return "bad-op\tbad-op"; // the trivial storage has no checks there
        return cap == 1 ? sv_unsafe<int, 1>(l) : cap == 3 ? sv_unsafe<int, 3>(l) : cap == 4 ? sv_unsafe<int, 4>(l) : "bad-op\tbad-op";
    }
    if (pre == "sv") {
        std::string T = l.has("T") ? l.str("T") : "triv";
        if (T == "zero") return sv_ops<int, 0>(l);
        if (T == "nontriv") return cap == 3 ? sv_ops<NT, 3>(l) : "bad-op\tbad-op";
        if (cap == 1) return sv_ops<int, 1>(l);
        if (cap == 3) return sv_ops<int, 3>(l);
        if (cap == 4) return sv_ops<int, 4>(l);
        if (cap == 255) return sv_ops<int, 255>(l); // the size field narrows to uint8_t up to 255 ...
        if (cap == 256) return sv_ops<int, 256>(l); // ... and to uint16_t from 256 (smallest_size_t)
        return "bad-op\tbad-op";
    }
    if (pre == "iv") return cap == 0 ? iv_ops<0>(l) : cap == 1 ? iv_ops<1>(l) : cap == 3 ? iv_ops<3>(l) : cap == 4 ? iv_ops<4>(l) : "bad-op\tbad-op";
    if (pre == "vw" || pre == "sp") return view_ops(l);
    if (pre == "ar") return cap == 0 ? ar_ops<0>(l) : cap == 1 ? ar_ops<1>(l) : cap == 3 ? ar_ops<3>(l) : "bad-op\tbad-op";
    if (pre == "str") return cap == 4 ? str_ops<4>(l) : cap == 20 ? str_ops<20>(l) : "bad-op\tbad-op";
    if (pre == "opt" || pre == "exp" || pre == "var") return oev_ops(l);
    if (op == "bs.ctor") return bs_ctor(l);
    if (op == "bs.to_u") {
        switch (cap) {
        case 5: return bs_tou<5>(l);
        case 11: return bs_tou<11>(l);
        case 40: return bs_tou<40>(l);
        case 64: return bs_tou<64>(l);
        case 65: return bs_tou<65>(l);
        case 70: return bs_tou<70>(l);
        case 130: return bs_tou<130>(l);
        default: return "bad-op\tbad-op";
        }
    }
    if (pre == "bb" || pre == "bs") return cap == 5 ? bs_ops<5>(l) : cap == 11 ? bs_ops<11>(l) : "bad-op\tbad-op";
    return sc_ops(l);
}

int main(int argc, char** argv) { return proto::run(argc, argv, step); }
