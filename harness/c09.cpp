// C09 harness: etl::static_set / etl::flat_set (over etl::static_vector, over a minimal
// inplace-vector-like container and — the members that compile — over etl::inplace_vector) /
// etl::flat_multiset against std::set / std::multiset on the same history lines.  Protocol: see lean/Tetl/C09/Driver.lean.
// Objects live in exact-size heap blocks, so an access past the object ends in an ASan red zone.
#include "proto.hpp"

#include <etl/flat_set.hpp>
#include <etl/functional.hpp>
#include <etl/inplace_vector.hpp>
#include <etl/set.hpp>
#include <etl/utility.hpp>
#include <etl/vector.hpp>

#include <algorithm>
#include <functional>
#include <iterator>
#include <memory>
#include <set>
#include <type_traits>
#include <utility>

using proto::Line;

// heterogeneous key for transparent comparators
struct HKey {
    int v;
};
constexpr bool operator<(HKey a, int b) { return a.v < b; }
constexpr bool operator<(int a, HKey b) { return a < b.v; }
constexpr bool operator>(HKey a, int b) { return a.v > b; }
constexpr bool operator>(int a, HKey b) { return a > b.v; }

// heterogeneous *band* key: stands for the two adjacent integers v and v + 1, so that a lookup key is equivalent to up to two
// elements of a set of distinct integers ([associative.reqmts]: the elements only have to be partitioned w.r.t. the key)
struct BKey {
    int v;
};
constexpr bool operator<(BKey a, int b) { return a.v + 1 < b; }
constexpr bool operator<(int a, BKey b) { return a < b.v; }
constexpr bool operator>(BKey a, int b) { return a.v > b; }
constexpr bool operator>(int a, BKey b) { return a > b.v + 1; }

// a strict weak order whose equivalence is coarser than ==: integers ordered by k / 2
struct half_less {
    constexpr bool operator()(int a, int b) const { return a / 2 < b / 2; }
};

// minimal inplace-vector-like container (not tetl code): fixed capacity, contiguous, aborts when full
template <typename T, std::size_t N>
struct mini_vec {
    using value_type             = T;
    using size_type              = std::size_t;
    using difference_type        = std::ptrdiff_t;
    using reference              = T&;
    using const_reference        = T const&;
    using iterator               = T*;
    using const_iterator         = T const*;
    using reverse_iterator       = etl::reverse_iterator<iterator>;
    using const_reverse_iterator = etl::reverse_iterator<const_iterator>;

    mini_vec() = default;
    template <typename It>
    mini_vec(It f, It l)
    {
        for (; f != l; ++f) { emplace(end(), *f); }
    }
    iterator begin() noexcept { return _d; }
    const_iterator begin() const noexcept { return _d; }
    iterator end() noexcept { return _d + _n; }
    const_iterator end() const noexcept { return _d + _n; }
    reverse_iterator rbegin() noexcept { return reverse_iterator(end()); }
    const_reverse_iterator rbegin() const noexcept { return const_reverse_iterator(end()); }
    const_reverse_iterator crbegin() const noexcept { return const_reverse_iterator(end()); }
    reverse_iterator rend() noexcept { return reverse_iterator(begin()); }
    const_reverse_iterator rend() const noexcept { return const_reverse_iterator(begin()); }
    const_reverse_iterator crend() const noexcept { return const_reverse_iterator(begin()); }
    bool empty() const noexcept { return _n == 0; }
    size_type size() const noexcept { return _n; }
    size_type max_size() const noexcept { return N; }
    template <typename... A>
    iterator emplace(const_iterator pos, A&&... a)
    {
        if (_n >= N || pos < begin() || pos > end()) { std::fprintf(stderr, "mini_vec: emplace on a full container / bad position\n"); std::abort(); }
        auto k = static_cast<size_type>(pos - begin());
        T x(std::forward<A>(a)...);
        for (size_type j = _n; j > k; --j) { _d[j] = std::move(_d[j - 1]); }
        _d[k] = std::move(x);
        ++_n;
        return _d + k;
    }
    iterator erase(const_iterator pos) { return erase(pos, pos + 1); }
    iterator erase(const_iterator f, const_iterator l)
    {
        if (f < begin() || l > end() || f > l) { std::fprintf(stderr, "mini_vec: erase outside the container\n"); std::abort(); }
        auto a = static_cast<size_type>(f - begin());
        auto b = static_cast<size_type>(l - begin());
        for (size_type j = b; j < _n; ++j) { _d[a + (j - b)] = std::move(_d[j]); }
        _n -= (b - a);
        return _d + a;
    }
    void clear() noexcept { _n = 0; }

private:
    T _d[N == 0 ? 1 : N]{};
    size_type _n = 0;
};

template <typename S>
static std::string state_of(S const& s)
{
    std::vector<long long> d;
    for (auto const& x : s) d.push_back(x);
    std::string r = " n=" + std::to_string(s.size()) + " d=" + proto::fmt_list(d);
    if (s.empty() != (s.size() == 0)) r += " !empty";
    if (static_cast<std::size_t>(std::distance(s.begin(), s.end())) != s.size()) r += " !distance";
    return r;
}

struct Session {
    virtual ~Session()                         = default;
    virtual std::string step(Line const& l)    = 0;
    virtual std::string initial() const        = 0;
};

enum class K { ss, fs, fi, fv };

// a container of type Cont holding [f, l): range constructor where there is one (static_vector, mini_vec),
// unchecked_push_back for etl::inplace_vector (which has no range constructor)
template <typename Cont>
static Cont make_cont(int const* f, int const* l)
{
    if constexpr (requires { Cont(f, l); }) {
        return Cont(f, l);
    } else {
        Cont c{};
        for (; f != l; ++f) {
            if (c.size() == c.max_size()) { std::fprintf(stderr, "make_cont: input exceeds the capacity\n"); std::abort(); }
            c.unchecked_push_back(*f);
        }
        return c;
    }
}

template <K Kind, int CAP, typename ECmp, typename SCmp>
struct SessionT final : Session {
    static constexpr bool is_ss = Kind == K::ss;
    static constexpr bool is_fv = Kind == K::fv;   // flat_set over etl::inplace_vector: only some members compile
    static constexpr bool transparent = etl::detail::is_transparent_v<ECmp>;
    using Cont = std::conditional_t<Kind == K::fi, mini_vec<int, CAP>,
        std::conditional_t<is_fv, etl::inplace_vector<int, CAP>, etl::static_vector<int, CAP>>>;
    using S    = std::conditional_t<is_ss, etl::static_set<int, CAP, ECmp>, etl::flat_set<int, Cont, ECmp>>;
    using O    = std::set<int, SCmp>;

    std::unique_ptr<S> cur, oth;
    O scur, soth;
    // sorted_unique constructor handed a sequence that violates its precondition: [flat.set.cons] only says the
    // container is adopted (initializes c with std::move(cont)); recorded as "the sequence as it is"
    bool su_violated = false;
    std::vector<long long> su_raw;

    static std::unique_ptr<S> make(std::string const& ctor, std::vector<long long> const& init)
    {
        std::vector<int> v(init.begin(), init.end());
        int const* f = v.data();
        int const* l = v.data() + v.size();
        if constexpr (is_ss) {
            return std::make_unique<S>(f, l);
        } else if constexpr (is_fv) {
            (void)ctor;   // the only constructor taking elements that compiles
            return std::make_unique<S>(etl::sorted_unique, make_cont<Cont>(f, l));
        } else {
            if (ctor == "su") return std::make_unique<S>(etl::sorted_unique, Cont(f, l));
            if (ctor == "sur") return std::make_unique<S>(etl::sorted_unique, f, l);
            if (ctor == "cont") return std::make_unique<S>(Cont(f, l));
            return std::make_unique<S>(f, l);
        }
    }
    static O make_std(std::vector<long long> const& init)
    {
        O o;
        for (auto k : init) {
            if (o.count(static_cast<int>(k)) == 0 && o.size() >= static_cast<std::size_t>(CAP)) continue;
            o.insert(static_cast<int>(k));
        }
        return o;
    }

    SessionT(Line const& l)
    {
        std::string ctor = l.has("ctor") ? l.str("ctor") : "range";
        std::vector<long long> none;
        auto const& init  = l.has("init") ? l.list("init") : none;
        auto const& other = l.has("other") ? l.list("other") : none;
        if (is_fv && ctor != "su") { std::fprintf(stderr, "kind=fv needs ctor=su\n"); std::abort(); }
        cur               = make(ctor, init);
        oth               = make("range", other);
        scur              = make_std(init);
        soth              = make_std(other);
        if ((ctor == "su" || ctor == "sur") && !std::equal(scur.begin(), scur.end(), init.begin(), init.end())) {
            su_violated = true;
            su_raw      = init;
        }
    }

    std::string initial() const override
    {
        if (su_violated) {
            return "ok" + state_of(*cur) + "\t" + "ok n=" + std::to_string(su_raw.size()) + " d=" + proto::fmt_list(su_raw);
        }
        return "ok" + state_of(*cur) + "\t" + "ok" + state_of(scur);
    }

    template <typename It>
    std::size_t off(It it) const
    {
        return static_cast<std::size_t>(it - std::as_const(*cur).begin());
    }
    template <typename It>
    std::size_t soff(It it) const
    {
        return static_cast<std::size_t>(std::distance(scur.begin(), typename O::const_iterator(it)));
    }
    std::string fin(std::string a, std::string b) const { return a + state_of(*cur) + "\t" + b + state_of(scur); }

    template <typename P>
    std::string ins_str(P const& r, std::size_t size_before) const
    {
        // failure report for a new key in a full set: (nullptr,false) / (end(),false)
        if (!r.second && (r.first == nullptr || r.first == std::as_const(*cur).end())) return "full";
        (void)size_before;
        return "ins(" + std::to_string(off(r.first)) + "," + (r.second ? "1" : "0") + ")";
    }

    std::string step(Line const& l) override
    {
        auto const& op = l.op;
        bool band      = l.i("het", 0) == 2;
        bool het       = l.i("het", 0) == 1 || band;
        bool cst       = l.i("cst", 0) == 1;
        S& s           = *cur;
        S const& cs    = *cur;
        if (het && !transparent) return "bad-op\tbad-op";
        if (su_violated) return "bad-op\tbad-op";   // nothing is specified after a violated precondition

        if (op == "cmp") {
            S const& o = *oth;
            auto bits  = [](bool a, bool b, bool c, bool d, bool e, bool f) {
                std::string r;
                for (bool x : {a, b, c, d, e, f}) r += x ? '1' : '0';
                return r;
            };
            return fin(bits(cs == o, cs != o, cs < o, cs <= o, cs > o, cs >= o),
                bits(scur == soth, scur != soth, scur < soth, scur <= soth, scur > soth, scur >= soth));
        }
        if (op == "sizes") {
            std::string full = "-";
            if constexpr (is_ss) { full = proto::fmt_bool(cs.full()); }
            std::string sfull = is_ss ? proto::fmt_bool(scur.size() == static_cast<std::size_t>(CAP)) : "-";
            return fin("sz(" + std::to_string(cs.size()) + "," + proto::fmt_bool(cs.empty()) + "," + full + "," + std::to_string(cs.max_size()) + ")",
                "sz(" + std::to_string(scur.size()) + "," + proto::fmt_bool(scur.empty()) + "," + sfull + "," + std::to_string(CAP) + ")");
        }
        if (op == "clear") {
            s.clear();
            scur.clear();
            return fin("ok", "ok");
        }
        if (op == "extract") {
            if constexpr (is_ss) {
                return "bad-op\tbad-op";
            } else {
                Cont c = std::move(s).extract();
                std::vector<long long> a(c.begin(), c.end());
                std::vector<long long> b(scur.begin(), scur.end());
                scur.clear();
                return fin(proto::fmt_list(a), proto::fmt_list(b));
            }
        }
        if constexpr (!is_fv) {
        if (op == "erase_if") {
            int m     = static_cast<int>(l.i("m"));
            int r     = static_cast<int>(l.i("r"));
            auto pred = [m, r](int v) { return v % m == r; };
            auto a    = etl::erase_if(s, pred);
            auto b    = std::erase_if(scur, pred);
            return fin(std::to_string(a), std::to_string(b));
        }
        if (op == "insert") {
            int k           = static_cast<int>(l.i("k"));
            std::string via = l.has("via") ? l.str("via") : "insert";
            bool present    = scur.count(k) != 0;
            bool room       = scur.size() < static_cast<std::size_t>(CAP);
            std::string a, b;
            if (via == "hint") {
                if constexpr (is_ss) {
                    return "bad-op\tbad-op";
                } else {
                    auto hint = s.begin() + std::min<std::size_t>(static_cast<std::size_t>(l.i("pos", 0)), s.size());
                    auto it   = cst ? s.insert(typename S::const_iterator(hint), static_cast<int const&>(k))
                                    : s.insert(typename S::const_iterator(hint), int(k));
                    a         = (it == s.end()) ? "full" : "it(" + std::to_string(off(it)) + ")";
                    if (!present && !room) {
                        b = "full";
                    } else {
                        auto sit = scur.insert(scur.begin(), k);
                        b        = "it(" + std::to_string(soff(sit)) + ")";
                    }
                    return fin(a, b);
                }
            }
            auto before = s.size();
            if (via == "emplace") {
                a = ins_str(s.emplace(k), before);
            } else if (via == "move") {
                int tmp = k;
                a       = ins_str(s.insert(std::move(tmp)), before);
            } else {
                int const& ref = k;
                a              = ins_str(s.insert(ref), before);
            }
            if (!present && !room) {
                b = "full";
            } else {
                auto r = (via == "emplace") ? scur.emplace(k) : scur.insert(k);
                b      = "ins(" + std::to_string(soff(r.first)) + "," + (r.second ? "1" : "0") + ")";
            }
            return fin(a, b);
        }
        if (op == "insert_range") {
            auto const& ks = l.list("ks");
            std::vector<int> v(ks.begin(), ks.end());
            if (l.i("su", 0) == 1) {
                // insert(sorted_unique, first, last): the generator hands a sequence sorted w.r.t. the comparator and unique
                if constexpr (is_ss) {
                    return "bad-op\tbad-op";
                } else {
                    s.insert(etl::sorted_unique, static_cast<int const*>(v.data()), static_cast<int const*>(v.data() + v.size()));
                }
            } else {
                s.insert(static_cast<int const*>(v.data()), static_cast<int const*>(v.data() + v.size()));
            }
            for (int k : v) {
                if (scur.count(k) == 0 && scur.size() >= static_cast<std::size_t>(CAP)) continue;
                scur.insert(k);
            }
            return fin("ok", "ok");
        }
        if (op == "erase_key") {
            int k  = static_cast<int>(l.i("k"));
            auto a = s.erase(static_cast<int const&>(k));
            auto b = scur.erase(k);
            return fin(std::to_string(a), std::to_string(b));
        }
        if (op == "erase_at") {
            auto pos = static_cast<std::size_t>(l.i("pos"));
            std::size_t a;
            if constexpr (is_ss) {
                a = off(s.erase(s.begin() + pos));
            } else {
                a = cst ? off(s.erase(cs.begin() + pos)) : off(s.erase(s.begin() + pos));
            }
            auto b = soff(scur.erase(std::next(scur.begin(), static_cast<long>(pos))));
            return fin(std::to_string(a), std::to_string(b));
        }
        if (op == "erase_range") {
            auto f  = static_cast<std::size_t>(l.i("first"));
            auto la = static_cast<std::size_t>(l.i("last"));
            auto a  = off(s.erase(s.begin() + f, s.begin() + la));
            auto b  = soff(scur.erase(std::next(scur.begin(), static_cast<long>(f)), std::next(scur.begin(), static_cast<long>(la))));
            return fin(std::to_string(a), std::to_string(b));
        }
        if (op == "swap") {
            std::string via = l.has("via") ? l.str("via") : "member";
            if (via == "free") {
                using etl::swap;
                swap(*cur, *oth);
            } else {
                cur->swap(*oth);
            }
            scur.swap(soth);
            return fin("ok", "ok");
        }
        if (op == "replace") {
            if constexpr (is_ss) {
                return "bad-op\tbad-op";
            } else {
                auto const& c = l.list("c");
                std::vector<int> v(c.begin(), c.end());
                s.replace(Cont(static_cast<int const*>(v.data()), static_cast<int const*>(v.data() + v.size())));
                scur = O(v.begin(), v.end());
                return fin("ok", "ok");
            }
        }
        if (op == "riter") {
            std::vector<long long> a, b;
            if (cst) {
                for (auto it = cs.rbegin(); it != cs.rend(); ++it) a.push_back(*it);
            } else {
                for (auto it = s.rbegin(); it != s.rend(); ++it) a.push_back(*it);
            }
            for (auto it = scur.rbegin(); it != scur.rend(); ++it) b.push_back(*it);
            return fin(proto::fmt_list(a), proto::fmt_list(b));
        }
        }   // !is_fv
        // lookups
        if (!l.has("k")) return "bad-op\tbad-op";
        int k = static_cast<int>(l.i("k"));
        auto lookup = [&](auto f_e, auto f_s) -> std::string {
            std::string a, b;
            if (het) {
                if constexpr (transparent) {
                    if (band) {
                        BKey hk{k};
                        a = cst ? f_e(cs, hk) : f_e(s, hk);
                        b = f_s(scur, hk);
                    } else {
                        HKey hk{k};
                        a = cst ? f_e(cs, hk) : f_e(s, hk);
                        b = f_s(scur, hk);
                    }
                }
            } else {
                int const& ref = k;
                a              = cst ? f_e(cs, ref) : f_e(s, ref);
                b              = f_s(scur, ref);
            }
            return fin(a, b);
        };
        if (op == "find") {
            return lookup([&](auto& x, auto const& key) { return std::to_string(off(x.find(key))); },
                [&](auto& x, auto const& key) { return std::to_string(soff(x.find(key))); });
        }
        if (op == "contains") {
            return lookup([&](auto& x, auto const& key) { return proto::fmt_bool(std::as_const(x).contains(key)); },
                [&](auto& x, auto const& key) { return proto::fmt_bool(x.find(key) != x.end()); });
        }
        if (op == "count") {
            return lookup([&](auto& x, auto const& key) { return std::to_string(std::as_const(x).count(key)); },
                [&](auto& x, auto const& key) { return std::to_string(x.count(key)); });
        }
        if (op == "lower_bound") {
            return lookup([&](auto& x, auto const& key) { return std::to_string(off(x.lower_bound(key))); },
                [&](auto& x, auto const& key) { return std::to_string(soff(x.lower_bound(key))); });
        }
        if (op == "upper_bound") {
            return lookup([&](auto& x, auto const& key) { return std::to_string(off(x.upper_bound(key))); },
                [&](auto& x, auto const& key) { return std::to_string(soff(x.upper_bound(key))); });
        }
        if (op == "equal_range") {
            return lookup(
                [&](auto& x, auto const& key) {
                    auto r = x.equal_range(key);
                    return std::to_string(off(r.first)) + ":" + std::to_string(off(r.second));
                },
                [&](auto& x, auto const& key) {
                    auto r = x.equal_range(key);
                    return std::to_string(soff(r.first)) + ":" + std::to_string(soff(r.second));
                });
        }
        return "bad-op\tbad-op";
    }
};

template <K Kind, int CAP>
static std::unique_ptr<Session> make_cmp(Line const& l)
{
    std::string cmp = l.str("cmp");
    if (cmp == "less") return std::make_unique<SessionT<Kind, CAP, etl::less<int>, std::less<int>>>(l);
    if (cmp == "greater") return std::make_unique<SessionT<Kind, CAP, etl::greater<int>, std::greater<int>>>(l);
    if (cmp == "tless") return std::make_unique<SessionT<Kind, CAP, etl::less<>, std::less<>>>(l);
    if (cmp == "tgreater") return std::make_unique<SessionT<Kind, CAP, etl::greater<>, std::greater<>>>(l);
    if constexpr (Kind != K::fi) {
        if (cmp == "hless") return std::make_unique<SessionT<Kind, CAP, half_less, half_less>>(l);
    }
    return nullptr;
}

template <K Kind>
static std::unique_ptr<Session> make_cap(Line const& l)
{
    switch (l.i("cap")) {
    case 3: return make_cmp<Kind, 3>(l);
    case 4: return make_cmp<Kind, 4>(l);
    default: return nullptr;
    }
}

template <typename Cont, typename ECmp, typename SCmp>
static std::string mset(std::vector<long long> const& c)
{
    std::vector<int> v(c.begin(), c.end());
    auto ms = std::make_unique<etl::flat_multiset<int, Cont, ECmp>>(
        make_cont<Cont>(static_cast<int const*>(v.data()), static_cast<int const*>(v.data() + v.size())));
    std::vector<long long> a(ms->begin(), ms->end());
    std::multiset<int, SCmp> o(v.begin(), v.end());
    std::vector<long long> b(o.begin(), o.end());
    std::string extra = (ms->size() == v.size() && ms->empty() == v.empty()) ? "" : " !size";
    return proto::fmt_list(a) + extra + "\t" + proto::fmt_list(b);
}

int main(int argc, char** argv)
{
    std::unique_ptr<Session> live;
    return proto::run(argc, argv, [&](Line const& l) -> std::string {
        if (l.op == "new") {
            std::string kind = l.str("kind");
            live             = kind == "ss" ? make_cap<K::ss>(l) : kind == "fs" ? make_cap<K::fs>(l) : kind == "fi" ? make_cap<K::fi>(l)
                             : kind == "fv" ? make_cap<K::fv>(l) : nullptr;
            if (!live) return "bad-op\tbad-op";
            return live->initial();
        }
        if (l.op == "mset") {
            std::string cmp  = l.str("cmp");
            std::string kind = l.has("kind") ? l.str("kind") : "fs";
            auto const& c    = l.list("c");
            if (c.size() > 8) return "bad-op\tbad-op";
            if (kind == "fv") {
                using IV = etl::inplace_vector<int, 8>;
                if (cmp == "less") return mset<IV, etl::less<int>, std::less<int>>(c);
                if (cmp == "greater") return mset<IV, etl::greater<int>, std::greater<int>>(c);
                if (cmp == "tless") return mset<IV, etl::less<>, std::less<>>(c);
                if (cmp == "tgreater") return mset<IV, etl::greater<>, std::greater<>>(c);
                if (cmp == "hless") return mset<IV, half_less, half_less>(c);
            } else if (kind == "fi") {
                if (cmp == "less") return mset<mini_vec<int, 8>, etl::less<int>, std::less<int>>(c);
                if (cmp == "greater") return mset<mini_vec<int, 8>, etl::greater<int>, std::greater<int>>(c);
                if (cmp == "tless") return mset<mini_vec<int, 8>, etl::less<>, std::less<>>(c);
                if (cmp == "tgreater") return mset<mini_vec<int, 8>, etl::greater<>, std::greater<>>(c);
            } else {
                if (cmp == "less") return mset<etl::static_vector<int, 8>, etl::less<int>, std::less<int>>(c);
                if (cmp == "greater") return mset<etl::static_vector<int, 8>, etl::greater<int>, std::greater<int>>(c);
                if (cmp == "tless") return mset<etl::static_vector<int, 8>, etl::less<>, std::less<>>(c);
                if (cmp == "tgreater") return mset<etl::static_vector<int, 8>, etl::greater<>, std::greater<>>(c);
                if (cmp == "hless") return mset<etl::static_vector<int, 8>, half_less, half_less>(c);
            }
            return "bad-op\tbad-op";
        }
        if (!live) return "bad-op\tbad-op";
        return live->step(l);
    });
}
