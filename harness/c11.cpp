// C11 harness: etl::chrono calendar vs std::chrono on the same case lines.
#include "proto.hpp"

#include <etl/chrono.hpp>

#include <chrono>
#include <string>
#include <vector>

using proto::Line;
namespace ec = etl::chrono;
namespace sc = std::chrono;

static std::string t3(long long y, unsigned m, unsigned d) { return std::to_string(y) + "," + std::to_string(m) + "," + std::to_string(d); }
static std::string t2(long long y, unsigned m) { return std::to_string(y) + "," + std::to_string(m); }

// primary value, followed by "!<other>" for every sibling overload that disagrees with it
static std::string with_siblings(std::string primary, std::initializer_list<std::string> others)
{
    std::string r = primary;
    for (auto const& o : others)
        if (o != primary) r += "!" + o;
    return r;
}

static std::string with_siblings(std::string primary, std::vector<std::string> const& others)
{
    std::string r = primary;
    for (auto const& o : others)
        if (o != primary) r += "!" + o;
    return r;
}

// the calendar types of etl::chrono and of std::chrono under common names
struct EtlCal {
    using year = ec::year; using month = ec::month; using day = ec::day; using weekday = ec::weekday;
    using weekday_indexed = ec::weekday_indexed; using weekday_last = ec::weekday_last; using month_day_last = ec::month_day_last;
    using year_month = ec::year_month; using year_month_day = ec::year_month_day; using year_month_day_last = ec::year_month_day_last;
    using year_month_weekday = ec::year_month_weekday; using year_month_weekday_last = ec::year_month_weekday_last;
    using months = ec::months; using years = ec::years;
};
struct StdCal {
    using year = sc::year; using month = sc::month; using day = sc::day; using weekday = sc::weekday;
    using weekday_indexed = sc::weekday_indexed; using weekday_last = sc::weekday_last; using month_day_last = sc::month_day_last;
    using year_month = sc::year_month; using year_month_day = sc::year_month_day; using year_month_day_last = sc::year_month_day_last;
    using year_month_weekday = sc::year_month_weekday; using year_month_weekday_last = sc::year_month_weekday_last;
    using months = sc::months; using years = sc::years;
};

// one variant's result without any string work (templates instantiated 2 x 11 times: keep them cheap to compile):
// year, month, the third field as a number, whether the third field is the one put in, whether a compound form returned
// a reference to the changed object
struct Res {
    int y;
    unsigned m;
    unsigned f;
    bool kept;
    bool ref;
};

// the five spellings of `x + d`: x + d, d + x, x - (-d), x += d, x -= (-d)  (nd = -d)
template <typename T, typename D, typename G>
[[gnu::noinline]] static void five(std::vector<Res>& res, T const& x, D const& d, D const& nd, G get)
{
    res.push_back(get(x + d));
    res.push_back(get(d + x));
    res.push_back(get(x - nd));
    {
        auto e  = x;
        auto& r = (e += d);
        auto v  = get(e);
        v.ref   = &r == &e;
        res.push_back(v);
    }
    {
        auto e  = x;
        auto& r = (e -= nd);
        auto v  = get(e);
        v.ref   = &r == &e;
        res.push_back(v);
    }
}

// [time.cal.ym.nonmembers] ... [time.cal.ymwdlast.nonmembers]: (y, m) + k months (or + k years) through year_month,
// year_month_day (day d), year_month_day_last, year_month_weekday (weekday w, index i), year_month_weekday_last (weekday w);
// for years additionally through year itself (first five entries)
template <typename C, typename D>
[[gnu::noinline]] static std::vector<Res> plus_all(int y, unsigned m, unsigned d, unsigned w, unsigned i, int k, bool with_year)
{
    auto const Y  = typename C::year{y};
    auto const M  = typename C::month{m};
    auto const Dy = typename C::day{d};
    auto const W  = typename C::weekday{w};
    auto const WI = typename C::weekday_indexed{W, i};
    auto const WL = typename C::weekday_last{W};
    auto const dd = D{k};
    auto const nd = D{-k};
    std::vector<Res> v;
    if constexpr (std::is_same_v<D, typename C::years>) {
        if (with_year) five(v, Y, dd, nd, [&](auto const& x) { return Res{int{x}, 0U, 0U, true, true}; });
    }
    five(v, typename C::year_month{Y, M}, dd, nd, [&](auto const& x) { return Res{int{x.year()}, unsigned{x.month()}, 0U, true, true}; });
    five(v, typename C::year_month_day{Y, M, Dy}, dd, nd, [&](auto const& x) { return Res{int{x.year()}, unsigned{x.month()}, unsigned{x.day()}, x.day() == Dy, true}; });
    five(v, typename C::year_month_day_last{Y, typename C::month_day_last{M}}, dd, nd, [&](auto const& x) {
        return Res{int{x.year()}, unsigned{x.month()}, unsigned{x.month_day_last().month()}, x.month_day_last().month() == x.month(), true};
    });
    five(v, typename C::year_month_weekday{Y, M, WI}, dd, nd, [&](auto const& x) {
        return Res{int{x.year()}, unsigned{x.month()}, x.weekday().c_encoding() + 8 * x.index(), x.weekday() == W && x.index() == WI.index() && x.weekday_indexed() == WI, true};
    });
    five(v, typename C::year_month_weekday_last{Y, M, WL}, dd, nd, [&](auto const& x) {
        return Res{int{x.year()}, unsigned{x.month()}, x.weekday().c_encoding(), x.weekday() == W && x.weekday_last() == WL, true};
    });
    return v;
}

static char const* const field_tag[] = {"", "day", "mdl", "wdi", "wdl"};

// months: primary value year_month + months as "y,m"; every other variant is listed only when it differs (a lost day /
// weekday / index is shown as ",<field>=<value>")
[[gnu::noinline]] static std::string fold_months(std::vector<Res> const& v)
{
    std::vector<std::string> s;
    for (std::size_t n = 0; n < v.size(); ++n)
        s.push_back(t2(v[n].y, v[n].m) + (v[n].kept ? "" : std::string(",") + field_tag[n / 5] + "=" + std::to_string(v[n].f)) + (v[n].ref ? "" : ",ref"));
    auto const primary = s.front();
    s.erase(s.begin());
    return with_siblings(primary, s);
}

// years: primary value year + years as "y"; the month (month `m` was put in) must survive as well
[[gnu::noinline]] static std::string fold_years(std::vector<Res> const& v, unsigned m)
{
    std::vector<std::string> s;
    for (std::size_t n = 0; n < v.size(); ++n) {
        auto const t = n < 5 ? std::size_t{0} : n / 5 - 1;
        s.push_back(std::to_string(v[n].y) + ((n < 5 || v[n].m == m) ? "" : ",m=" + std::to_string(v[n].m))
                    + (v[n].kept ? "" : std::string(",") + field_tag[t] + "=" + std::to_string(v[n].f)) + (v[n].ref ? "" : ",ref"));
    }
    auto const primary = s.front();
    s.erase(s.begin());
    return with_siblings(primary, s);
}

static std::string step(Line const& l)
{
    auto out = [](std::string a, std::string b) { return a + "\t" + b; };
    if (l.op == "civil") {
        auto z = static_cast<int>(l.i("z"));
        ec::year_month_day e{ec::sys_days{ec::days{z}}};
        sc::year_month_day s{sc::sys_days{sc::days{z}}};
        ec::year_month_day el{ec::local_days{ec::days{z}}};
        return out(with_siblings(t3(int{e.year()}, unsigned{e.month()}, unsigned{e.day()}),
                       {t3(int{el.year()}, unsigned{el.month()}, unsigned{el.day()})}),
            t3(int{s.year()}, unsigned{s.month()}, unsigned{s.day()}));
    }
    if (l.op == "days") {
        ec::year_month_day e{ec::year{static_cast<int>(l.i("y"))}, ec::month{static_cast<unsigned>(l.i("m"))}, ec::day{static_cast<unsigned>(l.i("d"))}};
        sc::year_month_day s{sc::year{static_cast<int>(l.i("y"))}, sc::month{static_cast<unsigned>(l.i("m"))}, sc::day{static_cast<unsigned>(l.i("d"))}};
        auto re = ec::sys_days{e}.time_since_epoch().count();
        auto rl = ec::local_days{e}.time_since_epoch().count();
        auto rs = sc::sys_days{s}.time_since_epoch().count();
        return out(with_siblings(std::to_string(re), {std::to_string(rl)}), std::to_string(rs));
    }
    if (l.op == "weekday") {
        auto z = static_cast<int>(l.i("z"));
        ec::weekday e{ec::sys_days{ec::days{z}}};
        ec::weekday el{ec::local_days{ec::days{z}}};
        sc::weekday s{sc::sys_days{sc::days{z}}};
        return out(with_siblings(std::to_string(e.c_encoding()), {std::to_string(el.c_encoding())}), std::to_string(s.c_encoding()));
    }
    if (l.op == "ok") {
        ec::year_month_day e{ec::year{static_cast<int>(l.i("y"))}, ec::month{static_cast<unsigned>(l.i("m"))}, ec::day{static_cast<unsigned>(l.i("d"))}};
        sc::year_month_day s{sc::year{static_cast<int>(l.i("y"))}, sc::month{static_cast<unsigned>(l.i("m"))}, sc::day{static_cast<unsigned>(l.i("d"))}};
        return out(proto::fmt_bool(e.ok()), proto::fmt_bool(s.ok()));
    }
    if (l.op == "is_leap") {
        return out(proto::fmt_bool(ec::year{static_cast<int>(l.i("y"))}.is_leap()), proto::fmt_bool(sc::year{static_cast<int>(l.i("y"))}.is_leap()));
    }
    if (l.op == "last_day") {
        ec::year_month_day_last e{ec::year{static_cast<int>(l.i("y"))}, ec::month_day_last{ec::month{static_cast<unsigned>(l.i("m"))}}};
        sc::year_month_day_last s{sc::year{static_cast<int>(l.i("y"))}, sc::month_day_last{sc::month{static_cast<unsigned>(l.i("m"))}}};
        return out(std::to_string(unsigned{e.day()}), std::to_string(unsigned{s.day()}));
    }
    if (l.op == "month_plus") {
        auto m = static_cast<unsigned>(l.i("m"));
        auto k = static_cast<int>(l.i("k"));
        auto e1 = ec::month{m} + ec::months{k};
        auto e2 = ec::months{k} + ec::month{m};
        auto e3 = ec::month{m} - ec::months{-k};
        auto e4 = ec::month{m};
        e4 += ec::months{k};
        auto e5 = ec::month{m};
        e5 -= ec::months{-k};
        auto s1 = sc::month{m} + sc::months{k};
        return out(with_siblings(std::to_string(unsigned{e1}), {std::to_string(unsigned{e2}), std::to_string(unsigned{e3}), std::to_string(unsigned{e4}), std::to_string(unsigned{e5})}),
            std::to_string(unsigned{s1}));
    }
    if (l.op == "month_diff") {
        auto e = ec::month{static_cast<unsigned>(l.i("a"))} - ec::month{static_cast<unsigned>(l.i("b"))};
        auto s = sc::month{static_cast<unsigned>(l.i("a"))} - sc::month{static_cast<unsigned>(l.i("b"))};
        return out(std::to_string(e.count()), std::to_string(s.count()));
    }
    if (l.op == "ym_plus") {       // (y, m [, day d, weekday w, index i]) + k months: every variant of every type, etl and std
        auto y = static_cast<int>(l.i("y"));
        auto m = static_cast<unsigned>(l.i("m"));
        auto k = static_cast<int>(l.i("k"));
        auto d = static_cast<unsigned>(l.i("d", 28));
        auto w = static_cast<unsigned>(l.i("w", 3));
        auto i = static_cast<unsigned>(l.i("i", 3));
        return out(fold_months(plus_all<EtlCal, ec::months>(y, m, d, w, i, k, false)), fold_months(plus_all<StdCal, sc::months>(y, m, d, w, i, k, false)));
    }
    if (l.op == "year_plus") {     // (y [, month m, day d, weekday w, index i]) + k years
        auto y = static_cast<int>(l.i("y"));
        auto k = static_cast<int>(l.i("k"));
        auto m = static_cast<unsigned>(l.i("m", 7));
        auto d = static_cast<unsigned>(l.i("d", 28));
        auto w = static_cast<unsigned>(l.i("w", 3));
        auto i = static_cast<unsigned>(l.i("i", 3));
        auto const mm = unsigned{ec::month{m}};
        return out(fold_years(plus_all<EtlCal, ec::years>(y, m, d, w, i, k, true), mm), fold_years(plus_all<StdCal, sc::years>(y, m, d, w, i, k, true), mm));
    }
    if (l.op == "year_diff") {
        auto e = ec::year{static_cast<int>(l.i("a"))} - ec::year{static_cast<int>(l.i("b"))};
        auto s = sc::year{static_cast<int>(l.i("a"))} - sc::year{static_cast<int>(l.i("b"))};
        return out(std::to_string(e.count()), std::to_string(s.count()));
    }
    if (l.op == "ym_diff") {       // year_month - year_month, and ym2 + (ym1 - ym2); "missing" when the operator does not exist
        auto y1 = static_cast<int>(l.i("y1"));
        auto m1 = static_cast<unsigned>(l.i("m1"));
        auto y2 = static_cast<int>(l.i("y2"));
        auto m2 = static_cast<unsigned>(l.i("m2"));
        auto f = [](auto const& a, auto const& b) -> std::string {
            if constexpr (requires { (a - b).count(); }) {
                auto const k = a - b;
                auto const r = b + k;
                return std::to_string(k.count()) + "," + t2(int{r.year()}, unsigned{r.month()});
            } else {
                return "missing";
            }
        };
        return out(f(ec::year_month{ec::year{y1}, ec::month{m1}}, ec::year_month{ec::year{y2}, ec::month{m2}}),
            f(sc::year_month{sc::year{y1}, sc::month{m1}}, sc::year_month{sc::year{y2}, sc::month{m2}}));
    }
    if (l.op == "incdec") {   // ++x, x++, --x, x-- of day / month / year / weekday; iso_encoding
        auto v = static_cast<int>(l.i("v"));
        auto what = l.str("what");
        auto fmt4 = [](auto a, auto b, auto c, auto d) { return std::to_string(a) + "," + std::to_string(b) + "," + std::to_string(c) + "," + std::to_string(d); };
        if (what == "day") {
            ec::day a{static_cast<unsigned>(v)}, b{static_cast<unsigned>(v)}, c{static_cast<unsigned>(v)}, d{static_cast<unsigned>(v)};
            sc::day sa{static_cast<unsigned>(v)}, sb{static_cast<unsigned>(v)}, sc_{static_cast<unsigned>(v)}, sd{static_cast<unsigned>(v)};
            ++a; auto b0 = b++; --c; auto d0 = d--; ++sa; auto sb0 = sb++; --sc_; auto sd0 = sd--;
            return out(fmt4(unsigned{a}, unsigned{b0} * 1000 + unsigned{b}, unsigned{c}, unsigned{d0} * 1000 + unsigned{d}),
                fmt4(unsigned{sa}, unsigned{sb0} * 1000 + unsigned{sb}, unsigned{sc_}, unsigned{sd0} * 1000 + unsigned{sd}));
        }
        if (what == "month") {
            ec::month a{static_cast<unsigned>(v)}, b{static_cast<unsigned>(v)}, c{static_cast<unsigned>(v)}, d{static_cast<unsigned>(v)};
            sc::month sa{static_cast<unsigned>(v)}, sb{static_cast<unsigned>(v)}, sc_{static_cast<unsigned>(v)}, sd{static_cast<unsigned>(v)};
            ++a; auto b0 = b++; --c; auto d0 = d--; ++sa; auto sb0 = sb++; --sc_; auto sd0 = sd--;
            return out(fmt4(unsigned{a}, unsigned{b0} * 1000 + unsigned{b}, unsigned{c}, unsigned{d0} * 1000 + unsigned{d}),
                fmt4(unsigned{sa}, unsigned{sb0} * 1000 + unsigned{sb}, unsigned{sc_}, unsigned{sd0} * 1000 + unsigned{sd}));
        }
        if (what == "year") {
            ec::year a{v}, b{v}, c{v}, d{v};
            sc::year sa{v}, sb{v}, sc_{v}, sd{v};
            ++a; auto b0 = b++; --c; auto d0 = d--; ++sa; auto sb0 = sb++; --sc_; auto sd0 = sd--;
            return out(fmt4(int{a}, int{b0} * 100000LL + int{b}, int{c}, int{d0} * 100000LL + int{d}),
                fmt4(int{sa}, int{sb0} * 100000LL + int{sb}, int{sc_}, int{sd0} * 100000LL + int{sd}));
        }
        if (what == "weekday") {
            ec::weekday a{static_cast<unsigned>(v)}, b{static_cast<unsigned>(v)}, c{static_cast<unsigned>(v)}, d{static_cast<unsigned>(v)};
            sc::weekday sa{static_cast<unsigned>(v)}, sb{static_cast<unsigned>(v)}, sc_{static_cast<unsigned>(v)}, sd{static_cast<unsigned>(v)};
            auto iso = a.iso_encoding(); auto siso = sa.iso_encoding();
            ++a; auto b0 = b++; --c; auto d0 = d--; ++sa; auto sb0 = sb++; --sc_; auto sd0 = sd--;
            return out(fmt4(a.c_encoding(), b0.c_encoding() * 1000 + b.c_encoding(), c.c_encoding(), d0.c_encoding() * 1000 + d.c_encoding()) + "," + std::to_string(iso),
                fmt4(sa.c_encoding(), sb0.c_encoding() * 1000 + sb.c_encoding(), sc_.c_encoding(), sd0.c_encoding() * 1000 + sd.c_encoding()) + "," + std::to_string(siso));
        }
        return "bad-op\tbad-op";
    }
    if (l.op == "oks") {      // ok() of the partial-date types: month_day, weekday_indexed, month_weekday(_last), year_month, year_month_day_last
        auto y = static_cast<int>(l.i("y"));
        auto m = static_cast<unsigned>(l.i("m"));
        auto d = static_cast<unsigned>(l.i("d"));
        auto w = static_cast<unsigned>(l.i("w"));
        auto i = static_cast<unsigned>(l.i("i"));
        auto b = [](bool x) { return x ? '1' : '0'; };
        std::string re, rs;
        re += b(ec::month_day{ec::month{m}, ec::day{d}}.ok());
        rs += b(sc::month_day{sc::month{m}, sc::day{d}}.ok());
        re += b(ec::weekday_indexed{ec::weekday{w}, i}.ok());
        rs += b(sc::weekday_indexed{sc::weekday{w}, i}.ok());
        re += b(ec::month_weekday{ec::month{m}, ec::weekday_indexed{ec::weekday{w}, i}}.ok());
        rs += b(sc::month_weekday{sc::month{m}, sc::weekday_indexed{sc::weekday{w}, i}}.ok());
        re += b(ec::month_weekday_last{ec::month{m}, ec::weekday_last{ec::weekday{w}}}.ok());
        rs += b(sc::month_weekday_last{sc::month{m}, sc::weekday_last{sc::weekday{w}}}.ok());
        re += b(ec::year_month{ec::year{y}, ec::month{m}}.ok());
        rs += b(sc::year_month{sc::year{y}, sc::month{m}}.ok());
        re += b(ec::year_month_day_last{ec::year{y}, ec::month_day_last{ec::month{m}}}.ok());
        rs += b(sc::year_month_day_last{sc::year{y}, sc::month_day_last{sc::month{m}}}.ok());
        re += b(ec::month_day_last{ec::month{m}}.ok());
        rs += b(sc::month_day_last{sc::month{m}}.ok());
        return out(re, rs);
    }
    if (l.op == "wd_plus" || l.op == "wd_minus" || l.op == "wd_add_assign" || l.op == "wd_sub_assign") {
        auto w = static_cast<unsigned>(l.i("w"));
        auto k = static_cast<int>(l.i("k"));
        unsigned re = 0, rs = 0;
        if (l.op == "wd_plus") {
            re = (ec::weekday{w} + ec::days{k}).c_encoding();
            auto e2 = (ec::days{k} + ec::weekday{w}).c_encoding();
            rs = (sc::weekday{w} + sc::days{k}).c_encoding();
            return out(with_siblings(std::to_string(re), {std::to_string(e2)}), std::to_string(rs));
        }
        if (l.op == "wd_minus") {
            re = (ec::weekday{w} - ec::days{k}).c_encoding();
            rs = (sc::weekday{w} - sc::days{k}).c_encoding();
        } else if (l.op == "wd_add_assign") {
            ec::weekday e{w};
            e += ec::days{k};
            sc::weekday s{w};
            s += sc::days{k};
            re = e.c_encoding();
            rs = s.c_encoding();
        } else {
            ec::weekday e{w};
            e -= ec::days{k};
            sc::weekday s{w};
            s -= sc::days{k};
            re = e.c_encoding();
            rs = s.c_encoding();
        }
        return out(std::to_string(re), std::to_string(rs));
    }
    if (l.op == "ymw") {           // sys_days -> year_month_weekday -> sys_days
        auto z = static_cast<int>(l.i("z"));
        ec::year_month_weekday e{ec::sys_days{ec::days{z}}};
        sc::year_month_weekday s{sc::sys_days{sc::days{z}}};
        ec::year_month_weekday el{ec::local_days{ec::days{z}}};
        auto f = [](auto const& x, long back) {
            return std::to_string(int{x.year()}) + "," + std::to_string(unsigned{x.month()}) + "," + std::to_string(x.weekday().c_encoding()) + ","
                 + std::to_string(x.index()) + "," + proto::fmt_bool(x.ok()) + "," + std::to_string(back);
        };
        return out(with_siblings(f(e, ec::sys_days{e}.time_since_epoch().count()), {f(el, ec::local_days{el}.time_since_epoch().count())}),
            f(s, sc::sys_days{s}.time_since_epoch().count()));
    }
    if (l.op == "ymw_days" || l.op == "ymwl_days") {   // (y, m, weekday[index] | weekday[last]) -> sys_days
        auto y = static_cast<int>(l.i("y"));
        auto m = static_cast<unsigned>(l.i("m"));
        auto w = static_cast<unsigned>(l.i("w"));
        if (l.op == "ymw_days") {
            auto i = static_cast<unsigned>(l.i("i"));
            ec::year_month_weekday e{ec::year{y}, ec::month{m}, ec::weekday_indexed{ec::weekday{w}, i}};
            sc::year_month_weekday s{sc::year{y}, sc::month{m}, sc::weekday_indexed{sc::weekday{w}, i}};
            return out(std::to_string(ec::sys_days{e}.time_since_epoch().count()) + "," + proto::fmt_bool(e.ok()),
                std::to_string(sc::sys_days{s}.time_since_epoch().count()) + "," + proto::fmt_bool(s.ok()));
        }
        ec::year_month_weekday_last e{ec::year{y}, ec::month{m}, ec::weekday_last{ec::weekday{w}}};
        sc::year_month_weekday_last s{sc::year{y}, sc::month{m}, sc::weekday_last{sc::weekday{w}}};
        ec::year_month_day_last edl{ec::year{y}, ec::month_day_last{ec::month{m}}};
        sc::year_month_day_last sdl{sc::year{y}, sc::month_day_last{sc::month{m}}};
        return out(std::to_string(ec::sys_days{e}.time_since_epoch().count()) + "," + proto::fmt_bool(e.ok()) + "," + std::to_string(ec::sys_days{edl}.time_since_epoch().count()),
            std::to_string(sc::sys_days{s}.time_since_epoch().count()) + "," + proto::fmt_bool(s.ok()) + "," + std::to_string(sc::sys_days{sdl}.time_since_epoch().count()));
    }
    if (l.op == "wd_diff") {
        auto e = ec::weekday{static_cast<unsigned>(l.i("a"))} - ec::weekday{static_cast<unsigned>(l.i("b"))};
        auto s = sc::weekday{static_cast<unsigned>(l.i("a"))} - sc::weekday{static_cast<unsigned>(l.i("b"))};
        return out(std::to_string(e.count()), std::to_string(s.count()));
    }
    return "bad-op\tbad-op";
}

int main(int argc, char** argv) { return proto::run(argc, argv, step); }
