// C11 harness: etl::chrono calendar vs std::chrono on the same case lines.
#include "proto.hpp"

#include <etl/chrono.hpp>

#include <chrono>

using proto::Line;
namespace ec = etl::chrono;
namespace sc = std::chrono;

static std::string t3(long long y, unsigned m, unsigned d) { return std::to_string(y) + "," + std::to_string(m) + "," + std::to_string(d); }
static std::string t2(long long y, unsigned m) { return std::to_string(y) + "," + std::to_string(m); }

// primary value, followed by "!<other>" for every sibling overload that disagrees with it
static std::string with_siblings(std::string primary, std::initializer_list<std::string> others)
{
    std::string r = primary;
    for (auto const& o : others)
        if (o != primary) r += "!" + o;
    return r;
}

static std::string step(Line const& l)
{
    auto out = [](std::string a, std::string b) { return a + "\t" + b; };
    if (l.op == "civil") {
        auto z = static_cast<int>(l.i("z"));
        ec::year_month_day e{ec::sys_days{ec::days{z}}};
        sc::year_month_day s{sc::sys_days{sc::days{z}}};
        ec::year_month_day el{ec::local_days{ec::days{z}}};
        return out(with_siblings(t3(int{e.year()}, unsigned{e.month()}, unsigned{e.day()}),
                       {t3(int{el.year()}, unsigned{el.month()}, unsigned{el.day()})}),
            t3(int{s.year()}, unsigned{s.month()}, unsigned{s.day()}));
    }
    if (l.op == "days") {
        ec::year_month_day e{ec::year{static_cast<int>(l.i("y"))}, ec::month{static_cast<unsigned>(l.i("m"))}, ec::day{static_cast<unsigned>(l.i("d"))}};
        sc::year_month_day s{sc::year{static_cast<int>(l.i("y"))}, sc::month{static_cast<unsigned>(l.i("m"))}, sc::day{static_cast<unsigned>(l.i("d"))}};
        auto re = ec::sys_days{e}.time_since_epoch().count();
        auto rl = ec::local_days{e}.time_since_epoch().count();
        auto rs = sc::sys_days{s}.time_since_epoch().count();
        return out(with_siblings(std::to_string(re), {std::to_string(rl)}), std::to_string(rs));
    }
    if (l.op == "weekday") {
        auto z = static_cast<int>(l.i("z"));
        ec::weekday e{ec::sys_days{ec::days{z}}};
        ec::weekday el{ec::local_days{ec::days{z}}};
        sc::weekday s{sc::sys_days{sc::days{z}}};
        return out(with_siblings(std::to_string(e.c_encoding()), {std::to_string(el.c_encoding())}), std::to_string(s.c_encoding()));
    }
    if (l.op == "ok") {
        ec::year_month_day e{ec::year{static_cast<int>(l.i("y"))}, ec::month{static_cast<unsigned>(l.i("m"))}, ec::day{static_cast<unsigned>(l.i("d"))}};
        sc::year_month_day s{sc::year{static_cast<int>(l.i("y"))}, sc::month{static_cast<unsigned>(l.i("m"))}, sc::day{static_cast<unsigned>(l.i("d"))}};
        return out(proto::fmt_bool(e.ok()), proto::fmt_bool(s.ok()));
    }
    if (l.op == "is_leap") {
        return out(proto::fmt_bool(ec::year{static_cast<int>(l.i("y"))}.is_leap()), proto::fmt_bool(sc::year{static_cast<int>(l.i("y"))}.is_leap()));
    }
    if (l.op == "last_day") {
        ec::year_month_day_last e{ec::year{static_cast<int>(l.i("y"))}, ec::month_day_last{ec::month{static_cast<unsigned>(l.i("m"))}}};
        sc::year_month_day_last s{sc::year{static_cast<int>(l.i("y"))}, sc::month_day_last{sc::month{static_cast<unsigned>(l.i("m"))}}};
        return out(std::to_string(unsigned{e.day()}), std::to_string(unsigned{s.day()}));
    }
    if (l.op == "month_plus") {
        auto m = static_cast<unsigned>(l.i("m"));
        auto k = static_cast<int>(l.i("k"));
        auto e1 = ec::month{m} + ec::months{k};
        auto e2 = ec::months{k} + ec::month{m};
        auto e3 = ec::month{m} - ec::months{-k};
        auto e4 = ec::month{m};
        e4 += ec::months{k};
        auto e5 = ec::month{m};
        e5 -= ec::months{-k};
        auto s1 = sc::month{m} + sc::months{k};
        return out(with_siblings(std::to_string(unsigned{e1}), {std::to_string(unsigned{e2}), std::to_string(unsigned{e3}), std::to_string(unsigned{e4}), std::to_string(unsigned{e5})}),
            std::to_string(unsigned{s1}));
    }
    if (l.op == "month_diff") {
        auto e = ec::month{static_cast<unsigned>(l.i("a"))} - ec::month{static_cast<unsigned>(l.i("b"))};
        auto s = sc::month{static_cast<unsigned>(l.i("a"))} - sc::month{static_cast<unsigned>(l.i("b"))};
        return out(std::to_string(e.count()), std::to_string(s.count()));
    }
    if (l.op == "ym_plus") {
        auto y = static_cast<int>(l.i("y"));
        auto m = static_cast<unsigned>(l.i("m"));
        auto k = static_cast<int>(l.i("k"));
        ec::year_month ym{ec::year{y}, ec::month{m}};
        auto e1 = ym + ec::months{k};
        auto e2 = ec::months{k} + ym;
        auto e3 = ym - ec::months{-k};
        auto e4 = ym;
        e4 += ec::months{k};
        auto e5 = ec::year_month_day{ec::year{y}, ec::month{m}, ec::day{1}} + ec::months{k};
        auto e6 = ec::year_month_day_last{ec::year{y}, ec::month_day_last{ec::month{m}}} + ec::months{k};
        auto e7 = ec::year_month_weekday{ec::year{y}, ec::month{m}, ec::weekday_indexed{ec::weekday{1}, 1}} + ec::months{k};
        auto e8 = ec::year_month_weekday_last{ec::year{y}, ec::month{m}, ec::weekday_last{ec::weekday{1}}} + ec::months{k};
        auto e10 = ec::year_month_weekday_last{ec::year{y}, ec::month{m}, ec::weekday_last{ec::weekday{1}}};
        e10 -= ec::months{-k};
        auto e11 = ec::year_month_weekday{ec::year{y}, ec::month{m}, ec::weekday_indexed{ec::weekday{1}, 1}};
        e11 += ec::months{k};
        auto e9 = ec::year_month_day{ec::year{y}, ec::month{m}, ec::day{1}};
        e9 -= ec::months{-k};
        auto s1 = sc::year_month{sc::year{y}, sc::month{m}} + sc::months{k};
        auto f  = [](auto const& x) { return t2(int{x.year()}, unsigned{x.month()}); };
        return out(with_siblings(f(e1), {f(e2), f(e3), f(e4), f(e5), f(e6), f(e7), f(e8), f(e9), f(e10), f(e11)}), f(s1));
    }
    if (l.op == "year_plus") {
        auto y = static_cast<int>(l.i("y"));
        auto k = static_cast<int>(l.i("k"));
        auto e1 = ec::year{y} + ec::years{k};
        auto e2 = ec::years{k} + ec::year{y};
        auto e3 = ec::year{y};
        e3 += ec::years{k};
        auto e4 = ec::year_month{ec::year{y}, ec::month{1}} + ec::years{k};
        auto e5 = ec::year_month_day{ec::year{y}, ec::month{1}, ec::day{1}} + ec::years{k};
        auto s1 = sc::year{y} + sc::years{k};
        return out(with_siblings(std::to_string(int{e1}), {std::to_string(int{e2}), std::to_string(int{e3}), std::to_string(int{e4.year()}), std::to_string(int{e5.year()})}),
            std::to_string(int{s1}));
    }
    if (l.op == "wd_plus" || l.op == "wd_minus" || l.op == "wd_add_assign" || l.op == "wd_sub_assign") {
        auto w = static_cast<unsigned>(l.i("w"));
        auto k = static_cast<int>(l.i("k"));
        unsigned re = 0, rs = 0;
        if (l.op == "wd_plus") {
            re = (ec::weekday{w} + ec::days{k}).c_encoding();
            auto e2 = (ec::days{k} + ec::weekday{w}).c_encoding();
            rs = (sc::weekday{w} + sc::days{k}).c_encoding();
            return out(with_siblings(std::to_string(re), {std::to_string(e2)}), std::to_string(rs));
        }
        if (l.op == "wd_minus") {
            re = (ec::weekday{w} - ec::days{k}).c_encoding();
            rs = (sc::weekday{w} - sc::days{k}).c_encoding();
        } else if (l.op == "wd_add_assign") {
            ec::weekday e{w};
            e += ec::days{k};
            sc::weekday s{w};
            s += sc::days{k};
            re = e.c_encoding();
            rs = s.c_encoding();
        } else {
            ec::weekday e{w};
            e -= ec::days{k};
            sc::weekday s{w};
            s -= sc::days{k};
            re = e.c_encoding();
            rs = s.c_encoding();
        }
        return out(std::to_string(re), std::to_string(rs));
    }
    if (l.op == "ymw") {           // sys_days -> year_month_weekday -> sys_days
        auto z = static_cast<int>(l.i("z"));
        ec::year_month_weekday e{ec::sys_days{ec::days{z}}};
        sc::year_month_weekday s{sc::sys_days{sc::days{z}}};
        ec::year_month_weekday el{ec::local_days{ec::days{z}}};
        auto f = [](auto const& x, long back) {
            return std::to_string(int{x.year()}) + "," + std::to_string(unsigned{x.month()}) + "," + std::to_string(x.weekday().c_encoding()) + ","
                 + std::to_string(x.index()) + "," + proto::fmt_bool(x.ok()) + "," + std::to_string(back);
        };
        return out(with_siblings(f(e, ec::sys_days{e}.time_since_epoch().count()), {f(el, ec::local_days{el}.time_since_epoch().count())}),
            f(s, sc::sys_days{s}.time_since_epoch().count()));
    }
    if (l.op == "ymw_days" || l.op == "ymwl_days") {   // (y, m, weekday[index] | weekday[last]) -> sys_days
        auto y = static_cast<int>(l.i("y"));
        auto m = static_cast<unsigned>(l.i("m"));
        auto w = static_cast<unsigned>(l.i("w"));
        if (l.op == "ymw_days") {
            auto i = static_cast<unsigned>(l.i("i"));
            ec::year_month_weekday e{ec::year{y}, ec::month{m}, ec::weekday_indexed{ec::weekday{w}, i}};
            sc::year_month_weekday s{sc::year{y}, sc::month{m}, sc::weekday_indexed{sc::weekday{w}, i}};
            return out(std::to_string(ec::sys_days{e}.time_since_epoch().count()) + "," + proto::fmt_bool(e.ok()),
                std::to_string(sc::sys_days{s}.time_since_epoch().count()) + "," + proto::fmt_bool(s.ok()));
        }
        ec::year_month_weekday_last e{ec::year{y}, ec::month{m}, ec::weekday_last{ec::weekday{w}}};
        sc::year_month_weekday_last s{sc::year{y}, sc::month{m}, sc::weekday_last{sc::weekday{w}}};
        ec::year_month_day_last edl{ec::year{y}, ec::month_day_last{ec::month{m}}};
        sc::year_month_day_last sdl{sc::year{y}, sc::month_day_last{sc::month{m}}};
        return out(std::to_string(ec::sys_days{e}.time_since_epoch().count()) + "," + proto::fmt_bool(e.ok()) + "," + std::to_string(ec::sys_days{edl}.time_since_epoch().count()),
            std::to_string(sc::sys_days{s}.time_since_epoch().count()) + "," + proto::fmt_bool(s.ok()) + "," + std::to_string(sc::sys_days{sdl}.time_since_epoch().count()));
    }
    if (l.op == "wd_diff") {
        auto e = ec::weekday{static_cast<unsigned>(l.i("a"))} - ec::weekday{static_cast<unsigned>(l.i("b"))};
        auto s = sc::weekday{static_cast<unsigned>(l.i("a"))} - sc::weekday{static_cast<unsigned>(l.i("b"))};
        return out(std::to_string(e.count()), std::to_string(s.count()));
    }
    return "bad-op\tbad-op";
}

int main(int argc, char** argv) { return proto::run(argc, argv, step); }
