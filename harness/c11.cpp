// C11 harness: etl::chrono calendar vs std::chrono on the same case lines.
#include "proto.hpp"

#include <etl/chrono.hpp>

#include <chrono>

using proto::Line;
namespace ec = etl::chrono;
namespace sc = std::chrono;

static std::string t3(long long y, unsigned m, unsigned d) { return std::to_string(y) + "," + std::to_string(m) + "," + std::to_string(d); }
static std::string t2(long long y, unsigned m) { return std::to_string(y) + "," + std::to_string(m); }

// primary value, followed by "!<other>" for every sibling overload that disagrees with it
static std::string with_siblings(std::string primary, std::initializer_list<std::string> others)
{
    std::string r = primary;
    for (auto const& o : others)
        if (o != primary) r += "!" + o;
    return r;
}

static std::string step(Line const& l)
{
    auto out = [](std::string a, std::string b) { return a + "\t" + b; };
    if (l.op == "civil") {
        auto z = static_cast<int>(l.i("z"));
        ec::year_month_day e{ec::sys_days{ec::days{z}}};
        sc::year_month_day s{sc::sys_days{sc::days{z}}};
        ec::year_month_day el{ec::local_days{ec::days{z}}};
        return out(with_siblings(t3(int{e.year()}, unsigned{e.month()}, unsigned{e.day()}),
                       {t3(int{el.year()}, unsigned{el.month()}, unsigned{el.day()})}),
            t3(int{s.year()}, unsigned{s.month()}, unsigned{s.day()}));
    }
    if (l.op == "days") {
        ec::year_month_day e{ec::year{static_cast<int>(l.i("y"))}, ec::month{static_cast<unsigned>(l.i("m"))}, ec::day{static_cast<unsigned>(l.i("d"))}};
        sc::year_month_day s{sc::year{static_cast<int>(l.i("y"))}, sc::month{static_cast<unsigned>(l.i("m"))}, sc::day{static_cast<unsigned>(l.i("d"))}};
        auto re = ec::sys_days{e}.time_since_epoch().count();
        auto rl = ec::local_days{e}.time_since_epoch().count();
        auto rs = sc::sys_days{s}.time_since_epoch().count();
        return out(with_siblings(std::to_string(re), {std::to_string(rl)}), std::to_string(rs));
    }
    if (l.op == "weekday") {
        auto z = static_cast<int>(l.i("z"));
        ec::weekday e{ec::sys_days{ec::days{z}}};
        ec::weekday el{ec::local_days{ec::days{z}}};
        sc::weekday s{sc::sys_days{sc::days{z}}};
        return out(with_siblings(std::to_string(e.c_encoding()), {std::to_string(el.c_encoding())}), std::to_string(s.c_encoding()));
    }
    if (l.op == "ok") {
        ec::year_month_day e{ec::year{static_cast<int>(l.i("y"))}, ec::month{static_cast<unsigned>(l.i("m"))}, ec::day{static_cast<unsigned>(l.i("d"))}};
        sc::year_month_day s{sc::year{static_cast<int>(l.i("y"))}, sc::month{static_cast<unsigned>(l.i("m"))}, sc::day{static_cast<unsigned>(l.i("d"))}};
        return out(proto::fmt_bool(e.ok()), proto::fmt_bool(s.ok()));
    }
    if (l.op == "is_leap") {
        return out(proto::fmt_bool(ec::year{static_cast<int>(l.i("y"))}.is_leap()), proto::fmt_bool(sc::year{static_cast<int>(l.i("y"))}.is_leap()));
    }
    if (l.op == "last_day") {
        ec::year_month_day_last e{ec::year{static_cast<int>(l.i("y"))}, ec::month_day_last{ec::month{static_cast<unsigned>(l.i("m"))}}};
        sc::year_month_day_last s{sc::year{static_cast<int>(l.i("y"))}, sc::month_day_last{sc::month{static_cast<unsigned>(l.i("m"))}}};
        return out(std::to_string(unsigned{e.day()}), std::to_string(unsigned{s.day()}));
    }
    if (l.op == "month_plus") {
        auto m = static_cast<unsigned>(l.i("m"));
        auto k = static_cast<int>(l.i("k"));
        auto e1 = ec::month{m} + ec::months{k};
        auto e2 = ec::months{k} + ec::month{m};
        auto e3 = ec::month{m} - ec::months{-k};
        auto e4 = ec::month{m};
        e4 += ec::months{k};
        auto e5 = ec::month{m};
        e5 -= ec::months{-k};
        auto s1 = sc::month{m} + sc::months{k};
        return out(with_siblings(std::to_string(unsigned{e1}), {std::to_string(unsigned{e2}), std::to_string(unsigned{e3}), std::to_string(unsigned{e4}), std::to_string(unsigned{e5})}),
            std::to_string(unsigned{s1}));
    }
    if (l.op == "month_diff") {
        auto e = ec::month{static_cast<unsigned>(l.i("a"))} - ec::month{static_cast<unsigned>(l.i("b"))};
        auto s = sc::month{static_cast<unsigned>(l.i("a"))} - sc::month{static_cast<unsigned>(l.i("b"))};
        return out(std::to_string(e.count()), std::to_string(s.count()));
    }
    if (l.op == "ym_plus") {
        auto y = static_cast<int>(l.i("y"));
        auto m = static_cast<unsigned>(l.i("m"));
        auto k = static_cast<int>(l.i("k"));
        ec::year_month ym{ec::year{y}, ec::month{m}};
        auto e1 = ym + ec::months{k};
        auto e2 = ec::months{k} + ym;
        auto e3 = ym - ec::months{-k};
        auto e4 = ym;
        e4 += ec::months{k};
        // the other fields (day 28, weekday Wednesday, index 3) must survive month arithmetic unchanged
        auto const wdi = ec::weekday_indexed{ec::weekday{3}, 3};
        auto const wdl = ec::weekday_last{ec::weekday{3}};
        auto e5  = ec::year_month_day{ec::year{y}, ec::month{m}, ec::day{28}} + ec::months{k};
        auto e5b = ec::months{k} + ec::year_month_day{ec::year{y}, ec::month{m}, ec::day{28}};
        auto e6  = ec::year_month_day_last{ec::year{y}, ec::month_day_last{ec::month{m}}} + ec::months{k};
        auto e6b = ec::months{k} + ec::year_month_day_last{ec::year{y}, ec::month_day_last{ec::month{m}}};
        auto e6c = ec::year_month_day_last{ec::year{y}, ec::month_day_last{ec::month{m}}} - ec::months{-k};
        auto e7  = ec::year_month_weekday{ec::year{y}, ec::month{m}, wdi} + ec::months{k};
        auto e7b = ec::months{k} + ec::year_month_weekday{ec::year{y}, ec::month{m}, wdi};
        auto e7c = ec::year_month_weekday{ec::year{y}, ec::month{m}, wdi} - ec::months{-k};
        auto e8  = ec::year_month_weekday_last{ec::year{y}, ec::month{m}, wdl} + ec::months{k};
        auto e8b = ec::months{k} + ec::year_month_weekday_last{ec::year{y}, ec::month{m}, wdl};
        auto e8c = ec::year_month_weekday_last{ec::year{y}, ec::month{m}, wdl} - ec::months{-k};
        auto e9  = ec::year_month_day{ec::year{y}, ec::month{m}, ec::day{28}};
        e9 -= ec::months{-k};
        auto e9b = ec::year_month_day{ec::year{y}, ec::month{m}, ec::day{28}} - ec::months{-k};
        auto e10 = ec::year_month_weekday_last{ec::year{y}, ec::month{m}, wdl};
        e10 -= ec::months{-k};
        auto e11 = ec::year_month_weekday{ec::year{y}, ec::month{m}, wdi};
        e11 += ec::months{k};
        auto e12 = ec::year_month_day_last{ec::year{y}, ec::month_day_last{ec::month{m}}};
        e12 += ec::months{k};
        auto s1 = sc::year_month{sc::year{y}, sc::month{m}} + sc::months{k};
        auto f  = [](auto const& x) { return t2(int{x.year()}, unsigned{x.month()}); };
        auto fd = [&](ec::year_month_day const& x) { return f(x) + (unsigned{x.day()} == 28 ? "" : ",day=" + std::to_string(unsigned{x.day()})); };
        auto fw = [&](ec::year_month_weekday const& x) {
            return f(x) + ((x.weekday().c_encoding() == 3 && x.index() == 3) ? "" : ",wdi=" + std::to_string(x.weekday().c_encoding()) + "[" + std::to_string(x.index()) + "]");
        };
        auto fl = [&](ec::year_month_weekday_last const& x) { return f(x) + (x.weekday().c_encoding() == 3 ? "" : ",wdl=" + std::to_string(x.weekday().c_encoding())); };
        return out(with_siblings(f(e1), {f(e2), f(e3), f(e4), fd(e5), fd(e5b), f(e6), f(e6b), f(e6c), fw(e7), fw(e7b), fw(e7c), fl(e8), fl(e8b), fl(e8c),
                       fd(e9), fd(e9b), fl(e10), fw(e11), f(e12)}),
            f(s1));
    }
    if (l.op == "year_plus") {
        auto y = static_cast<int>(l.i("y"));
        auto k = static_cast<int>(l.i("k"));
        auto const wdi = ec::weekday_indexed{ec::weekday{3}, 3};
        auto const wdl = ec::weekday_last{ec::weekday{3}};
        auto e1 = ec::year{y} + ec::years{k};
        auto e2 = ec::years{k} + ec::year{y};
        auto e3 = ec::year{y};
        e3 += ec::years{k};
        auto e3b = ec::year{y} - ec::years{-k};
        auto e3c = ec::year{y};
        e3c -= ec::years{-k};
        auto e4  = ec::year_month{ec::year{y}, ec::month{7}} + ec::years{k};
        auto e4b = ec::years{k} + ec::year_month{ec::year{y}, ec::month{7}};
        auto e4c = ec::year_month{ec::year{y}, ec::month{7}} - ec::years{-k};
        auto e4d = ec::year_month{ec::year{y}, ec::month{7}};
        e4d += ec::years{k};
        auto e5  = ec::year_month_day{ec::year{y}, ec::month{7}, ec::day{28}} + ec::years{k};
        auto e5b = ec::years{k} + ec::year_month_day{ec::year{y}, ec::month{7}, ec::day{28}};
        auto e5c = ec::year_month_day{ec::year{y}, ec::month{7}, ec::day{28}} - ec::years{-k};
        auto e5d = ec::year_month_day{ec::year{y}, ec::month{7}, ec::day{28}};
        e5d -= ec::years{-k};
        auto e6  = ec::year_month_day_last{ec::year{y}, ec::month_day_last{ec::month{7}}} + ec::years{k};
        auto e6b = ec::years{k} + ec::year_month_day_last{ec::year{y}, ec::month_day_last{ec::month{7}}};
        auto e6c = ec::year_month_day_last{ec::year{y}, ec::month_day_last{ec::month{7}}} - ec::years{-k};
        auto e7  = ec::year_month_weekday{ec::year{y}, ec::month{7}, wdi} + ec::years{k};
        auto e7b = ec::years{k} + ec::year_month_weekday{ec::year{y}, ec::month{7}, wdi};
        auto e7c = ec::year_month_weekday{ec::year{y}, ec::month{7}, wdi} - ec::years{-k};
        auto e8  = ec::year_month_weekday_last{ec::year{y}, ec::month{7}, wdl} + ec::years{k};
        auto e8b = ec::years{k} + ec::year_month_weekday_last{ec::year{y}, ec::month{7}, wdl};
        auto e8c = ec::year_month_weekday_last{ec::year{y}, ec::month{7}, wdl} - ec::years{-k};
        auto s1 = sc::year{y} + sc::years{k};
        auto g  = [](auto const& x) { return std::to_string(int{x.year()}) + (unsigned{x.month()} == 7 ? "" : ",m=" + std::to_string(unsigned{x.month()})); };
        auto gd = [&](ec::year_month_day const& x) { return g(x) + (unsigned{x.day()} == 28 ? "" : ",day=" + std::to_string(unsigned{x.day()})); };
        auto gw = [&](ec::year_month_weekday const& x) { return g(x) + ((x.weekday().c_encoding() == 3 && x.index() == 3) ? "" : ",wdi"); };
        auto gl = [&](ec::year_month_weekday_last const& x) { return g(x) + (x.weekday().c_encoding() == 3 ? "" : ",wdl"); };
        return out(with_siblings(std::to_string(int{e1}), {std::to_string(int{e2}), std::to_string(int{e3}), std::to_string(int{e3b}), std::to_string(int{e3c}),
                       g(e4), g(e4b), g(e4c), g(e4d), gd(e5), gd(e5b), gd(e5c), gd(e5d), g(e6), g(e6b), g(e6c), gw(e7), gw(e7b), gw(e7c), gl(e8), gl(e8b), gl(e8c)}),
            std::to_string(int{s1}));
    }
    if (l.op == "year_diff") {
        auto e = ec::year{static_cast<int>(l.i("a"))} - ec::year{static_cast<int>(l.i("b"))};
        auto s = sc::year{static_cast<int>(l.i("a"))} - sc::year{static_cast<int>(l.i("b"))};
        return out(std::to_string(e.count()), std::to_string(s.count()));
    }
    if (l.op == "incdec") {   // ++x, x++, --x, x-- of day / month / year / weekday; iso_encoding
        auto v = static_cast<int>(l.i("v"));
        auto what = l.str("what");
        auto fmt4 = [](auto a, auto b, auto c, auto d) { return std::to_string(a) + "," + std::to_string(b) + "," + std::to_string(c) + "," + std::to_string(d); };
        if (what == "day") {
            ec::day a{static_cast<unsigned>(v)}, b{static_cast<unsigned>(v)}, c{static_cast<unsigned>(v)}, d{static_cast<unsigned>(v)};
            sc::day sa{static_cast<unsigned>(v)}, sb{static_cast<unsigned>(v)}, sc_{static_cast<unsigned>(v)}, sd{static_cast<unsigned>(v)};
            ++a; auto b0 = b++; --c; auto d0 = d--; ++sa; auto sb0 = sb++; --sc_; auto sd0 = sd--;
            return out(fmt4(unsigned{a}, unsigned{b0} * 1000 + unsigned{b}, unsigned{c}, unsigned{d0} * 1000 + unsigned{d}),
                fmt4(unsigned{sa}, unsigned{sb0} * 1000 + unsigned{sb}, unsigned{sc_}, unsigned{sd0} * 1000 + unsigned{sd}));
        }
        if (what == "month") {
            ec::month a{static_cast<unsigned>(v)}, b{static_cast<unsigned>(v)}, c{static_cast<unsigned>(v)}, d{static_cast<unsigned>(v)};
            sc::month sa{static_cast<unsigned>(v)}, sb{static_cast<unsigned>(v)}, sc_{static_cast<unsigned>(v)}, sd{static_cast<unsigned>(v)};
            ++a; auto b0 = b++; --c; auto d0 = d--; ++sa; auto sb0 = sb++; --sc_; auto sd0 = sd--;
            return out(fmt4(unsigned{a}, unsigned{b0} * 1000 + unsigned{b}, unsigned{c}, unsigned{d0} * 1000 + unsigned{d}),
                fmt4(unsigned{sa}, unsigned{sb0} * 1000 + unsigned{sb}, unsigned{sc_}, unsigned{sd0} * 1000 + unsigned{sd}));
        }
        if (what == "year") {
            ec::year a{v}, b{v}, c{v}, d{v};
            sc::year sa{v}, sb{v}, sc_{v}, sd{v};
            ++a; auto b0 = b++; --c; auto d0 = d--; ++sa; auto sb0 = sb++; --sc_; auto sd0 = sd--;
            return out(fmt4(int{a}, int{b0} * 100000LL + int{b}, int{c}, int{d0} * 100000LL + int{d}),
                fmt4(int{sa}, int{sb0} * 100000LL + int{sb}, int{sc_}, int{sd0} * 100000LL + int{sd}));
        }
        if (what == "weekday") {
            ec::weekday a{static_cast<unsigned>(v)}, b{static_cast<unsigned>(v)}, c{static_cast<unsigned>(v)}, d{static_cast<unsigned>(v)};
            sc::weekday sa{static_cast<unsigned>(v)}, sb{static_cast<unsigned>(v)}, sc_{static_cast<unsigned>(v)}, sd{static_cast<unsigned>(v)};
            auto iso = a.iso_encoding(); auto siso = sa.iso_encoding();
            ++a; auto b0 = b++; --c; auto d0 = d--; ++sa; auto sb0 = sb++; --sc_; auto sd0 = sd--;
            return out(fmt4(a.c_encoding(), b0.c_encoding() * 1000 + b.c_encoding(), c.c_encoding(), d0.c_encoding() * 1000 + d.c_encoding()) + "," + std::to_string(iso),
                fmt4(sa.c_encoding(), sb0.c_encoding() * 1000 + sb.c_encoding(), sc_.c_encoding(), sd0.c_encoding() * 1000 + sd.c_encoding()) + "," + std::to_string(siso));
        }
        return "bad-op\tbad-op";
    }
    if (l.op == "oks") {      // ok() of the partial-date types: month_day, weekday_indexed, month_weekday(_last), year_month, year_month_day_last
        auto y = static_cast<int>(l.i("y"));
        auto m = static_cast<unsigned>(l.i("m"));
        auto d = static_cast<unsigned>(l.i("d"));
        auto w = static_cast<unsigned>(l.i("w"));
        auto i = static_cast<unsigned>(l.i("i"));
        auto b = [](bool x) { return x ? '1' : '0'; };
        std::string re, rs;
        re += b(ec::month_day{ec::month{m}, ec::day{d}}.ok());
        rs += b(sc::month_day{sc::month{m}, sc::day{d}}.ok());
        re += b(ec::weekday_indexed{ec::weekday{w}, i}.ok());
        rs += b(sc::weekday_indexed{sc::weekday{w}, i}.ok());
        re += b(ec::month_weekday{ec::month{m}, ec::weekday_indexed{ec::weekday{w}, i}}.ok());
        rs += b(sc::month_weekday{sc::month{m}, sc::weekday_indexed{sc::weekday{w}, i}}.ok());
        re += b(ec::month_weekday_last{ec::month{m}, ec::weekday_last{ec::weekday{w}}}.ok());
        rs += b(sc::month_weekday_last{sc::month{m}, sc::weekday_last{sc::weekday{w}}}.ok());
        re += b(ec::year_month{ec::year{y}, ec::month{m}}.ok());
        rs += b(sc::year_month{sc::year{y}, sc::month{m}}.ok());
        re += b(ec::year_month_day_last{ec::year{y}, ec::month_day_last{ec::month{m}}}.ok());
        rs += b(sc::year_month_day_last{sc::year{y}, sc::month_day_last{sc::month{m}}}.ok());
        re += b(ec::month_day_last{ec::month{m}}.ok());
        rs += b(sc::month_day_last{sc::month{m}}.ok());
        return out(re, rs);
    }
    if (l.op == "wd_plus" || l.op == "wd_minus" || l.op == "wd_add_assign" || l.op == "wd_sub_assign") {
        auto w = static_cast<unsigned>(l.i("w"));
        auto k = static_cast<int>(l.i("k"));
        unsigned re = 0, rs = 0;
        if (l.op == "wd_plus") {
            re = (ec::weekday{w} + ec::days{k}).c_encoding();
            auto e2 = (ec::days{k} + ec::weekday{w}).c_encoding();
            rs = (sc::weekday{w} + sc::days{k}).c_encoding();
            return out(with_siblings(std::to_string(re), {std::to_string(e2)}), std::to_string(rs));
        }
        if (l.op == "wd_minus") {
            re = (ec::weekday{w} - ec::days{k}).c_encoding();
            rs = (sc::weekday{w} - sc::days{k}).c_encoding();
        } else if (l.op == "wd_add_assign") {
            ec::weekday e{w};
            e += ec::days{k};
            sc::weekday s{w};
            s += sc::days{k};
            re = e.c_encoding();
            rs = s.c_encoding();
        } else {
            ec::weekday e{w};
            e -= ec::days{k};
            sc::weekday s{w};
            s -= sc::days{k};
            re = e.c_encoding();
            rs = s.c_encoding();
        }
        return out(std::to_string(re), std::to_string(rs));
    }
    if (l.op == "ymw") {           // sys_days -> year_month_weekday -> sys_days
        auto z = static_cast<int>(l.i("z"));
        ec::year_month_weekday e{ec::sys_days{ec::days{z}}};
        sc::year_month_weekday s{sc::sys_days{sc::days{z}}};
        ec::year_month_weekday el{ec::local_days{ec::days{z}}};
        auto f = [](auto const& x, long back) {
            return std::to_string(int{x.year()}) + "," + std::to_string(unsigned{x.month()}) + "," + std::to_string(x.weekday().c_encoding()) + ","
                 + std::to_string(x.index()) + "," + proto::fmt_bool(x.ok()) + "," + std::to_string(back);
        };
        return out(with_siblings(f(e, ec::sys_days{e}.time_since_epoch().count()), {f(el, ec::local_days{el}.time_since_epoch().count())}),
            f(s, sc::sys_days{s}.time_since_epoch().count()));
    }
    if (l.op == "ymw_days" || l.op == "ymwl_days") {   // (y, m, weekday[index] | weekday[last]) -> sys_days
        auto y = static_cast<int>(l.i("y"));
        auto m = static_cast<unsigned>(l.i("m"));
        auto w = static_cast<unsigned>(l.i("w"));
        if (l.op == "ymw_days") {
            auto i = static_cast<unsigned>(l.i("i"));
            ec::year_month_weekday e{ec::year{y}, ec::month{m}, ec::weekday_indexed{ec::weekday{w}, i}};
            sc::year_month_weekday s{sc::year{y}, sc::month{m}, sc::weekday_indexed{sc::weekday{w}, i}};
            return out(std::to_string(ec::sys_days{e}.time_since_epoch().count()) + "," + proto::fmt_bool(e.ok()),
                std::to_string(sc::sys_days{s}.time_since_epoch().count()) + "," + proto::fmt_bool(s.ok()));
        }
        ec::year_month_weekday_last e{ec::year{y}, ec::month{m}, ec::weekday_last{ec::weekday{w}}};
        sc::year_month_weekday_last s{sc::year{y}, sc::month{m}, sc::weekday_last{sc::weekday{w}}};
        ec::year_month_day_last edl{ec::year{y}, ec::month_day_last{ec::month{m}}};
        sc::year_month_day_last sdl{sc::year{y}, sc::month_day_last{sc::month{m}}};
        return out(std::to_string(ec::sys_days{e}.time_since_epoch().count()) + "," + proto::fmt_bool(e.ok()) + "," + std::to_string(ec::sys_days{edl}.time_since_epoch().count()),
            std::to_string(sc::sys_days{s}.time_since_epoch().count()) + "," + proto::fmt_bool(s.ok()) + "," + std::to_string(sc::sys_days{sdl}.time_since_epoch().count()));
    }
    if (l.op == "wd_diff") {
        auto e = ec::weekday{static_cast<unsigned>(l.i("a"))} - ec::weekday{static_cast<unsigned>(l.i("b"))};
        auto s = sc::weekday{static_cast<unsigned>(l.i("a"))} - sc::weekday{static_cast<unsigned>(l.i("b"))};
        return out(std::to_string(e.count()), std::to_string(s.count()));
    }
    return "bad-op\tbad-op";
}

int main(int argc, char** argv) { return proto::run(argc, argv, step); }
