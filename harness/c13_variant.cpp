// One optimisation level of the C13 operations as a shared object (see c13_ops.hpp).
// Built by checks/props/c13.py with -DC13_VARIANT_FN=c13_eval_O0 -O0 / c13_eval_O2 -O2, -fvisibility=hidden.
#include "c13_ops.hpp"

extern "C" __attribute__((visibility("default"))) int C13_VARIANT_FN(char const* raw, char* out, unsigned long cap)
{
    proto::Line l;
    if (!proto::parse_line(raw, l)) return -1;
    auto const s = c13::eval(l);
    if (s.size() + 1 > cap) return -2;
    std::memcpy(out, s.c_str(), s.size() + 1);
    return 0;
}
