// C19: empty translation unit.  checks/props/c19.py compiles harness/c19.cpp as parallel translation units
// (-DC19_PART=k, main() is in part -1) and hands the object files to check.py's harness build, which compiles this
// file and links them.
