// C08 harness: etl::basic_string_view vs std::basic_string_view on the same case lines.
// Views are exact-size heap copies without terminator (one-past reads hit an ASan red zone).
#include "proto.hpp"

#include <etl/string_view.hpp>

#include <string_view>
#include <type_traits>

using proto::Line;

template <typename C>
static auto to_units(std::basic_string_view<C> v) -> std::vector<long long>
{
    std::vector<long long> r;
    for (auto c : v) r.push_back(static_cast<long long>(static_cast<std::make_unsigned_t<C>>(c)));
    return r;
}
template <typename C>
static auto to_units(etl::basic_string_view<C> v) -> std::vector<long long>
{
    std::vector<long long> r;
    for (auto c : v) r.push_back(static_cast<long long>(static_cast<std::make_unsigned_t<C>>(c)));
    return r;
}

template <typename C>
struct cstr_buf { // NUL-terminated exact-size heap copy
    proto::heap_buf<C> b;
    explicit cstr_buf(std::vector<long long> const& v) : b(v.size() + 1)
    {
        for (std::size_t k = 0; k < v.size(); ++k) b.p[k] = static_cast<C>(v[k]);
        b.p[v.size()] = C(0);
    }
};

template <typename C>
static std::string rels(bool eq, bool lt, bool le, bool gt, bool ge)
{
    return proto::fmt_bool(eq) + proto::fmt_bool(lt) + proto::fmt_bool(le) + proto::fmt_bool(gt) + proto::fmt_bool(ge);
}

template <typename C>
static std::string step_t(Line const& l)
{
    using ESV = etl::basic_string_view<C>;
    using SSV = std::basic_string_view<C>;
    auto const npos_e = ESV::npos;
    auto const npos_s = SSV::npos;
    std::string ov    = l.has("ov") ? l.str("ov") : "sv";
    auto out          = [](std::string a, std::string b) { return a + "\t" + b; };

    auto search_op = [&](auto etl_sv, auto etl_ch, auto etl_cstr, auto etl_ptrn, auto std_sv) {
        proto::heap_buf<C> hb(l.list("h"));
        proto::heap_buf<C> nb(l.list("n"));
        ESV eh(hb.p, hb.n);
        SSV sh(hb.p, hb.n);
        auto pos_e = l.pos("pos", npos_e);
        auto pos_s = l.pos("pos", npos_s);
        std::size_t re = 0;
        if (ov == "ch") {
            re = etl_ch(eh, nb.p[0], pos_e);
        } else if (ov == "cstr") {
            cstr_buf<C> cb(l.list("n"));
            re = etl_cstr(eh, cb.b.p, pos_e);
        } else if (ov == "ptrn") {
            re = etl_ptrn(eh, nb.p, pos_e, nb.n);
        } else {
            re = etl_sv(eh, ESV(nb.p, nb.n), pos_e);
        }
        auto rs = std_sv(sh, SSV(nb.p, nb.n), pos_s);
        return out(proto::fmt_pos(re, npos_e), proto::fmt_pos(rs, npos_s));
    };

#define SEARCH(NAME)                                                                                                   \
    if (l.op == #NAME) {                                                                                               \
        return search_op([](ESV h, ESV n, std::size_t p) { return h.NAME(n, p); },                                     \
            [](ESV h, C c, std::size_t p) { return h.NAME(c, p); },                                                    \
            [](ESV h, C const* s, std::size_t p) { return h.NAME(s, p); },                                             \
            [](ESV h, C const* s, std::size_t p, std::size_t n) { return h.NAME(s, p, n); },                           \
            [](SSV h, SSV n, std::size_t p) { return h.NAME(n, p); });                                                 \
    }
    SEARCH(find)
    SEARCH(rfind)
    SEARCH(find_first_of)
    SEARCH(find_last_of)
    SEARCH(find_first_not_of)
    SEARCH(find_last_not_of)
#undef SEARCH

    if (l.op == "compare") {
        proto::heap_buf<C> ab(l.list("a"));
        proto::heap_buf<C> bb(l.list("b"));
        ESV ea(ab.p, ab.n), eb(bb.p, bb.n);
        SSV sa(ab.p, ab.n), sb(bb.p, bb.n);
        int re = 0, rs = 0;
        if (l.has("pos2")) {
            re = ea.compare(l.pos("pos1", npos_e), l.pos("count1", npos_e), eb, l.pos("pos2", npos_e), l.pos("count2", npos_e));
            rs = sa.compare(l.pos("pos1", npos_s), l.pos("count1", npos_s), sb, l.pos("pos2", npos_s), l.pos("count2", npos_s));
        } else if (l.has("pos1")) {
            if (ov == "cstr") {
                cstr_buf<C> cb(l.list("b"));
                re = ea.compare(l.pos("pos1", npos_e), l.pos("count1", npos_e), cb.b.p);
            } else if (ov == "ptrn") {
                re = ea.compare(l.pos("pos1", npos_e), l.pos("count1", npos_e), bb.p, bb.n);
            } else {
                re = ea.compare(l.pos("pos1", npos_e), l.pos("count1", npos_e), eb);
            }
            rs = sa.compare(l.pos("pos1", npos_s), l.pos("count1", npos_s), sb);
        } else {
            if (ov == "cstr") {
                cstr_buf<C> cb(l.list("b"));
                re = ea.compare(cb.b.p);
            } else {
                re = ea.compare(eb);
            }
            rs = sa.compare(sb);
        }
        return out(proto::fmt_sign(re), proto::fmt_sign(rs));
    }
    if (l.op == "rel") {
        proto::heap_buf<C> ab(l.list("a"));
        proto::heap_buf<C> bb(l.list("b"));
        ESV ea(ab.p, ab.n), eb(bb.p, bb.n);
        SSV sa(ab.p, ab.n), sb(bb.p, bb.n);
        return out(rels<C>(ea == eb, ea < eb, ea <= eb, ea > eb, ea >= eb), rels<C>(sa == sb, sa < sb, sa <= sb, sa > sb, sa >= sb));
    }
    if (l.op == "starts_with" || l.op == "ends_with" || l.op == "contains") {
        proto::heap_buf<C> hb(l.list("h"));
        proto::heap_buf<C> nb(l.list("n"));
        ESV eh(hb.p, hb.n), en(nb.p, nb.n);
        SSV sh(hb.p, hb.n), sn(nb.p, nb.n);
        bool re = false, rs = false;
        cstr_buf<C> cb(l.list("n"));
        if (l.op == "starts_with") {
            re = ov == "ch" ? eh.starts_with(nb.p[0]) : ov == "cstr" ? eh.starts_with(cb.b.p) : eh.starts_with(en);
            rs = sh.starts_with(sn);
        } else if (l.op == "ends_with") {
            re = ov == "ch" ? eh.ends_with(nb.p[0]) : ov == "cstr" ? eh.ends_with(cb.b.p) : eh.ends_with(en);
            rs = sh.ends_with(sn);
        } else {
            re = ov == "ch" ? eh.contains(nb.p[0]) : ov == "cstr" ? eh.contains(cb.b.p) : eh.contains(en);
            rs = sh.find(sn) != npos_s;
        }
        return out(proto::fmt_bool(re), proto::fmt_bool(rs));
    }
    if (l.op == "substr") {
        proto::heap_buf<C> hb(l.list("h"));
        ESV eh(hb.p, hb.n);
        SSV sh(hb.p, hb.n);
        auto re = eh.substr(l.pos("pos", npos_e), l.pos("count", npos_e));
        auto rs = sh.substr(l.pos("pos", npos_s), l.pos("count", npos_s));
        // the result must be a sub-range of the original buffer at the same offset
        bool same_off = (re.data() - hb.p) == (rs.data() - hb.p) || re.size() == 0;
        return out(proto::fmt_list(to_units(re)) + (same_off ? "" : "@off"), proto::fmt_list(to_units(rs)));
    }
    if (l.op == "copy") {
        proto::heap_buf<C> hb(l.list("h"));
        ESV eh(hb.p, hb.n);
        SSV sh(hb.p, hb.n);
        auto pos  = l.pos("pos", npos_e);
        auto cnt  = l.pos("count", npos_e);
        auto room = std::min<std::size_t>(cnt, hb.n - pos);
        proto::heap_buf<C> d1(room), d2(room); // exact-fit destinations
        auto re = eh.copy(d1.p, cnt, pos);
        auto rs = sh.copy(d2.p, cnt, pos);
        return out(std::to_string(re) + ":" + proto::fmt_list(to_units(SSV(d1.p, room))),
            std::to_string(rs) + ":" + proto::fmt_list(to_units(SSV(d2.p, room))));
    }
    if (l.op == "remove_prefix" || l.op == "remove_suffix") {
        proto::heap_buf<C> hb(l.list("h"));
        ESV eh(hb.p, hb.n);
        SSV sh(hb.p, hb.n);
        auto n = static_cast<std::size_t>(l.i("n"));
        if (l.op == "remove_prefix") { eh.remove_prefix(n); sh.remove_prefix(n); }
        else { eh.remove_suffix(n); sh.remove_suffix(n); }
        bool same_off = eh.size() == 0 || eh.data() == sh.data();
        return out(proto::fmt_list(to_units(eh)) + (same_off ? "" : "@off"), proto::fmt_list(to_units(sh)));
    }
    return "bad-op\tbad-op";
}

static std::string step(Line const& l)
{
    std::string ct = l.has("ct") ? l.str("ct") : "char";
    if (ct == "char") return step_t<char>(l);
    if (ct == "wchar") return step_t<wchar_t>(l);
    if (ct == "c8") return step_t<char8_t>(l);
    if (ct == "c16") return step_t<char16_t>(l);
    if (ct == "c32") return step_t<char32_t>(l);
    return "bad-op\tbad-op";
}

int main(int argc, char** argv) { return proto::run(argc, argv, step); }
