// C18 harness: tetl's <cstring>/<cwchar>/<cctype>/<cwctype>/div/labs against glibc ("C" locale)
// on the same case lines.  Every allocation named in a case line is an exact-size heap copy (no
// slack, no implicit terminator): a read or write one past it lands in an ASan red zone.  Guard
// units inside the destination allocation (before the pointer, after the extent C defines) are
// part of the printed allocation, so a stray write shows up as a difference.
#include "proto.hpp"

#include <etl/cctype.hpp>
#include <etl/cstdlib.hpp>
#include <etl/cstring.hpp>
#include <etl/cwchar.hpp>
#include <etl/cwctype.hpp>

#include <cctype>
#include <cinttypes>
#include <clocale>
#include <cstdlib>
#include <cstring>
#include <cwchar>
#include <cwctype>
#include <optional>
#include <type_traits>

using proto::Line;

template <typename C>
static auto units(proto::heap_buf<C> const& b) -> std::string
{
    std::vector<long long> r;
    for (std::size_t k = 0; k < b.n; ++k) r.push_back(static_cast<long long>(static_cast<std::make_unsigned_t<C>>(b.p[k])));
    return proto::fmt_list(r);
}

template <typename C>
static auto rel(void const* r, C const* base) -> std::string
{
    if (r == nullptr) return "null";
    return std::to_string(static_cast<C const*>(r) - base);
}

static auto out(std::string a, std::string b) -> std::string { return a + "\t" + b; }

// The search functions have two overloads each (pointer to const / pointer to non-const; `memchr(void*)` has a
// body of its own).  Both run on every line; the non-const one must return the same offset and have the return
// type ISO C++ gives it for the argument types (C*, C const*) -- otherwise the result is printed as
// `<const result>!mut=<non-const result>` resp. `...!sig`.
template <typename Want, typename Got>
static auto both(std::string c, std::string m) -> std::string
{
    if (c != m) c += "!mut=" + m;
    if constexpr (!std::is_same_v<Want, Got>) c += "!sig";
    return c;
}

#define IS_CHAR(C) (std::is_same_v<C, char>)

template <typename C>
static std::string step_t(Line const& l)
{
    auto const& op = l.op;
    constexpr bool narrow = IS_CHAR(C);

    if (op == "strlen") {
        proto::heap_buf<C> s(l.list("s"));
        auto p = s.p + l.i("off");
        std::size_t re = 0, rs = 0;
        if constexpr (narrow) { re = etl::strlen(p); rs = std::strlen(p); }
        else { re = etl::wcslen(p); rs = std::wcslen(p); }
        return out(std::to_string(re), std::to_string(rs));
    }
    if (op == "strcmp" || op == "strncmp" || op == "memcmp") {
        proto::heap_buf<C> a(l.list("a")), b(l.list("b"));
        C const* pa = a.p + l.i("aoff");
        C const* pb = b.p + l.i("boff");
        int re = 0, rs = 0;
        if (op == "strcmp") {
            if constexpr (narrow) { re = etl::strcmp(pa, pb); rs = std::strcmp(pa, pb); }
            else { re = etl::wcscmp(pa, pb); rs = std::wcscmp(pa, pb); }
        } else {
            auto n = static_cast<std::size_t>(l.i("n"));
            if (op == "strncmp") {
                if constexpr (narrow) { re = etl::strncmp(pa, pb, n); rs = std::strncmp(pa, pb, n); }
                else { re = etl::wcsncmp(pa, pb, n); rs = std::wcsncmp(pa, pb, n); }
            } else {
                if constexpr (narrow) { re = etl::memcmp(pa, pb, n); rs = std::memcmp(pa, pb, n); }
                else { re = etl::wmemcmp(pa, pb, n); rs = std::wmemcmp(pa, pb, n); }
            }
        }
        return out(proto::fmt_sign(re), proto::fmt_sign(rs));
    }
    if (op == "strrchr0") {
        // tetl extension: a null `str` gives a null result (ISO C: undefined, so glibc is not called)
        int ch       = static_cast<int>(l.i("ch"));
        C const* pc  = nullptr;
        C* pm        = nullptr;
        void const* re = nullptr;
        void const* rm = nullptr;
        if constexpr (narrow) { re = etl::strrchr(pc, ch); rm = etl::strrchr(pm, ch); }
        else { re = etl::wcsrchr(pc, ch); rm = etl::wcsrchr(pm, ch); }
        auto r = std::string(re == nullptr ? "null" : "nonnull");
        if (rm != re) r += "!mut=nonnull";
        return out(r, "*");
    }
    if (op == "strchr" || op == "strrchr" || op == "memchr") {
        proto::heap_buf<C> s(l.list("s"));
        C const* p = s.p + l.i("off");
        C* pm      = s.p + l.i("off");
        int ch     = static_cast<int>(l.i("ch"));
        void const* re = nullptr;
        void const* rs = nullptr;
        void* rm       = nullptr;
        std::string r;
        if (op == "strchr") {
            if constexpr (narrow) { re = etl::strchr(p, ch); rm = etl::strchr(pm, ch); rs = std::strchr(p, ch); }
            else { re = etl::wcschr(p, ch); rm = etl::wcschr(pm, ch); rs = std::wcschr(p, static_cast<wchar_t>(ch)); }
            if constexpr (narrow) r = both<C*, decltype(etl::strchr(pm, ch))>(rel<C>(re, p), rel<C>(rm, p));
            else r = both<C*, decltype(etl::wcschr(pm, ch))>(rel<C>(re, p), rel<C>(rm, p));
        } else if (op == "strrchr") {
            if constexpr (narrow) { re = etl::strrchr(p, ch); rm = etl::strrchr(pm, ch); rs = std::strrchr(p, ch); }
            else { re = etl::wcsrchr(p, ch); rm = etl::wcsrchr(pm, ch); rs = std::wcsrchr(p, static_cast<wchar_t>(ch)); }
            if constexpr (narrow) r = both<C*, decltype(etl::strrchr(pm, ch))>(rel<C>(re, p), rel<C>(rm, p));
            else r = both<C*, decltype(etl::wcsrchr(pm, ch))>(rel<C>(re, p), rel<C>(rm, p));
        } else {
            auto n = static_cast<std::size_t>(l.i("n"));
            if constexpr (narrow) {
                re = etl::memchr(static_cast<void const*>(p), ch, n);
                rm = etl::memchr(static_cast<void*>(pm), ch, n);
                rs = std::memchr(p, ch, n);
                r  = both<void*, decltype(etl::memchr(static_cast<void*>(pm), ch, n))>(rel<C>(re, p), rel<C>(rm, p));
            } else {
                auto wc = static_cast<wchar_t>(ch);
                re = etl::wmemchr(p, wc, n);
                rm = etl::wmemchr(pm, wc, n);
                rs = std::wmemchr(p, wc, n);
                r  = both<C*, decltype(etl::wmemchr(pm, wc, n))>(rel<C>(re, p), rel<C>(rm, p));
            }
        }
        return out(r, rel<C>(rs, p));
    }
    if (op == "strspn" || op == "strcspn" || op == "strpbrk" || op == "strstr") {
        proto::heap_buf<C> s(l.list("s")), t(l.list("t"));
        C const* p = s.p + l.i("off");
        C const* q = t.p + l.i("toff");
        C* pm      = s.p + l.i("off");
        if (op == "strspn" || op == "strcspn") {
            std::size_t re = 0, rs = 0;
            if (op == "strspn") {
                if constexpr (narrow) { re = etl::strspn(p, q); rs = std::strspn(p, q); }
                else { re = etl::wcsspn(p, q); rs = std::wcsspn(p, q); }
            } else {
                if constexpr (narrow) { re = etl::strcspn(p, q); rs = std::strcspn(p, q); }
                else { re = etl::wcscspn(p, q); rs = std::wcscspn(p, q); }
            }
            return out(std::to_string(re), std::to_string(rs));
        }
        // the non-const overload is called like the ISO C++ one: (C*, C const*)
        void const* re = nullptr;
        void const* rs = nullptr;
        void const* rm = nullptr;
        std::string r;
        if (op == "strpbrk") {
            if constexpr (narrow) { re = etl::strpbrk(p, q); rm = etl::strpbrk(pm, q); rs = std::strpbrk(p, q); }
            else { re = etl::wcspbrk(p, q); rm = etl::wcspbrk(pm, q); rs = std::wcspbrk(p, q); }
            if constexpr (narrow) r = both<C*, decltype(etl::strpbrk(pm, q))>(rel<C>(re, p), rel<C>(rm, p));
            else r = both<C*, decltype(etl::wcspbrk(pm, q))>(rel<C>(re, p), rel<C>(rm, p));
        } else {
            if constexpr (narrow) { re = etl::strstr(p, q); rm = etl::strstr(pm, q); rs = std::strstr(p, q); }
            else { re = etl::wcsstr(p, q); rm = etl::wcsstr(pm, q); rs = std::wcsstr(p, q); }
            if constexpr (narrow) r = both<C*, decltype(etl::strstr(pm, q))>(rel<C>(re, p), rel<C>(rm, p));
            else r = both<C*, decltype(etl::wcsstr(pm, q))>(rel<C>(re, p), rel<C>(rm, p));
        }
        return out(r, rel<C>(rs, p));
    }
    if (op == "strcpy" || op == "strncpy" || op == "strcat" || op == "strncat" || op == "memcpy") {
        proto::heap_buf<C> d1(l.list("dst")), d2(l.list("dst")), src(l.list("src"));
        C* p1      = d1.p + l.i("doff");
        C* p2      = d2.p + l.i("doff");
        C const* s = src.p + l.i("soff");
        auto n     = static_cast<std::size_t>(l.i("n", 0));
        void* re   = nullptr;
        void* rs   = nullptr;
        if (op == "strcpy") {
            if constexpr (narrow) { re = etl::strcpy(p1, s); rs = std::strcpy(p2, s); }
            else { re = etl::wcscpy(p1, s); rs = std::wcscpy(p2, s); }
        } else if (op == "strncpy") {
            if constexpr (narrow) { re = etl::strncpy(p1, s, n); rs = std::strncpy(p2, s, n); }
            else { re = etl::wcsncpy(p1, s, n); rs = std::wcsncpy(p2, s, n); }
        } else if (op == "strcat") {
            if constexpr (narrow) { re = etl::strcat(p1, s); rs = std::strcat(p2, s); }
            else { re = etl::wcscat(p1, s); rs = std::wcscat(p2, s); }
        } else if (op == "strncat") {
            if constexpr (narrow) { re = etl::strncat(p1, s, n); rs = std::strncat(p2, s, n); }
            else { re = etl::wcsncat(p1, s, n); rs = std::wcsncat(p2, s, n); }
        } else {
            if constexpr (narrow) { re = etl::memcpy(p1, s, n); rs = std::memcpy(p2, s, n); }
            else { re = etl::wmemcpy(p1, s, n); rs = std::wmemcpy(p2, s, n); }
        }
        return out(rel<C>(re, p1) + ":" + units(d1), rel<C>(rs, p2) + ":" + units(d2));
    }
    if (op == "memset") {
        proto::heap_buf<C> d1(l.list("dst")), d2(l.list("dst"));
        C* p1    = d1.p + l.i("doff");
        C* p2    = d2.p + l.i("doff");
        auto n   = static_cast<std::size_t>(l.i("n"));
        int ch   = static_cast<int>(l.i("ch"));
        void* re = nullptr;
        void* rs = nullptr;
        if constexpr (narrow) { re = etl::memset(p1, ch, n); rs = std::memset(p2, ch, n); }
        else { re = etl::wmemset(p1, static_cast<wchar_t>(ch), n); rs = std::wmemset(p2, static_cast<wchar_t>(ch), n); }
        return out(rel<C>(re, p1) + ":" + units(d1), rel<C>(rs, p2) + ":" + units(d2));
    }
    if (op == "memmove") {
        proto::heap_buf<C> b1(l.list("buf")), b2(l.list("buf"));
        auto d   = l.i("doff");
        auto s   = l.i("soff");
        auto n   = static_cast<std::size_t>(l.i("n"));
        void* re = nullptr;
        void* rs = nullptr;
        if constexpr (narrow) { re = etl::memmove(b1.p + d, b1.p + s, n); rs = std::memmove(b2.p + d, b2.p + s, n); }
        else { re = etl::wmemmove(b1.p + d, b1.p + s, n); rs = std::wmemmove(b2.p + d, b2.p + s, n); }
        return out(rel<C>(re, b1.p + d) + ":" + units(b1), rel<C>(rs, b2.p + d) + ":" + units(b2));
    }
    if (op == "memmove2") {
        // source and destination are two different allocations: `ps < pd` then compares unrelated pointers, and
        // whichever direction is taken the result must be that of memcpy.  `first=src|dst` says which of the two
        // is allocated first, so that both address orders occur (chunks of one size class are handed out in sequence).
        bool src_first = l.has("first") && l.str("first") == "src";
        std::optional<proto::heap_buf<C>> src, d1;
        if (src_first) { src.emplace(l.list("src")); d1.emplace(l.list("dst")); }
        else { d1.emplace(l.list("dst")); src.emplace(l.list("src")); }
        proto::heap_buf<C> d2(l.list("dst"));
        C* p1      = d1->p + l.i("doff");
        C* p2      = d2.p + l.i("doff");
        C const* s = src->p + l.i("soff");
        auto n     = static_cast<std::size_t>(l.i("n"));
        void* re   = nullptr;
        void* rs   = nullptr;
        if constexpr (narrow) { re = etl::memmove(p1, s, n); rs = std::memmove(p2, s, n); }
        else { re = etl::wmemmove(p1, s, n); rs = std::wmemmove(p2, s, n); }
        return out(rel<C>(re, p1) + ":" + units(*d1), rel<C>(rs, p2) + ":" + units(d2));
    }
    if (op == "memcpy1") {
        // memcpy between two disjoint extents of ONE allocation (either order)
        proto::heap_buf<C> b1(l.list("buf")), b2(l.list("buf"));
        auto d   = l.i("doff");
        auto s   = l.i("soff");
        auto n   = static_cast<std::size_t>(l.i("n"));
        void* re = nullptr;
        void* rs = nullptr;
        if constexpr (narrow) { re = etl::memcpy(b1.p + d, b1.p + s, n); rs = std::memcpy(b2.p + d, b2.p + s, n); }
        else { re = etl::wmemcpy(b1.p + d, b1.p + s, n); rs = std::wmemcpy(b2.p + d, b2.p + s, n); }
        return out(rel<C>(re, b1.p + d) + ":" + units(b1), rel<C>(rs, b2.p + d) + ":" + units(b2));
    }
    return "bad-op\tbad-op";
}

using ctype_fn  = int (*)(int);
using wctype_fn = int (*)(std::wint_t);

struct ctype_entry {
    char const* name;
    int (*e)(int) noexcept;
    ctype_fn s;
    bool conv;
};
static ctype_entry const ctype_tbl[] = {
    {"isalnum", etl::isalnum, std::isalnum, false},
    {"isalpha", etl::isalpha, std::isalpha, false},
    {"isblank", etl::isblank, std::isblank, false},
    {"iscntrl", etl::iscntrl, std::iscntrl, false},
    {"isdigit", etl::isdigit, std::isdigit, false},
    {"isgraph", etl::isgraph, std::isgraph, false},
    {"islower", etl::islower, std::islower, false},
    {"isprint", etl::isprint, std::isprint, false},
    {"ispunct", etl::ispunct, std::ispunct, false},
    {"isspace", etl::isspace, std::isspace, false},
    {"isupper", etl::isupper, std::isupper, false},
    {"isxdigit", etl::isxdigit, std::isxdigit, false},
    {"tolower", etl::tolower, std::tolower, true},
    {"toupper", etl::toupper, std::toupper, true},
};

struct wctype_entry {
    char const* name;
    int (*e)(etl::wint_t) noexcept;
    wctype_fn s;
};
static wctype_entry const wctype_tbl[] = {
    {"iswalnum", etl::iswalnum, std::iswalnum},
    {"iswalpha", etl::iswalpha, std::iswalpha},
    {"iswblank", etl::iswblank, std::iswblank},
    {"iswcntrl", etl::iswcntrl, std::iswcntrl},
    {"iswdigit", etl::iswdigit, std::iswdigit},
    {"iswgraph", etl::iswgraph, std::iswgraph},
    {"iswlower", etl::iswlower, std::iswlower},
    {"iswprint", etl::iswprint, std::iswprint},
    {"iswpunct", etl::iswpunct, std::iswpunct},
    {"iswspace", etl::iswspace, std::iswspace},
    {"iswupper", etl::iswupper, std::iswupper},
    {"iswxdigit", etl::iswxdigit, std::iswxdigit},
};

static std::string step(Line const& l)
{
    auto is_ctype = [&](std::string const& name) {
        for (auto const& e : ctype_tbl) if (name == e.name) return true;
        return false;
    };
    auto is_wctype = [&](std::string const& name) {
        if (name == "towlower" || name == "towupper") return true;
        for (auto const& e : wctype_tbl) if (name == e.name) return true;
        return false;
    };
    // a <cctype>/<cwctype> line is `<function> c=<arg>` (or, in older witness lines, `ctype f=<function> c=<arg>`)
    if (l.op == "ctype" || is_ctype(l.op)) {
        std::string f = l.op == "ctype" ? l.str("f") : l.op;
        int c         = static_cast<int>(l.i("c"));
        for (auto const& e : ctype_tbl) {
            if (f == e.name) {
                int re = e.e(c), rs = e.s(c);
                if (e.conv) return out(std::to_string(re), std::to_string(rs));
                return out(proto::fmt_bool(re != 0), proto::fmt_bool(rs != 0));
            }
        }
        return "bad-op\tbad-op";
    }
    if (l.op == "wctype" || is_wctype(l.op)) {
        std::string f = l.op == "wctype" ? l.str("f") : l.op;
        auto c        = static_cast<std::wint_t>(static_cast<unsigned long long>(l.i("c")));
        if (f == "towlower") return out(std::to_string(etl::towlower(c)), std::to_string(std::towlower(c)));
        if (f == "towupper") return out(std::to_string(etl::towupper(c)), std::to_string(std::towupper(c)));
        for (auto const& e : wctype_tbl) {
            if (f == e.name) return out(proto::fmt_bool(e.e(c) != 0), proto::fmt_bool(e.s(c) != 0));
        }
        return "bad-op\tbad-op";
    }
    if (l.op == "div") {
        std::string f = l.has("f") ? l.str("f") : "div";
        auto x        = l.i("x");
        auto y        = l.i("y");
        auto fmt      = [](auto r) { return std::to_string(r.quot) + "," + std::to_string(r.rem); };
        if (f == "div" && l.i("bits") == 32) return out(fmt(etl::div(static_cast<int>(x), static_cast<int>(y))), fmt(std::div(static_cast<int>(x), static_cast<int>(y))));
        if (f == "div") return out(fmt(etl::div(static_cast<long>(x), static_cast<long>(y))), fmt(std::div(static_cast<long>(x), static_cast<long>(y))));
        if (f == "divll") return out(fmt(etl::div(static_cast<long long>(x), static_cast<long long>(y))), fmt(std::div(static_cast<long long>(x), static_cast<long long>(y))));
        if (f == "ldiv") return out(fmt(etl::ldiv(static_cast<long>(x), static_cast<long>(y))), fmt(std::ldiv(static_cast<long>(x), static_cast<long>(y))));
        if (f == "lldiv") return out(fmt(etl::lldiv(x, y)), fmt(std::lldiv(x, y)));
        if (f == "imaxdiv") return out(fmt(etl::imaxdiv(static_cast<etl::intmax_t>(x), static_cast<etl::intmax_t>(y))), fmt(std::imaxdiv(static_cast<std::intmax_t>(x), static_cast<std::intmax_t>(y))));
        return "bad-op\tbad-op";
    }
    if (l.op == "abs") {
        std::string f = l.has("f") ? l.str("f") : "labs";
        auto x        = l.i("x");
        if (f == "labs") return out(std::to_string(etl::labs(static_cast<long>(x))), std::to_string(std::labs(static_cast<long>(x))));
        if (f == "llabs") return out(std::to_string(etl::llabs(x)), std::to_string(std::llabs(x)));
        return "bad-op\tbad-op";
    }
    std::string ct = l.has("ct") ? l.str("ct") : "char";
    if (ct == "char") return step_t<char>(l);
    if (ct == "wchar") return step_t<wchar_t>(l);
    return "bad-op\tbad-op";
}

int main(int argc, char** argv)
{
    std::setlocale(LC_ALL, "C");
    return proto::run(argc, argv, step);
}
