// C07 harness: etl::variant / etl::optional / etl::optional<T&> / etl::expected against std::variant /
// std::optional / a pointer reference / std::expected (C++23) on the same history lines.
// Protocol: see lean/Tetl/C07/Driver.lean.  Every object lives in its own heap block (ASan red zones).
//
// alternatives:  i = int   f = float (payload p means p/2.0f, 1000 = NaN)   t = Trk (non-trivial copy/move/dtor,
// moved-from value -1)   m = Mo (move-only, moved-from value -1).  Extra argument types for the converting forms:
// s = short, l = long; the mark-carrying kinds c d a b q x (Sm<Bits>, below) are alternatives AND argument types.
#include "proto.hpp"

#include <etl/expected.hpp>
#include <etl/optional.hpp>
#include <etl/utility.hpp>
#include <etl/variant.hpp>

#include <cmath>
#include <expected>
#include <functional>
#include <limits>
#include <memory>
#include <optional>
#include <tuple>
#include <type_traits>
#include <utility>
#include <variant>
#include <vector>

using proto::Line;

#ifndef C07_HAS_EXPECTED_UNEX_ASSIGN
    #define C07_HAS_EXPECTED_UNEX_ASSIGN 0
#endif
#ifndef C07_HAS_NULLOPT_ORD
    #define C07_HAS_NULLOPT_ORD 1
#endif
#if C07_HAS_NULLOPT_ORD
    #define C07_RELN rel6
#else
    #define C07_RELN rel3
#endif
// optional<T&> from optional<U>: converting constructor (direct and copy-initialization) / converting assignment, from a
// const source (_C) and from a non-const lvalue or an rvalue source (_M)
#ifndef C07_HAS_OPTREF_CTOR_C
    #define C07_HAS_OPTREF_CTOR_C 0
#endif
#ifndef C07_HAS_OPTREF_CTOR_M
    #define C07_HAS_OPTREF_CTOR_M 0
#endif
#ifndef C07_HAS_OPTREF_ASSIGN_C
    #define C07_HAS_OPTREF_ASSIGN_C 0
#endif
#ifndef C07_HAS_OPTREF_ASSIGN_M
    #define C07_HAS_OPTREF_ASSIGN_M 0
#endif
#ifndef C07_HAS_EXPECTED_EQ
    #define C07_HAS_EXPECTED_EQ 0
#endif
#ifndef C07_HAS_VALUE
    #define C07_HAS_VALUE 0
#endif

// ---------------------------------------------------------------- element types
struct Trk {
    int v;
    Trk() noexcept : v(0) { }
    Trk(int x) noexcept : v(x) { } // NOLINT implicit on purpose: user-defined conversion in the overload set
    Trk(Trk const& o) noexcept : v(o.v) { }
    Trk(Trk&& o) noexcept : v(o.v) { o.v = -1; }
    Trk& operator=(Trk const& o) noexcept
    {
        v = o.v;
        return *this;
    }
    Trk& operator=(Trk&& o) noexcept
    {
        if (this != &o) {
            v   = o.v;
            o.v = -1;
        }
        return *this;
    }
    ~Trk() { v = -99; }
    friend bool operator==(Trk const& a, Trk const& b) { return a.v == b.v; }
    friend bool operator!=(Trk const& a, Trk const& b) { return a.v != b.v; }
    friend bool operator<(Trk const& a, Trk const& b) { return a.v < b.v; }
    friend bool operator<=(Trk const& a, Trk const& b) { return a.v <= b.v; }
    friend bool operator>(Trk const& a, Trk const& b) { return a.v > b.v; }
    friend bool operator>=(Trk const& a, Trk const& b) { return a.v >= b.v; }
};

struct Mo {
    int v;
    Mo() noexcept : v(0) { }
    Mo(int x) noexcept : v(x) { } // NOLINT
    Mo(Mo const&)            = delete;
    Mo& operator=(Mo const&) = delete;
    Mo(Mo&& o) noexcept : v(o.v) { o.v = -1; }
    Mo& operator=(Mo&& o) noexcept
    {
        if (this != &o) {
            v   = o.v;
            o.v = -1;
        }
        return *this;
    }
    ~Mo() { v = -99; }
    friend bool operator==(Mo const& a, Mo const& b) { return a.v == b.v; }
    friend bool operator!=(Mo const& a, Mo const& b) { return a.v != b.v; }
    friend bool operator<(Mo const& a, Mo const& b) { return a.v < b.v; }
    friend bool operator<=(Mo const& a, Mo const& b) { return a.v <= b.v; }
    friend bool operator>(Mo const& a, Mo const& b) { return a.v > b.v; }
    friend bool operator>=(Mo const& a, Mo const& b) { return a.v >= b.v; }
};

// Sm<Bits>: value v plus a mark g = which user-provided special member produced this object last
// (1 copy ctor, 2 move ctor, 3 copy assignment, 4 move assignment, 0 = made from an int); a defaulted member
// copies the source's mark.  bit 0: user-provided copy ctor, 1: move ctor, 2: copy assignment, 3: move
// assignment, 4: the copy ctor is noexcept(false).  A user-provided move leaves -1 in the source; self
// assignment is a no-op.
template <unsigned Bits>
struct Sm {
    static constexpr bool UCC = (Bits & 1U) != 0, UMC = (Bits & 2U) != 0, UCA = (Bits & 4U) != 0, UMA = (Bits & 8U) != 0;
    static constexpr bool NXC = (Bits & 16U) == 0;
    int v;
    int g;
    Sm() noexcept : v(0), g(0) { }
    Sm(int x) noexcept : v(x), g(0) { } // NOLINT
    Sm(Sm const&) = default;
    Sm(Sm const& o) noexcept(NXC) requires(UCC) : v(o.v), g(1) { }
    Sm(Sm&&) = default;
    Sm(Sm&& o) noexcept requires(UMC) : v(o.v), g(2) { o.v = -1; }
    Sm& operator=(Sm const&) = default;
    Sm& operator=(Sm const& o) noexcept requires(UCA)
    {
        if (this != &o) { v = o.v; g = 3; }
        return *this;
    }
    Sm& operator=(Sm&&) = default;
    Sm& operator=(Sm&& o) noexcept requires(UMA)
    {
        if (this != &o) { v = o.v; g = 4; o.v = -1; }
        return *this;
    }
    friend bool operator==(Sm const& a, Sm const& b) { return a.v == b.v; }
    friend bool operator!=(Sm const& a, Sm const& b) { return a.v != b.v; }
    friend bool operator<(Sm const& a, Sm const& b) { return a.v < b.v; }
    friend bool operator<=(Sm const& a, Sm const& b) { return a.v <= b.v; }
    friend bool operator>(Sm const& a, Sm const& b) { return a.v > b.v; }
    friend bool operator>=(Sm const& a, Sm const& b) { return a.v >= b.v; }
};
using KC = Sm<1>;  // c: user-provided copy ctor, everything else defaulted
using KD = Sm<2>;  // d: user-provided move ctor
using KA = Sm<4>;  // a: user-provided copy assignment
using KB = Sm<8>;  // b: user-provided move assignment
using KQ = Sm<15>; // q: all four user-provided, noexcept
using KX = Sm<31>; // x: all four user-provided, copy ctor potentially throwing (copy-then-move in std)
static_assert(!std::is_trivially_copy_constructible_v<KC> && std::is_trivially_copy_assignable_v<KC>
              && std::is_trivially_move_constructible_v<KC> && std::is_trivially_move_assignable_v<KC>);
static_assert(std::is_trivially_copy_constructible_v<KD> && !std::is_trivially_move_constructible_v<KD>
              && std::is_trivially_copy_assignable_v<KD> && std::is_trivially_move_assignable_v<KD>);
static_assert(std::is_trivially_copy_constructible_v<KA> && !std::is_trivially_copy_assignable_v<KA>
              && std::is_trivially_move_constructible_v<KA> && std::is_trivially_move_assignable_v<KA>);
static_assert(std::is_trivially_copy_constructible_v<KB> && std::is_trivially_copy_assignable_v<KB>
              && std::is_trivially_move_constructible_v<KB> && !std::is_trivially_move_assignable_v<KB>);
static_assert(std::is_nothrow_copy_constructible_v<KQ> && !std::is_nothrow_copy_constructible_v<KX>
              && std::is_nothrow_move_constructible_v<KX>);

template <typename T>
T mk(long long n)
{
    if constexpr (std::is_same_v<T, float>) {
        return n == 1000 ? std::numeric_limits<float>::quiet_NaN() : static_cast<float>(n) / 2.0F;
    } else if constexpr (std::is_arithmetic_v<T>) {
        return static_cast<T>(n);
    } else {
        return T(static_cast<int>(n));
    }
}
inline std::string show(int x) { return "i" + std::to_string(x); }
inline std::string show(long x) { return "l" + std::to_string(x); }
inline std::string show(float x) { return std::isnan(x) ? std::string("fnan") : "f" + std::to_string(std::lround(x * 2.0F)); }
inline std::string show(Trk const& x) { return "t" + std::to_string(x.v); }
inline std::string show(Mo const& x) { return "m" + std::to_string(x.v); }
inline std::string show(etl::nullopt_t) { return "-"; }
template <unsigned B>
std::string show(Sm<B> const& x)
{
    char const c = B == 1 ? 'c' : B == 2 ? 'd' : B == 4 ? 'a' : B == 8 ? 'b' : B == 15 ? 'q' : 'x';
    return std::string(1, c) + std::to_string(x.v) + "." + std::to_string(x.g);
}

// ---------------------------------------------------------------- value categories
// 0 = T&, 1 = T const&, 2 = T&&, 3 = T const&&
template <typename A>
constexpr int cat_code()
{
    using R = std::remove_reference_t<A>;
    return std::is_lvalue_reference_v<A> ? (std::is_const_v<R> ? 1 : 0) : (std::is_const_v<R> ? 3 : 2);
}
template <int Q, typename V>
decltype(auto) as_cat(V& v)
{
    if constexpr (Q == 0) { return (v); }
    else if constexpr (Q == 1) { return std::as_const(v); }
    else if constexpr (Q == 2) { return std::move(v); }
    else { return std::move(std::as_const(v)); }
}
// run-time: which reference kind each argument arrives as
struct CatVis {
    std::string* out;
    template <typename... A>
    int operator()(A&&... /*a*/) const
    {
        ((*out += std::to_string(cat_code<A&&>())), ...);
        return 0;
    }
};
// compile-time: the category is the visitor's return type
struct CatT {
    template <typename A>
    auto operator()(A&& /*a*/) const -> std::integral_constant<int, cat_code<A&&>()> { return {}; }
};
// takes every alternative by value: copy or move constructs it from the reference it is handed
struct TakeVis {
    std::string* out;
    template <typename... A>
    int operator()(A... a) const
    {
        ((*out += show(a) + ","), ...);
        return 0;
    }
};
template <typename F>
std::string matrix4(F&& f) // f(integral_constant<int,Q>) -> int code
{
    std::string r;
    r += std::to_string(f(std::integral_constant<int, 0> {}));
    r += std::to_string(f(std::integral_constant<int, 1> {}));
    r += std::to_string(f(std::integral_constant<int, 2> {}));
    r += std::to_string(f(std::integral_constant<int, 3> {}));
    return r;
}

template <typename T>
T bump(T const& x)
{
    if constexpr (std::is_arithmetic_v<T>) {
        return static_cast<T>(x + 1);
    } else {
        return T(x.v + 1);
    }
}

template <typename A, typename B>
std::string rel6(A const& a, B const& b)
{
    std::string r;
    r += (a == b) ? '1' : '0';
    r += (a != b) ? '1' : '0';
    r += (a < b) ? '1' : '0';
    r += (a <= b) ? '1' : '0';
    r += (a > b) ? '1' : '0';
    r += (a >= b) ? '1' : '0';
    return r;
}

// only the operators the unfixed tree declares for optional/nullopt (==, != rewritten, <); see C07_HAS_NULLOPT_ORD
template <typename A, typename B>
std::string rel3(A const& a, B const& b)
{
    std::string r;
    r += (a == b) ? '1' : '0';
    r += (a != b) ? '1' : '0';
    r += (a < b) ? '1' : '0';
    return r + "xxx";
}

template <std::size_t N, typename F>
void with_index(std::size_t i, F&& f)
{
    [&]<std::size_t... Is>(std::index_sequence<Is...>) {
        ((i == Is ? (f(std::integral_constant<std::size_t, Is> {}), 0) : 0), ...);
    }(std::make_index_sequence<N> {});
}

// dispatch on an argument-type letter
template <typename F>
bool with_arg_type(std::string const& a, F&& f)
{
    if (a == "i") { f(std::type_identity<int> {}); return true; }
    if (a == "s") { f(std::type_identity<short> {}); return true; }
    if (a == "l") { f(std::type_identity<long> {}); return true; }
    if (a == "f") { f(std::type_identity<float> {}); return true; }
    if (a == "t") { f(std::type_identity<Trk> {}); return true; }
    if (a == "m") { f(std::type_identity<Mo> {}); return true; }
    // the mark-carrying kinds as ARGUMENT types: which special member of T_j a converting form runs is visible in the result
    if (a == "c") { f(std::type_identity<KC> {}); return true; }
    if (a == "d") { f(std::type_identity<KD> {}); return true; }
    if (a == "a") { f(std::type_identity<KA> {}); return true; }
    if (a == "b") { f(std::type_identity<KB> {}); return true; }
    if (a == "q") { f(std::type_identity<KQ> {}); return true; }
    if (a == "x") { f(std::type_identity<KX> {}); return true; }
    return false;
}

// `dst = a` / `dst = std::move(a)` and `D(a)` / `D(std::move(a))` for a named object a of type A; reports `a` afterwards.
// make(D&&) stores a newly constructed object.
template <typename D, typename A, typename Store>
std::string conv_from(bool assign, bool lvalue, long long n, D* dst, Store&& store)
{
    A arg = mk<A>(n);
    if (lvalue) {
        if (assign) {
            if constexpr (std::is_assignable_v<D&, A&>) { *dst = arg; } else { return "nc"; }
        } else {
            if constexpr (std::is_constructible_v<D, A&>) { store(std::make_unique<D>(arg)); } else { return "nc"; }
        }
    } else {
        if (assign) {
            if constexpr (std::is_assignable_v<D&, A>) { *dst = std::move(arg); } else { return "nc"; }
        } else {
            if constexpr (std::is_constructible_v<D, A>) { store(std::make_unique<D>(std::move(arg))); } else { return "nc"; }
        }
    }
    return "ok a=" + show(arg);
}

struct Cfg {
    virtual ~Cfg()                              = default;
    virtual std::string step(Line const& l)     = 0; // "impl\tstd" or "bad-op\tbad-op"
};
static std::string both(std::string const& a, std::string const& b) { return a + "\t" + b; }
static std::string const BAD = "bad-op\tbad-op";

// ---------------------------------------------------------------- variant
template <typename... Ts>
struct VarCfg final : Cfg {
    using EV = etl::variant<Ts...>;
    using SV = std::variant<Ts...>;
    static constexpr std::size_t N = sizeof...(Ts);
    static constexpr bool copyable = (std::is_copy_constructible_v<Ts> && ...);
    // configurations on which the value-category observations are instantiated (keeps the build time down)
    static constexpr bool cat_enabled = std::is_same_v<SV, std::variant<int, Trk>> || std::is_same_v<SV, std::variant<KQ, KX>>
                                        || std::is_same_v<SV, std::variant<int, KD>> || std::is_same_v<SV, std::variant<Trk, int, float>>;
    template <std::size_t I>
    using alt = std::variant_alternative_t<I, SV>;
    template <typename T>
    static constexpr std::size_t count = (static_cast<std::size_t>(std::is_same_v<T, Ts>) + ...);

    std::vector<std::unique_ptr<EV>> e;
    std::vector<std::unique_ptr<SV>> s;

    explicit VarCfg(std::size_t n)
    {
        for (std::size_t k = 0; k < n; ++k) {
            e.push_back(std::make_unique<EV>());
            s.push_back(std::make_unique<SV>());
        }
    }

    static std::string st1(EV const& v)
    {
        std::string r = std::to_string(v.index()) + ":";
        with_index<N>(v.index(), [&](auto I) { r += show(etl::unchecked_get<decltype(I)::value>(v)); });
        return r;
    }
    static std::string st1(SV const& v)
    {
        std::string r = std::to_string(v.index()) + ":";
        with_index<N>(v.index(), [&](auto I) { r += show(*std::get_if<decltype(I)::value>(&v)); });
        return r;
    }
    template <typename Vec>
    static std::string state(Vec const& v)
    {
        std::string r;
        for (auto const& p : v) { r += " " + st1(*p); }
        return r;
    }
    std::string fin(std::string const& a, std::string const& b) { return both(a + " |" + state(e), b + " |" + state(s)); }

    std::string step(Line const& l) override
    {
        auto const& op = l.op;
        auto slot      = [&](char const* key) -> std::size_t { return static_cast<std::size_t>(l.i(key)); };
        if (op == "state") { return fin("ok", "ok"); }
        if (l.has("s") && l.at("s").kind == proto::Val::Int && slot("s") >= e.size()) { return BAD; }
        if (op == "emplace") {
            auto k = slot("s");
            auto i = slot("i");
            auto n = l.i("v");
            if (i >= N) { return BAD; }
            bool byType = l.has("via");
            std::string ri = "ok", rs = "ok";
            with_index<N>(i, [&](auto I) {
                using T = alt<decltype(I)::value>;
                if (byType) {
                    if constexpr (count<T> == 1) {
                        auto& x = e[k]->template emplace<T>(mk<T>(n));
                        auto& y = s[k]->template emplace<T>(mk<T>(n));
                        ri = "ret=" + show(x);
                        rs = "ret=" + show(y);
                    } else {
                        ri = rs = "nc";
                    }
                } else {
                    auto& x = e[k]->template emplace<decltype(I)::value>(mk<T>(n));
                    auto& y = s[k]->template emplace<decltype(I)::value>(mk<T>(n));
                    ri = "ret=" + show(x);
                    rs = "ret=" + show(y);
                }
            });
            return fin(ri, rs);
        }
        if (op == "make") { // variant(in_place_index<I>, x): also for a repeated alternative type
            auto k = slot("s");
            auto i = slot("i");
            auto n = l.i("v");
            if (i >= N) { return BAD; }
            with_index<N>(i, [&](auto I) {
                using T = alt<decltype(I)::value>;
                e[k]    = std::make_unique<EV>(etl::in_place_index<decltype(I)::value>, mk<T>(n));
                s[k]    = std::make_unique<SV>(std::in_place_index<decltype(I)::value>, mk<T>(n));
            });
            return fin("ok", "ok");
        }
        if (op == "assign" || op == "ctor") {
            auto k = slot("s");
            auto j = slot("from");
            if (j >= e.size()) { return BAD; }
            bool mv = l.i("mv", 0) != 0;
            if (!mv) {
                if constexpr (copyable) {
                    if (op == "assign") {
                        *e[k] = *e[j];
                        *s[k] = *s[j];
                    } else {
                        auto pe = std::make_unique<EV>(*e[j]);
                        auto ps = std::make_unique<SV>(*s[j]);
                        e[k]    = std::move(pe);
                        s[k]    = std::move(ps);
                    }
                    return fin("ok", "ok");
                } else {
                    return fin("nc", "nc");
                }
            }
            if (op == "assign") {
                *e[k] = std::move(*e[j]);
                *s[k] = std::move(*s[j]);
            } else {
                auto pe = std::make_unique<EV>(std::move(*e[j]));
                auto ps = std::make_unique<SV>(std::move(*s[j]));
                e[k]    = std::move(pe);
                s[k]    = std::move(ps);
            }
            return fin("ok", "ok");
        }
        if (op == "swap") {
            auto k = slot("s");
            auto j = slot("with");
            if (j >= e.size()) { return BAD; }
            etl::swap(*e[k], *e[j]);
            std::swap(*s[k], *s[j]);
            return fin("ok", "ok");
        }
        if (op == "rel") {
            auto k = slot("s");
            auto j = slot("with");
            if (j >= e.size()) { return BAD; }
            return fin(rel6(*e[k], *e[j]), rel6(*s[k], *s[j]));
        }
        if (op == "conv") {
            auto k      = slot("s");
            auto n      = l.i("v");
            bool assign = l.str("how") == "assign";
            bool lvalue = l.has("cat") && l.str("cat") == "l";
            std::string ri = "nc", rs = "nc";
            bool ok = with_arg_type(l.str("a"), [&](auto tag) {
                using A = typename decltype(tag)::type;
                ri = conv_from<EV, A>(assign, lvalue, n, e[k].get(), [&](std::unique_ptr<EV> p) { e[k] = std::move(p); });
                rs = conv_from<SV, A>(assign, lvalue, n, s[k].get(), [&](std::unique_ptr<SV> p) { s[k] = std::move(p); });
            });
            return ok ? fin(ri, rs) : BAD;
        }
        if (op == "get_if" || op == "holds") {
            auto k = slot("s");
            auto i = slot("i");
            if (i >= N) { return BAD; }
            bool byType = l.has("via");
            std::string ri, rs;
            with_index<N>(i, [&](auto I) {
                using T = alt<decltype(I)::value>;
                if (op == "holds") {
                    if constexpr (count<T> == 1) {
                        ri = proto::fmt_bool(etl::holds_alternative<T>(*e[k]));
                        rs = proto::fmt_bool(std::holds_alternative<T>(*s[k]));
                    } else {
                        ri = rs = "nc";
                    }
                } else if (byType) {
                    if constexpr (count<T> == 1) {
                        EV const* ce = e[k].get();
                        auto* pe     = etl::get_if<T>(ce);
                        auto* ps     = std::get_if<T>(s[k].get());
                        ri           = pe ? show(*pe) : "null";
                        rs           = ps ? show(*ps) : "null";
                    } else {
                        ri = rs = "nc";
                    }
                } else {
                    auto* pe = etl::get_if<decltype(I)::value>(e[k].get());
                    auto* ps = std::get_if<decltype(I)::value>(s[k].get());
                    ri       = pe ? show(*pe) : "null";
                    rs       = ps ? show(*ps) : "null";
                }
            });
            return fin(ri, rs);
        }
        if (op == "visit") {
            auto const& ks = l.list("s");
            bool idx       = l.i("idx", 0) != 0;
            for (auto k : ks) {
                if (k < 0 || static_cast<std::size_t>(k) >= e.size()) { return BAD; }
            }
            std::string ri, rs;
            int ce = 0, cs = 0;
            auto ve = [&](auto const&... xs) {
                ++ce;
                ((ri += show(xs) + ","), ...);
                return ce;
            };
            auto vi = [&](auto... p) {
                ++ce;
                ((ri += std::to_string(p.index.value) + "=" + show(p.value()) + ","), ...);
                return ce;
            };
            auto vs = [&](auto const&... xs) {
                ++cs;
                ((rs += show(xs) + ","), ...);
                return cs;
            };
            auto si = [&](SV const& v) { rs += std::to_string(v.index()) + "=" + st1(v).substr(st1(v).find(':') + 1) + ","; };
            int re = 0, rr = 0;
            if (ks.size() == 1) {
                EV const& a = *e[ks[0]];
                SV const& x = *s[ks[0]];
                re = idx ? etl::visit_with_index(vi, a) : etl::visit(ve, a);
                if (idx) { si(x); rr = ++cs; } else { rr = std::visit(vs, x); }
            } else if (ks.size() == 2) {
                EV const& a = *e[ks[0]];
                EV const& b = *e[ks[1]];
                SV const& x = *s[ks[0]];
                SV const& y = *s[ks[1]];
                re = idx ? etl::visit_with_index(vi, a, b) : etl::visit(ve, a, b);
                if (idx) { si(x); si(y); rr = ++cs; } else { rr = std::visit(vs, x, y); }
            } else if (ks.size() == 3) {
                if constexpr (N <= 3) {
                    EV const& a = *e[ks[0]];
                    EV const& b = *e[ks[1]];
                    EV const& c = *e[ks[2]];
                    SV const& x = *s[ks[0]];
                    SV const& y = *s[ks[1]];
                    SV const& z = *s[ks[2]];
                    re = idx ? etl::visit_with_index(vi, a, b, c) : etl::visit(ve, a, b, c);
                    if (idx) { si(x); si(y); si(z); rr = ++cs; } else { rr = std::visit(vs, x, y, z); }
                } else {
                    return BAD;
                }
            } else {
                return BAD;
            }
            return fin("calls=" + std::to_string(ce) + " ret=" + std::to_string(re) + " " + ri,
                       "calls=" + std::to_string(cs) + " ret=" + std::to_string(rr) + " " + rs);
        }
        if (op == "visitp") { // non-variant arguments in visit (variant_size<V>() == 1 for them): pos=0 (n, v), 1 (v, n), 2 (n, n+1)
            auto k   = slot("s");
            auto pos = l.i("pos");
            int n    = static_cast<int>(l.i("v"));
            bool idx = l.i("idx", 0) != 0;
            std::string ri, rs;
            int ce = 0, cs = 0;
            auto ve = [&](auto const&... xs) { ++ce; ((ri += show(xs) + ","), ...); return ce; };
            auto vi = [&](auto... p) { ++ce; ((ri += std::to_string(p.index.value) + "=" + show(p.value()) + ","), ...); return ce; };
            EV const& a = *e[k];
            SV const& x = *s[k];
            int re = 0;
            // reference: std::visit takes variants only; a plain argument is handed to the visitor unchanged (index 0)
            auto sx = [&](std::string const& pre) { return pre + st1(x).substr(st1(x).find(':') + 1) + ","; };
            std::string const ix = idx ? std::to_string(x.index()) + "=" : std::string();
            std::string const i0 = idx ? std::string("0=") : std::string();
            if (pos == 0) {
                re = idx ? etl::visit_with_index(vi, n, a) : etl::visit(ve, n, a);
                rs = i0 + show(n) + "," + sx(ix);
            } else if (pos == 1) {
                re = idx ? etl::visit_with_index(vi, a, n) : etl::visit(ve, a, n);
                rs = sx(ix) + i0 + show(n) + ",";
            } else if (pos == 2) {
                int m = n + 1;
                re = idx ? etl::visit_with_index(vi, n, m) : etl::visit(ve, n, m);
                rs = i0 + show(n) + "," + i0 + show(m) + ",";
            } else {
                return BAD;
            }
            ++cs;
            return fin("calls=" + std::to_string(ce) + " ret=" + std::to_string(re) + " " + ri, "calls=" + std::to_string(cs) + " ret=1 " + rs);
        }
        if (op == "vcat") { // value category delivered by visit / unchecked_get / operator[] (observed, compared with std)
            if constexpr (cat_enabled) {
                auto const& ks = l.list("s");
                auto const& qs = l.list("q");
                bool take      = l.str("vis") == "take";
                if (ks.size() != qs.size() || ks.empty() || ks.size() > 2) { return BAD; }
                for (std::size_t t = 0; t < ks.size(); ++t) {
                    if (ks[t] < 0 || static_cast<std::size_t>(ks[t]) >= e.size() || qs[t] < 0 || qs[t] > 3) { return BAD; }
                }
                if (take && ks.size() == 2 && ks[0] == ks[1]) { return BAD; }
                std::string ri, rs;
                auto run = [&](auto vis_e, auto vis_s) {
                    if (ks.size() == 1) {
                        with_index<4>(static_cast<std::size_t>(qs[0]), [&](auto Q) {
                            etl::visit(vis_e, as_cat<decltype(Q)::value>(*e[ks[0]]));
                            std::visit(vis_s, as_cat<decltype(Q)::value>(*s[ks[0]]));
                        });
                    } else {
                        with_index<4>(static_cast<std::size_t>(qs[0]), [&](auto Q) {
                            with_index<4>(static_cast<std::size_t>(qs[1]), [&](auto P) {
                                etl::visit(vis_e, as_cat<decltype(Q)::value>(*e[ks[0]]), as_cat<decltype(P)::value>(*e[ks[1]]));
                                std::visit(vis_s, as_cat<decltype(Q)::value>(*s[ks[0]]), as_cat<decltype(P)::value>(*s[ks[1]]));
                            });
                        });
                    }
                };
                if (take) {
                    run(TakeVis {&ri}, TakeVis {&rs});
                    return fin("take=" + ri, "take=" + rs);
                }
                run(CatVis {&ri}, CatVis {&rs});
                // compile-time matrix (decltype): object category -> category of visit's argument, unchecked_get / std::get, operator[]
                auto cte = matrix4([](auto Q) { return decltype(etl::visit(CatT {}, as_cat<decltype(Q)::value>(std::declval<EV&>())))::value; });
                auto cts = matrix4([](auto Q) { return decltype(std::visit(CatT {}, as_cat<decltype(Q)::value>(std::declval<SV&>())))::value; });
                auto ge  = matrix4([](auto Q) { return cat_code<decltype(etl::unchecked_get<0>(as_cat<decltype(Q)::value>(std::declval<EV&>())))>(); });
                auto gs  = matrix4([](auto Q) { return cat_code<decltype(std::get<0>(as_cat<decltype(Q)::value>(std::declval<SV&>())))>(); });
                auto se  = matrix4([](auto Q) { return cat_code<decltype(as_cat<decltype(Q)::value>(std::declval<EV&>())[etl::index_v<0>])>(); });
                return fin("cat=" + ri + " ct=" + cte + " get=" + ge + " sub=" + se, "cat=" + rs + " ct=" + cts + " get=" + gs + " sub=" + gs);
            } else {
                return BAD;
            }
        }
        return BAD;
    }
};

// ---------------------------------------------------------------- optional<T> (partner optional<U>)
template <typename T, typename U>
struct OptCfg final : Cfg {
    using EO = etl::optional<T>;
    using SO = std::optional<T>;
    using EP = etl::optional<U>;
    using SP = std::optional<U>;
    static constexpr bool copyable = std::is_copy_constructible_v<T>;
    std::vector<std::unique_ptr<EO>> e;
    std::vector<std::unique_ptr<SO>> s;
    std::vector<std::unique_ptr<EP>> ep;
    std::vector<std::unique_ptr<SP>> sp;

    explicit OptCfg(std::size_t n)
    {
        for (std::size_t k = 0; k < n; ++k) {
            e.push_back(std::make_unique<EO>());
            s.push_back(std::make_unique<SO>());
            ep.push_back(std::make_unique<EP>());
            sp.push_back(std::make_unique<SP>());
        }
    }
    template <typename O>
    static std::string st1(O const& o)
    {
        return o.has_value() ? show(*o) : std::string("-");
    }
    template <typename Vec>
    static std::string state(Vec const& v)
    {
        std::string r;
        for (auto const& p : v) { r += " " + st1(*p); }
        return r;
    }
    std::string fin(std::string const& a, std::string const& b)
    {
        return both(a + " |" + state(e) + " |" + state(ep), b + " |" + state(s) + " |" + state(sp));
    }

    std::string step(Line const& l) override
    {
        auto const& op = l.op;
        auto slot      = [&](char const* key) -> std::size_t { return static_cast<std::size_t>(l.i(key)); };
        if (op == "state") { return fin("ok", "ok"); }
        for (auto key : {"s", "from", "with", "j"}) {
            if (l.has(key) && l.at(key).kind == proto::Val::Int && slot(key) >= e.size()) { return BAD; }
        }
        if (op == "reset") {
            e[slot("s")]->reset();
            s[slot("s")]->reset();
            return fin("ok", "ok");
        }
        if (op == "null") {
            auto k = slot("s");
            if (l.str("how") == "assign") {
                *e[k] = etl::nullopt;
                *s[k] = std::nullopt;
            } else {
                e[k] = std::make_unique<EO>(etl::nullopt);
                s[k] = std::make_unique<SO>(std::nullopt);
            }
            return fin("ok", "ok");
        }
        if (op == "emplace") {
            auto k  = slot("s");
            auto& x = e[k]->emplace(mk<T>(l.i("v")));
            auto& y = s[k]->emplace(mk<T>(l.i("v")));
            return fin("ret=" + show(x), "ret=" + show(y));
        }
        if (op == "val") {
            auto k      = slot("s");
            auto n      = l.i("v");
            bool assign = l.str("how") == "assign";
            bool lvalue = l.has("cat") && l.str("cat") == "l";
            std::string ri = "nc", rs = "nc";
            bool ok = with_arg_type(l.str("a"), [&](auto tag) {
                using A = typename decltype(tag)::type;
                ri = conv_from<EO, A>(assign, lvalue, n, e[k].get(), [&](std::unique_ptr<EO> p) { e[k] = std::move(p); });
                rs = conv_from<SO, A>(assign, lvalue, n, s[k].get(), [&](std::unique_ptr<SO> p) { s[k] = std::move(p); });
            });
            return ok ? fin(ri, rs) : BAD;
        }
        if (op == "assign" || op == "ctor") {
            auto k  = slot("s");
            auto j  = slot("from");
            bool mv = l.i("mv", 0) != 0;
            if (!mv) {
                if constexpr (copyable) {
                    if (op == "assign") {
                        *e[k] = *e[j];
                        *s[k] = *s[j];
                    } else {
                        auto pe = std::make_unique<EO>(*e[j]);
                        auto ps = std::make_unique<SO>(*s[j]);
                        e[k]    = std::move(pe);
                        s[k]    = std::move(ps);
                    }
                    return fin("ok", "ok");
                } else {
                    return fin("nc", "nc");
                }
            }
            if (op == "assign") {
                *e[k] = std::move(*e[j]);
                *s[k] = std::move(*s[j]);
            } else {
                auto pe = std::make_unique<EO>(std::move(*e[j]));
                auto ps = std::make_unique<SO>(std::move(*s[j]));
                e[k]    = std::move(pe);
                s[k]    = std::move(ps);
            }
            return fin("ok", "ok");
        }
        if (op == "swap") {
            auto k = slot("s");
            auto j = slot("with");
            if (l.has("via")) {
                e[k]->swap(*e[j]);
                s[k]->swap(*s[j]);
            } else {
                etl::swap(*e[k], *e[j]);
                std::swap(*s[k], *s[j]);
            }
            return fin("ok", "ok");
        }
        if (op == "pset") {
            auto j = slot("j");
            if (l.has("v")) {
                *ep[j] = mk<U>(l.i("v"));
                *sp[j] = mk<U>(l.i("v"));
            } else {
                *ep[j] = etl::nullopt;
                *sp[j] = std::nullopt;
            }
            return fin("ok", "ok");
        }
        if (op == "conv") { // optional<T> from optional<U>
            auto k      = slot("s");
            auto j      = slot("from");
            bool mv     = l.i("mv", 0) != 0;
            bool assign = l.str("how") == "assign";
            if (assign) {
                if (mv) {
                    *e[k] = std::move(*ep[j]);
                    *s[k] = std::move(*sp[j]);
                } else {
                    *e[k] = *ep[j];
                    *s[k] = *sp[j];
                }
            } else {
                if (mv) {
                    e[k] = std::make_unique<EO>(std::move(*ep[j]));
                    s[k] = std::make_unique<SO>(std::move(*sp[j]));
                } else {
                    e[k] = std::make_unique<EO>(*ep[j]);
                    s[k] = std::make_unique<SO>(*sp[j]);
                }
            }
            return fin("ok", "ok");
        }
        if (op == "rel") { return fin(rel6(*e[slot("s")], *e[slot("with")]), rel6(*s[slot("s")], *s[slot("with")])); }
        if (op == "relm") {
            auto k = slot("s");
            auto j = slot("with");
            return fin(rel6(*e[k], *ep[j]) + rel6(*ep[j], *e[k]), rel6(*s[k], *sp[j]) + rel6(*sp[j], *s[k]));
        }
        if (op == "reln") {
            auto k = slot("s");
            return fin(C07_RELN(*e[k], etl::nullopt) + C07_RELN(etl::nullopt, *e[k]), rel6(*s[k], std::nullopt) + rel6(std::nullopt, *s[k]));
        }
        if (op == "relv") {
            auto k = slot("s");
            auto n = l.i("v");
            if (l.str("a") == "own") {
                T x = mk<T>(n);
                return fin(rel6(*e[k], x) + rel6(x, *e[k]), rel6(*s[k], x) + rel6(x, *s[k]));
            }
            U x = mk<U>(n);
            return fin(rel6(*e[k], x) + rel6(x, *e[k]), rel6(*s[k], x) + rel6(x, *s[k]));
        }
        if (op == "has") {
            auto k = slot("s");
            return fin(proto::fmt_bool(e[k]->has_value()) + proto::fmt_bool(static_cast<bool>(*e[k])) + proto::fmt_bool(e[k]->operator->() != nullptr),
                       proto::fmt_bool(s[k]->has_value()) + proto::fmt_bool(static_cast<bool>(*s[k])) + proto::fmt_bool(s[k]->has_value()));
        }
        if (op == "value") { // checked access: std::optional::value() returns the value or throws bad_optional_access
            auto k = slot("s");
            std::string rs;
            try {
                rs = show(s[k]->value());
            } catch (std::bad_optional_access const&) {
                rs = "throw";
            }
#if C07_HAS_VALUE
            std::string ri = e[k]->has_value() ? show(e[k]->value()) : std::string("throw");
#else
            std::string ri = "nc";
#endif
            return fin(ri, rs);
        }
        if (op == "value_or") {
            auto k  = slot("s");
            auto n  = l.i("v");
            bool mv = l.i("mv", 0) != 0;
            if (mv) {
                T x = std::move(*e[k]).value_or(mk<T>(n));
                T y = std::move(*s[k]).value_or(mk<T>(n));
                return fin(show(x), show(y));
            }
            if constexpr (copyable) {
                T x = e[k]->value_or(mk<T>(n));
                T y = s[k]->value_or(mk<T>(n));
                return fin(show(x), show(y));
            } else {
                return fin("nc", "nc");
            }
        }
        if (op == "and_then") {
            auto k    = slot("s");
            bool none = l.str("f") == "none";
            int ce = 0, cs = 0;
            auto re = e[k]->and_then([&](T const& x) { ++ce; return none ? EO() : EO(bump(x)); });
            auto rs = s[k]->and_then([&](T const& x) { ++cs; return none ? SO() : SO(bump(x)); });
            return fin("calls=" + std::to_string(ce) + " " + st1(re), "calls=" + std::to_string(cs) + " " + st1(rs));
        }
        if (op == "or_else") {
            auto k  = slot("s");
            bool mv = l.i("mv", 0) != 0;
            int ce = 0, cs = 0;
            auto fe = [&] { ++ce; return l.has("v") ? EO(mk<T>(l.i("v"))) : EO(); };
            auto fs = [&] { ++cs; return l.has("v") ? SO(mk<T>(l.i("v"))) : SO(); };
            if (mv) {
                auto re = std::move(*e[k]).or_else(fe);
                auto rs = std::move(*s[k]).or_else(fs);
                return fin("calls=" + std::to_string(ce) + " " + st1(re), "calls=" + std::to_string(cs) + " " + st1(rs));
            }
            if constexpr (copyable) {
                auto re = e[k]->or_else(fe);
                auto rs = s[k]->or_else(fs);
                return fin("calls=" + std::to_string(ce) + " " + st1(re), "calls=" + std::to_string(cs) + " " + st1(rs));
            } else {
                return fin("nc", "nc");
            }
        }
        if (op == "ocat") { // value category of operator* and of and_then's argument; `take`: T x = *<category>(o)
            if constexpr (copyable) {
                auto k = slot("s");
                auto q = l.i("q");
                if (q < 0 || q > 3) { return BAD; }
                auto de = matrix4([](auto Q) { return cat_code<decltype(*as_cat<decltype(Q)::value>(std::declval<EO&>()))>(); });
                auto ds = matrix4([](auto Q) { return cat_code<decltype(*as_cat<decltype(Q)::value>(std::declval<SO&>()))>(); });
                int ae = -1, as = -1;
                std::string te = "-", ts = "-";
                with_index<4>(static_cast<std::size_t>(q), [&](auto Q) {
                    constexpr int C = decltype(Q)::value;
                    (void)as_cat<C>(*e[k]).and_then([&]<typename A>(A&&) { ae = cat_code<A&&>(); return EO(); });
                    (void)as_cat<C>(*s[k]).and_then([&]<typename A>(A&&) { as = cat_code<A&&>(); return SO(); });
                    if (l.has("take") && e[k]->has_value() && s[k]->has_value()) {
                        T x = *as_cat<C>(*e[k]);
                        T y = *as_cat<C>(*s[k]);
                        te  = show(x);
                        ts  = show(y);
                    }
                });
                return fin("deref=" + de + " at=" + std::to_string(ae) + " take=" + te, "deref=" + ds + " at=" + std::to_string(as) + " take=" + ts);
            } else {
                return fin("nc", "nc");
            }
        }
        return BAD;
    }
};

// ---------------------------------------------------------------- optional<int&>; reference = a pointer
struct ORefCfg final : Cfg {
    using EO = etl::optional<int&>;
    std::unique_ptr<int[]> ce, cs; // referents (cells), one array per side
    std::size_t ncell = 3;
    std::vector<std::unique_ptr<EO>> e;
    std::vector<int*> s;
    explicit ORefCfg(std::size_t n) : ce(new int[3] {10, 20, 30}), cs(new int[3] {10, 20, 30})
    {
        for (std::size_t k = 0; k < n; ++k) {
            e.push_back(std::make_unique<EO>());
            s.push_back(nullptr);
        }
    }
    std::string fin(std::string const& a, std::string const& b)
    {
        std::string x = a + " |", y = b + " |";
        for (auto const& p : e) { x += p->has_value() ? " c" + std::to_string(p->operator->() - ce.get()) : std::string(" -"); }
        for (auto p : s) { y += p != nullptr ? " c" + std::to_string(p - cs.get()) : std::string(" -"); }
        x += " |";
        y += " |";
        for (std::size_t c = 0; c < ncell; ++c) {
            x += " " + std::to_string(ce[c]);
            y += " " + std::to_string(cs[c]);
        }
        return both(x, y);
    }
    using CR = etl::optional<int const&>;
    static std::string showc(CR const& c, int const* want)
    {
        if (!c.has_value()) { return "-"; }
        if (c.operator->() != want) { return "engaged p=0"; } // bound to something else (not read)
        return show(*c) + " p=1";
    }
    // How: 0 direct-initialization, 1 copy-initialization, 2 assignment to a target that is empty / bound to *pre
    template <int How, typename From>
    static std::string conv_any(From&& from, int const* pre, int const* want)
    {
        if constexpr (How == 0) {
            CR c(std::forward<From>(from));
            return showc(c, want);
        } else if constexpr (How == 1) {
            CR c = std::forward<From>(from);
            return showc(c, want);
        } else {
            CR c = pre != nullptr ? CR(*pre) : CR();
            CR& r = (c = std::forward<From>(from));
            return &r == &c ? showc(c, want) : std::string("bad-return");
        }
    }
    template <int How, typename From>
    static std::string conv_c(From&& from, int const* pre, int const* want) // const sources
    {
        if constexpr (How == 2 ? C07_HAS_OPTREF_ASSIGN_C != 0 : C07_HAS_OPTREF_CTOR_C != 0) {
            return conv_any<How>(std::forward<From>(from), pre, want);
        } else {
            (void)from, (void)pre, (void)want;
            return "nc";
        }
    }
    template <int How, typename From>
    static std::string conv_m(From&& from, int const* pre, int const* want) // non-const lvalue and rvalue sources
    {
        if constexpr (How == 2 ? C07_HAS_OPTREF_ASSIGN_M != 0 : C07_HAS_OPTREF_CTOR_M != 0) {
            return conv_any<How>(std::forward<From>(from), pre, want);
        } else {
            (void)from, (void)pre, (void)want;
            return "nc";
        }
    }
    static std::string relp(int* a, int* b)
    {
        // reference semantics of P2988: compare like optional<int> on the referents
        std::optional<int> x = a ? std::optional<int>(*a) : std::nullopt;
        std::optional<int> y = b ? std::optional<int>(*b) : std::nullopt;
        return rel6(x, y);
    }
    std::string step(Line const& l) override
    {
        auto const& op = l.op;
        auto slot      = [&](char const* key) -> std::size_t { return static_cast<std::size_t>(l.i(key)); };
        if (op == "state") { return fin("ok", "ok"); }
        for (auto key : {"s", "from", "with"}) {
            if (l.has(key) && slot(key) >= e.size()) { return BAD; }
        }
        if (l.has("c") && slot("c") >= ncell) { return BAD; }
        if (op == "bind") {
            auto k   = slot("s");
            auto c   = slot("c");
            auto how = l.str("how");
            if (how == "ctor") {
                e[k] = std::make_unique<EO>(ce[c]);
            } else if (how == "assign") {
                *e[k] = ce[c];
            } else if (how == "emplace") {
                e[k]->emplace(ce[c]);
            } else {
                return BAD;
            }
            s[k] = &cs[c];
            return fin("ok", "ok");
        }
        if (op == "null") {
            auto k = slot("s");
            if (l.str("how") == "assign") {
                *e[k] = etl::nullopt;
            } else {
                e[k] = std::make_unique<EO>(etl::nullopt);
            }
            s[k] = nullptr;
            return fin("ok", "ok");
        }
        if (op == "reset") {
            e[slot("s")]->reset();
            s[slot("s")] = nullptr;
            return fin("ok", "ok");
        }
        if (op == "assign" || op == "ctor") {
            auto k  = slot("s");
            auto j  = slot("from");
            bool mv = l.i("mv", 0) != 0;
            if (op == "assign") {
                if (mv) { *e[k] = std::move(*e[j]); } else { *e[k] = *e[j]; }
            } else {
                auto p = mv ? std::make_unique<EO>(std::move(*e[j])) : std::make_unique<EO>(*e[j]);
                e[k]   = std::move(p);
            }
            s[k] = s[j];
            return fin("ok", "ok");
        }
        if (op == "swap") {
            auto k = slot("s");
            auto j = slot("with");
            if (l.has("via")) { e[k]->swap(*e[j]); } else { etl::swap(*e[k], *e[j]); }
            std::swap(s[k], s[j]);
            return fin("ok", "ok");
        }
        if (op == "write") { // assign through the reference: the referent changes, the binding does not
            auto k = slot("s");
            if (!e[k]->has_value() || s[k] == nullptr) { return fin(e[k]->has_value() ? "engaged" : "empty", s[k] ? "engaged" : "empty"); } // precondition of operator*: not driven
            **e[k] = static_cast<int>(l.i("v"));
            *s[k]  = static_cast<int>(l.i("v"));
            return fin("ok", "ok");
        }
        if (op == "get") {
            auto k = slot("s");
            return fin(e[k]->has_value() ? show(**e[k]) + proto::fmt_bool(static_cast<bool>(*e[k])) : std::string("-") + proto::fmt_bool(static_cast<bool>(*e[k])),
                       s[k] ? show(*s[k]) + "1" : std::string("-0"));
        }
        if (op == "rel") {
            auto k = slot("s");
            auto j = slot("with");
            return fin(rel6(*e[k], *e[j]), relp(s[k], s[j]));
        }
        if (op == "reln") {
            auto k = slot("s");
            std::optional<int> y = s[k] ? std::optional<int>(*s[k]) : std::nullopt;
            return fin(C07_RELN(*e[k], etl::nullopt) + C07_RELN(etl::nullopt, *e[k]), rel6(y, std::nullopt) + rel6(std::nullopt, y));
        }
        if (op == "conv") {
            // optional<int const&> made from another optional: P2988 converting constructor (how=ctor: direct-,
            // how=implicit: copy-initialization) and converting assignment (how=assign, target bound to cell `pre`
            // or empty before).  Source: slot s as a non-const lvalue (src=ref), const lvalue (cref) or rvalue (rref)
            // optional<int&>, or an optional<int> (val: non-const lvalue, cval: const lvalue) that holds a copy of the
            // referent of slot s / is empty when the slot is.  Reference = the paper's wording on pointers:
            // "if rhs.has_value() is true, val refers to *rhs; otherwise *this is empty".
            // Answer: `-` (empty) or `<referent> p=1` (p: the result points at the object the source holds).
            auto k   = slot("s");
            auto how = l.str("how");
            auto src = l.str("src");
            if (how != "ctor" && how != "implicit" && how != "assign") { return BAD; }
            if (l.has("pre") && (how != "assign" || slot("pre") >= ncell)) { return BAD; }
            int const* pre = l.has("pre") ? &ce[slot("pre")] : nullptr;
            etl::optional<int> ev = e[k]->has_value() ? etl::optional<int>(**e[k]) : etl::optional<int>();
            std::optional<int> sv = s[k] != nullptr ? std::optional<int>(*s[k]) : std::nullopt;
            bool const val = src == "val" || src == "cval";
            if (!val && src != "ref" && src != "cref" && src != "rref") { return BAD; }
            // the object the source holds, on each side
            int const* want = val ? (ev.has_value() ? &*ev : nullptr) : (e[k]->has_value() ? e[k]->operator->() : nullptr);
            int const* ref  = val ? (sv.has_value() ? &*sv : nullptr) : s[k]; // reference result: rhs.has_value() ? &*rhs : null
            std::string ri  = "nc";
            int const h     = how == "ctor" ? 0 : how == "implicit" ? 1 : 2;
            if (src == "cref") {
                ri = h == 0 ? conv_c<0>(std::as_const(*e[k]), pre, want) : h == 1 ? conv_c<1>(std::as_const(*e[k]), pre, want) : conv_c<2>(std::as_const(*e[k]), pre, want);
            } else if (src == "cval") {
                ri = h == 0 ? conv_c<0>(std::as_const(ev), pre, want) : h == 1 ? conv_c<1>(std::as_const(ev), pre, want) : conv_c<2>(std::as_const(ev), pre, want);
            } else if (src == "ref") {
                ri = h == 0 ? conv_m<0>(*e[k], pre, want) : h == 1 ? conv_m<1>(*e[k], pre, want) : conv_m<2>(*e[k], pre, want);
            } else if (src == "rref") {
                ri = h == 0 ? conv_m<0>(std::move(*e[k]), pre, want) : h == 1 ? conv_m<1>(std::move(*e[k]), pre, want) : conv_m<2>(std::move(*e[k]), pre, want);
            } else {
                ri = h == 0 ? conv_m<0>(ev, pre, want) : h == 1 ? conv_m<1>(ev, pre, want) : conv_m<2>(ev, pre, want);
            }
            return fin(ri, ref != nullptr ? show(*ref) + " p=1" : std::string("-"));
        }
        return BAD;
    }
};

// ---------------------------------------------------------------- expected<T,E>
template <typename T, typename E>
struct ExpCfg final : Cfg {
    using EX = etl::expected<T, E>;
    using SX = std::expected<T, E>;
    static constexpr bool copyable = std::is_copy_constructible_v<T> && std::is_copy_constructible_v<E>;
    std::vector<std::unique_ptr<EX>> e;
    std::vector<std::unique_ptr<SX>> s;
    explicit ExpCfg(std::size_t n)
    {
        for (std::size_t k = 0; k < n; ++k) {
            e.push_back(std::make_unique<EX>());
            s.push_back(std::make_unique<SX>());
        }
    }
    template <typename X>
    static std::string st1(X const& x)
    {
        return x.has_value() ? "v:" + show(*x) : "e:" + show(x.error());
    }
    template <typename Vec>
    static std::string state(Vec const& v)
    {
        std::string r;
        for (auto const& p : v) { r += " " + st1(*p); }
        return r;
    }
    std::string fin(std::string const& a, std::string const& b) { return both(a + " |" + state(e), b + " |" + state(s)); }

    std::string step(Line const& l) override
    {
        auto const& op = l.op;
        auto slot      = [&](char const* key) -> std::size_t { return static_cast<std::size_t>(l.i(key)); };
        if (op == "state") { return fin("ok", "ok"); }
        for (auto key : {"s", "from", "with"}) {
            if (l.has(key) && slot(key) >= e.size()) { return BAD; }
        }
        if (op == "ctor_def") {
            e[slot("s")] = std::make_unique<EX>();
            s[slot("s")] = std::make_unique<SX>();
            return fin("ok", "ok");
        }
        if (op == "ctor_val") {
            e[slot("s")] = std::make_unique<EX>(etl::in_place, mk<T>(l.i("v")));
            s[slot("s")] = std::make_unique<SX>(std::in_place, mk<T>(l.i("v")));
            return fin("ok", "ok");
        }
        if (op == "ctor_err") {
            e[slot("s")] = std::make_unique<EX>(etl::unexpect, mk<E>(l.i("v")));
            s[slot("s")] = std::make_unique<SX>(std::unexpect, mk<E>(l.i("v")));
            return fin("ok", "ok");
        }
        if (op == "emplace") {
            auto k  = slot("s");
            auto& x = e[k]->emplace(mk<T>(l.i("v")));
            auto& y = s[k]->emplace(mk<T>(l.i("v")));
            return fin("ret=" + show(x), "ret=" + show(y));
        }
        if (op == "assign_unex") {
            auto k = slot("s");
#if C07_HAS_EXPECTED_UNEX_ASSIGN
            EX etmp(etl::unexpect, mk<E>(0));
            etmp = etl::unexpected<E>(mk<E>(l.i("v")));
            std::string ri = "ok=" + st1(etmp);
#else
            std::string ri = "nc";
#endif
            // the reference result is shown, not stored (so that a history can go on when the member is missing)
            SX tmp(std::unexpect, mk<E>(0));
            tmp = std::unexpected<E>(mk<E>(l.i("v")));
            return fin(ri, "ok=" + st1(tmp));
        }
        if (op == "assign" || op == "ctor") {
            auto k  = slot("s");
            auto j  = slot("from");
            bool mv = l.i("mv", 0) != 0;
            if (!mv) {
                if constexpr (copyable) {
                    if (op == "assign") {
                        *e[k] = *e[j];
                        *s[k] = *s[j];
                    } else {
                        auto pe = std::make_unique<EX>(*e[j]);
                        auto ps = std::make_unique<SX>(*s[j]);
                        e[k]    = std::move(pe);
                        s[k]    = std::move(ps);
                    }
                    return fin("ok", "ok");
                } else {
                    return fin("nc", "nc");
                }
            }
            if (op == "assign") {
                *e[k] = std::move(*e[j]);
                *s[k] = std::move(*s[j]);
            } else {
                auto pe = std::make_unique<EX>(std::move(*e[j]));
                auto ps = std::make_unique<SX>(std::move(*s[j]));
                e[k]    = std::move(pe);
                s[k]    = std::move(ps);
            }
            return fin("ok", "ok");
        }
        if (op == "swap") {
            etl::swap(*e[slot("s")], *e[slot("with")]);
            std::swap(*s[slot("s")], *s[slot("with")]);
            return fin("ok", "ok");
        }
        if (op == "has") {
            auto k = slot("s");
            return fin(proto::fmt_bool(e[k]->has_value()) + proto::fmt_bool(static_cast<bool>(*e[k])) + proto::fmt_bool(e[k]->operator->() != nullptr),
                       proto::fmt_bool(s[k]->has_value()) + proto::fmt_bool(static_cast<bool>(*s[k])) + proto::fmt_bool(s[k]->has_value()));
        }
        if (op == "value") { // checked access: std::expected::value() returns the value or throws bad_expected_access<E>
            auto k = slot("s");
            std::string rs;
            if constexpr (std::is_copy_constructible_v<E>) {
                try {
                    rs = show(s[k]->value());
                } catch (std::bad_expected_access<E> const&) {
                    rs = "throw";
                }
            } else {
                rs = s[k]->has_value() ? show(**s[k]) : std::string("throw"); // value() const& needs a copyable E
            }
#if C07_HAS_VALUE
            std::string ri = e[k]->has_value() ? show(e[k]->value()) : std::string("throw");
#else
            std::string ri = "nc";
#endif
            return fin(ri, rs);
        }
        if (op == "rel") { // [expected.object.eq]: == and != (rewritten) between two expected objects
            auto k = slot("s");
            auto j = slot("with");
            std::string rs;
            rs += (*s[k] == *s[j]) ? '1' : '0';
            rs += (*s[k] != *s[j]) ? '1' : '0';
#if C07_HAS_EXPECTED_EQ
            std::string ri;
            ri += (*e[k] == *e[j]) ? '1' : '0';
            ri += (*e[k] != *e[j]) ? '1' : '0';
#else
            std::string ri = "nc";
#endif
            return fin(ri, rs);
        }
        if (op == "value_or") {
            auto k  = slot("s");
            bool mv = l.i("mv", 0) != 0;
            if (mv) {
                T x = std::move(*e[k]).value_or(mk<T>(l.i("v")));
                T y = std::move(*s[k]).value_or(mk<T>(l.i("v")));
                return fin(show(x), show(y));
            }
            if constexpr (std::is_copy_constructible_v<T>) {
                T x = e[k]->value_or(mk<T>(l.i("v")));
                T y = s[k]->value_or(mk<T>(l.i("v")));
                return fin(show(x), show(y));
            } else {
                return fin("nc", "nc");
            }
        }
        if (op == "and_then") { // f=inc: value+1 ; f=fail: unexpected(v)
            auto k    = slot("s");
            bool fail = l.str("f") == "fail";
            int ce = 0, cs = 0;
            if constexpr (copyable) {
                auto re = e[k]->and_then([&](T const& x) { ++ce; return fail ? EX(etl::unexpect, mk<E>(l.i("v", 0))) : EX(etl::in_place, bump(x)); });
                // libstdc++ 12 has no monadic members on std::expected: the reference is their definition in [expected.object.monadic]
                auto gs = [&](T const& x) { ++cs; return fail ? SX(std::unexpect, mk<E>(l.i("v", 0))) : SX(std::in_place, bump(x)); };
                auto rs = s[k]->has_value() ? gs(**s[k]) : SX(std::unexpect, s[k]->error());
                return fin("calls=" + std::to_string(ce) + " " + st1(re), "calls=" + std::to_string(cs) + " " + st1(rs));
            } else {
                return fin("nc", "nc");
            }
        }
        if (op == "or_else") { // f=recover: value v ; f=same: unexpected(error+1)
            auto k       = slot("s");
            bool recover = l.str("f") == "recover";
            int ce = 0, cs = 0;
            if constexpr (copyable) {
                auto re = e[k]->or_else([&](E const& x) { ++ce; return recover ? EX(etl::in_place, mk<T>(l.i("v", 0))) : EX(etl::unexpect, bump(x)); });
                auto gs = [&](E const& x) { ++cs; return recover ? SX(std::in_place, mk<T>(l.i("v", 0))) : SX(std::unexpect, bump(x)); };
                auto rs = s[k]->has_value() ? SX(std::in_place, **s[k]) : gs(s[k]->error());
                return fin("calls=" + std::to_string(ce) + " " + st1(re), "calls=" + std::to_string(cs) + " " + st1(rs));
            } else {
                return fin("nc", "nc");
            }
        }
        if (op == "ecat") { // value category of operator*, error(), and of the argument and_then / or_else hand to f
            if constexpr (copyable) {
                auto k = slot("s");
                auto q = l.i("q");
                if (q < 0 || q > 3) { return BAD; }
                auto de = matrix4([](auto Q) { return cat_code<decltype(*as_cat<decltype(Q)::value>(std::declval<EX&>()))>(); });
                auto ds = matrix4([](auto Q) { return cat_code<decltype(*as_cat<decltype(Q)::value>(std::declval<SX&>()))>(); });
                auto ee = matrix4([](auto Q) { return cat_code<decltype(as_cat<decltype(Q)::value>(std::declval<EX&>()).error())>(); });
                auto es = matrix4([](auto Q) { return cat_code<decltype(as_cat<decltype(Q)::value>(std::declval<SX&>()).error())>(); });
                int ae = -1, oe = -1;
                with_index<4>(static_cast<std::size_t>(q), [&](auto Q) {
                    constexpr int C = decltype(Q)::value;
                    (void)as_cat<C>(*e[k]).and_then([&]<typename A>(A&&) { ae = cat_code<A&&>(); return EX(); });
                    (void)as_cat<C>(*e[k]).or_else([&]<typename A>(A&&) { oe = cat_code<A&&>(); return EX(); });
                });
                // [expected.object.monadic] (libstdc++ 12 has no monadic members): f is invoked with `**this` / `error()` for
                // & and const&, with `std::move(**this)` / `std::move(error())` for && and const&&: the object's own category
                int as = s[k]->has_value() ? static_cast<int>(q) : -1;
                int os = s[k]->has_value() ? -1 : static_cast<int>(q);
                if (q == 2) { // an rvalue expected: or_else moves the value into its result, and_then the error
                    if (s[k]->has_value()) {
                        SX moved(std::in_place, std::move(**s[k]));
                    } else {
                        SX moved(std::unexpect, std::move(s[k]->error()));
                    }
                }
                return fin("deref=" + de + " err=" + ee + " at=" + std::to_string(ae) + " oe=" + std::to_string(oe),
                           "deref=" + ds + " err=" + es + " at=" + std::to_string(as) + " oe=" + std::to_string(os));
            } else {
                return fin("nc", "nc");
            }
        }
        return BAD;
    }
};

// ---------------------------------------------------------------- converting constructor / assignment: which alternative
// kinds: b bool, h char, s short, i int, l long, u unsigned, f float, d double, p char const*, P int*, v void const*,
// n nullptr_t, L string literal (lvalue char const[4]), e unscoped enum : int, E scoped enum, T Text(char const*),
// N Num(int), I ToInt (operator int)
enum SelUE : int { SelUA, SelUB };
enum class SelSE { A, B };
struct SelText {
    char const* s;
    SelText() noexcept : s("") { }
    SelText(char const* p) noexcept : s(p) { } // NOLINT implicit: a class alternative constructible from a pointer
};
struct SelNum {
    int v;
    SelNum() noexcept : v(0) { }
    SelNum(int x) noexcept : v(x) { } // NOLINT
};
struct SelToInt {
    operator int() const noexcept { return 4; } // NOLINT
};

template <typename V, typename A>
std::string sel_one(bool assign, A&& a)
{
    if (assign) {
        if constexpr (std::is_assignable_v<V&, A>) {
            V v;
            v = std::forward<A>(a);
            return std::to_string(v.index());
        } else {
            return "nc";
        }
    } else {
        if constexpr (std::is_constructible_v<V, A>) {
            V v(std::forward<A>(a));
            return std::to_string(v.index());
        } else {
            return "nc";
        }
    }
}

template <typename F>
bool with_sel_arg(std::string const& a, F&& f)
{
    static int cell             = 3;
    static char const lit[4]    = "abc"; // the type and value category of a string literal
    if (a == "b") { f(true); return true; }
    if (a == "h") { f('c'); return true; }
    if (a == "s") { f(static_cast<short>(3)); return true; }
    if (a == "i") { f(5); return true; }
    if (a == "l") { f(7L); return true; }
    if (a == "u") { f(9U); return true; }
    if (a == "f") { f(1.5F); return true; }
    if (a == "d") { f(2.5); return true; }
    if (a == "p") { char const* p = lit; f(std::move(p)); return true; }
    if (a == "P") { int* p = &cell; f(std::move(p)); return true; }
    if (a == "v") { void const* p = &cell; f(std::move(p)); return true; }
    if (a == "n") { f(nullptr); return true; }
    if (a == "L") { f(lit); return true; }
    if (a == "e") { f(SelUB); return true; }
    if (a == "E") { f(SelSE::B); return true; }
    if (a == "T") { f(SelText("x")); return true; }
    if (a == "N") { f(SelNum(1)); return true; }
    if (a == "I") { f(SelToInt {}); return true; }
    return false;
}

template <typename... Ts>
std::string sel_list(std::string const& a, bool assign)
{
    std::string ri, rs;
    bool ok = with_sel_arg(a, [&]<typename A>(A&& arg) {
        ri = sel_one<etl::variant<Ts...>, A>(assign, std::forward<A>(arg));
        rs = sel_one<std::variant<Ts...>, A>(assign, std::forward<A>(arg));
    });
    return ok ? both(ri + " |", rs + " |") : BAD;
}

struct SelCfg final : Cfg {
    int half; // which half of the alternative lists this translation unit has
    explicit SelCfg(int h) : half(h) { }
    std::string step(Line const& l) override;
};

// ---------------------------------------------------------------- visit over arguments of DIFFERENT types
// `new kind=mv`, `mvis k=[K,..] act=[A,..] v=[N,..] q=[Q,..] idx=0|1`: etl::visit / etl::visit_with_index over one to four
// arguments, argument j of kind K_j (0 = a non-variant int, 1..4 = a variant with that many alternatives: every argument has
// its OWN variant type and alternative count), holding alternative A_j made from N_j, passed with value category Q_j.  The
// visitor takes forwarding references and reports, per argument, the reference kind, the STATIC type (the overload of show
// that is selected) and the value.  Reference: std::visit over std::variants of the same alternatives (a non-variant argument
// is handed on unchanged: a one-alternative variant on the std side).
template <int K>
struct MvK;
template <>
struct MvK<0> {
    using E  = int;
    using S  = std::variant<int>;
    using Ts = std::tuple<int>;
};
template <>
struct MvK<1> {
    using E  = etl::variant<long>;
    using S  = std::variant<long>;
    using Ts = std::tuple<long>;
};
template <>
struct MvK<2> {
    using E  = etl::variant<int, Trk>;
    using S  = std::variant<int, Trk>;
    using Ts = std::tuple<int, Trk>;
};
template <>
struct MvK<3> {
    using E  = etl::variant<Trk, float, int>;
    using S  = std::variant<Trk, float, int>;
    using Ts = std::tuple<Trk, float, int>;
};
template <>
struct MvK<4> {
    using E  = etl::variant<float, int, long, Trk>;
    using S  = std::variant<float, int, long, Trk>;
    using Ts = std::tuple<float, int, long, Trk>;
};

template <int K>
std::unique_ptr<typename MvK<K>::E> mv_make_e(std::size_t act, long long v)
{
    using E = typename MvK<K>::E;
    std::unique_ptr<E> r;
    if constexpr (K == 0) {
        if (act == 0) { r = std::make_unique<E>(static_cast<int>(v)); }
    } else {
        with_index<std::tuple_size_v<typename MvK<K>::Ts>>(act, [&](auto I) {
            constexpr auto i = decltype(I)::value;
            r = std::make_unique<E>(etl::in_place_index<i>, mk<std::tuple_element_t<i, typename MvK<K>::Ts>>(v));
        });
    }
    return r;
}
template <int K>
std::unique_ptr<typename MvK<K>::S> mv_make_s(std::size_t act, long long v)
{
    using S = typename MvK<K>::S;
    std::unique_ptr<S> r;
    with_index<std::tuple_size_v<typename MvK<K>::Ts>>(act, [&](auto I) {
        constexpr auto i = decltype(I)::value;
        r = std::make_unique<S>(std::in_place_index<i>, mk<std::tuple_element_t<i, typename MvK<K>::Ts>>(v));
    });
    return r;
}

// forwarding visitor: reference kind, static type (overload of show) and value of every argument
struct MvVis {
    std::vector<std::string>* items;
    int* calls;
    template <typename... A>
    int operator()(A&&... a) const
    {
        ++*calls;
        (items->push_back(std::to_string(cat_code<A&&>()) + ":" + show(a)), ...);
        return *calls;
    }
};
// visit_with_index: additionally the static index of every indexed_value
struct MvVisI {
    std::vector<std::string>* items;
    int* calls;
    template <typename... P>
    int operator()(P... p) const
    {
        ++*calls;
        (items->push_back(std::to_string(p.index.value) + "=" + std::to_string(cat_code<decltype(std::move(p).value())>()) + ":"
                          + show(p.value())),
         ...);
        return *calls;
    }
};
template <int... Q>
struct MvCats { };

template <int... K>
struct MvRun {
    std::tuple<std::unique_ptr<typename MvK<K>::E>...> e;
    std::tuple<std::unique_ptr<typename MvK<K>::S>...> s;

    template <std::size_t... I>
    bool make(std::vector<long long> const& act, std::vector<long long> const& val, std::index_sequence<I...> /*i*/)
    {
        if (((act[I] < 0) || ...)) { return false; }
        e = {mv_make_e<K>(static_cast<std::size_t>(act[I]), val[I])...};
        s = {mv_make_s<K>(static_cast<std::size_t>(act[I]), val[I])...};
        return ((std::get<I>(e) != nullptr) && ...) && ((std::get<I>(s) != nullptr) && ...);
    }
    static std::string fmt(int calls, int ret, std::vector<std::string> const& items)
    {
        std::string r = "calls=" + std::to_string(calls) + " ret=" + std::to_string(ret) + " ";
        for (auto const& it : items) { r += it + ","; }
        return r + " |";
    }
    template <int... Q, std::size_t... I>
    std::string go(bool idx, MvCats<Q...> /*q*/, std::index_sequence<I...> /*i*/)
    {
        std::vector<std::string> ie, is;
        int ce = 0, cs = 0, re = 0, rs = 0;
        if (idx) {
            re = etl::visit_with_index(MvVisI {&ie, &ce}, as_cat<Q>(*std::get<I>(e))...);
        } else {
            re = etl::visit(MvVis {&ie, &ce}, as_cat<Q>(*std::get<I>(e))...);
        }
        rs = std::visit(MvVis {&is, &cs}, as_cat<Q>(*std::get<I>(s))...);
        if (idx) {
            std::size_t const ix[] = {std::get<I>(s)->index()...};
            for (std::size_t k = 0; k < is.size() && k < sizeof...(I); ++k) { is[k] = std::to_string(ix[k]) + "=" + is[k]; }
        }
        return both(fmt(ce, re, ie), fmt(cs, rs, is));
    }
};

// which (kinds, categories) combinations are compiled (the generator and the Lean driver use the same predicate)
constexpr bool mv_q6(int a, int b) { return a == b || (a == 0 && b == 2) || (a == 3 && b == 1); }
constexpr bool mv_ok2(int k0, int k1, int q0, int q1) { return (k0 == 3 && k1 == 2) || (k0 == 2 && k1 == 3) || mv_q6(q0, q1); }
constexpr bool mv_ok3(int k0, int k1, int k2)
{
    int const z = (k0 == 0 ? 1 : 0) + (k1 == 0 ? 1 : 0) + (k2 == 0 ? 1 : 0);
    auto in13   = [](int k) { return k >= 1 && k <= 3; };
    auto z23    = [](int k) { return k == 0 || k == 2 || k == 3; };
    if (z == 0) { return in13(k0) && in13(k1) && in13(k2); }
    if (z == 1) { return z23(k0) && z23(k1) && z23(k2); }
    return false;
}

template <int K0, bool Many>   // Many: three or four arguments (compiled in translation units of their own)
std::string mv_step(Line const& l)
{
    auto const& ks = l.list("k");
    auto const& as = l.list("act");
    auto const& vs = l.list("v");
    auto const& qs = l.list("q");
    bool const idx = l.i("idx", 0) != 0;
    std::size_t const n = ks.size();
    if (n == 0 || n > 4 || as.size() != n || vs.size() != n || qs.size() != n || ks[0] != K0 || Many != (n > 2)) { return BAD; }
    for (std::size_t j = 0; j < n; ++j) {
        if (ks[j] < 0 || ks[j] > 4 || qs[j] < 0 || qs[j] > 3) { return BAD; }
    }
    std::string r = BAD;
    auto sz       = [](long long x) { return static_cast<std::size_t>(x); };
    if constexpr (!Many) {
    if (n == 1) {
        with_index<4>(sz(qs[0]), [&](auto Q0) {
            MvRun<K0> m;
            if (m.make(as, vs, std::make_index_sequence<1> {})) { r = m.go(idx, MvCats<decltype(Q0)::value> {}, std::make_index_sequence<1> {}); }
        });
    } else if (n == 2) {
        with_index<5>(sz(ks[1]), [&](auto K1) {
            with_index<4>(sz(qs[0]), [&](auto Q0) {
                with_index<4>(sz(qs[1]), [&](auto Q1) {
                    constexpr int k1 = decltype(K1)::value, q0 = decltype(Q0)::value, q1 = decltype(Q1)::value;
                    if constexpr (mv_ok2(K0, k1, q0, q1)) {
                        MvRun<K0, k1> m;
                        if (m.make(as, vs, std::make_index_sequence<2> {})) { r = m.go(idx, MvCats<q0, q1> {}, std::make_index_sequence<2> {}); }
                    }
                });
            });
        });
    }
    } else if constexpr (K0 <= 3) {
    if (n == 3) {
        bool const c0 = qs[0] == 1 && qs[1] == 1 && qs[2] == 1;
        bool const c1 = qs[0] == 2 && qs[1] == 0 && qs[2] == 3;
        if (!c0 && !c1) { return BAD; }
        with_index<4>(sz(ks[1]), [&](auto K1) {
            with_index<4>(sz(ks[2]), [&](auto K2) {
                constexpr int k1 = decltype(K1)::value, k2 = decltype(K2)::value;
                if constexpr (mv_ok3(K0, k1, k2)) {
                    MvRun<K0, k1, k2> m;
                    if (m.make(as, vs, std::make_index_sequence<3> {})) {
                        r = c0 ? m.go(idx, MvCats<1, 1, 1> {}, std::make_index_sequence<3> {})
                               : m.go(idx, MvCats<2, 0, 3> {}, std::make_index_sequence<3> {});
                    }
                }
            });
        });
    } else {
        // four arguments: (3,2,2,3) and (2,2,3,3) only, categories (0,1,2,3)
        if (!(qs[0] == 0 && qs[1] == 1 && qs[2] == 2 && qs[3] == 3)) { return BAD; }
        if constexpr (K0 == 3) {
            if (ks[1] == 2 && ks[2] == 2 && ks[3] == 3) {
                MvRun<3, 2, 2, 3> m;
                if (m.make(as, vs, std::make_index_sequence<4> {})) { r = m.go(idx, MvCats<0, 1, 2, 3> {}, std::make_index_sequence<4> {}); }
            }
        } else if constexpr (K0 == 2) {
            if (ks[1] == 2 && ks[2] == 3 && ks[3] == 3) {
                MvRun<2, 2, 3, 3> m;
                if (m.make(as, vs, std::make_index_sequence<4> {})) { r = m.go(idx, MvCats<0, 1, 2, 3> {}, std::make_index_sequence<4> {}); }
            }
        }
    }
    }
    return r;
}
std::string mv_part0(Line const& l);
std::string mv_part1(Line const& l);
std::string mv_part2(Line const& l);
std::string mv_part3(Line const& l);
std::string mv_part4(Line const& l);
std::string mv_many0(Line const& l);
std::string mv_many1(Line const& l);
std::string mv_many2(Line const& l);
std::string mv_many3(Line const& l);

struct MvCfg final : Cfg {
    std::string step(Line const& l) override
    {
        if (l.op == "state") { return both("ok |", "ok |"); }
        if (l.op != "mvis" || !l.has("k") || !l.has("act") || !l.has("v") || !l.has("q")) { return BAD; }
        auto const& ks = l.list("k");
        if (ks.empty()) { return BAD; }
        bool const many = ks.size() > 2;
        switch (ks[0]) {
        case 0: return many ? mv_many0(l) : mv_part0(l);
        case 1: return many ? mv_many1(l) : mv_part1(l);
        case 2: return many ? mv_many2(l) : mv_part2(l);
        case 3: return many ? mv_many3(l) : mv_part3(l);
        case 4: return many ? BAD : mv_part4(l);
        default: return BAD;
        }
    }
};

// ---------------------------------------------------------------- dispatch
// The configurations are instantiated in 19 groups so that the build can compile them in parallel:
// -DC07_PART=k (k = 0..10) compiles only make_part<k>, k = 11..15 the multi-type visits over one or two arguments whose first argument has kind k - 11,
// k = 16..18 those over three or four arguments; -DC07_PART=-1 compiles main() and links the parts;
// without C07_PART everything is one translation unit.
using Made = std::unique_ptr<Cfg>;
Made make_part0(std::string const& kind, std::string const& alts, std::size_t n);
Made make_part1(std::string const& kind, std::string const& alts, std::size_t n);
Made make_part2(std::string const& kind, std::string const& alts, std::size_t n);
Made make_part3(std::string const& kind, std::string const& alts, std::size_t n);
Made make_part4(std::string const& kind, std::string const& alts, std::size_t n);
Made make_part5(std::string const& kind, std::string const& alts, std::size_t n);
Made make_part6(std::string const& kind, std::string const& alts, std::size_t n);
Made make_part7(std::string const& kind, std::string const& alts, std::size_t n);
Made make_part8(std::string const& kind, std::string const& alts, std::size_t n);
Made make_part9(std::string const& kind, std::string const& alts, std::size_t n);
Made make_part10(std::string const& kind, std::string const& alts, std::size_t n);
std::string sel_step0(std::string const& alts, std::string const& a, bool assign);
std::string sel_step1(std::string const& alts, std::string const& a, bool assign);

#if !defined(C07_PART) || C07_PART == 0
Made make_part0(std::string const& kind, std::string const& alts, std::size_t n)
{
    if (kind == "var" && alts == "if") { return std::make_unique<VarCfg<int, float>>(n); }
    if (kind == "var" && alts == "fi") { return std::make_unique<VarCfg<float, int>>(n); }
    if (kind == "var" && alts == "it") { return std::make_unique<VarCfg<int, Trk>>(n); }
    return nullptr;
}
#endif

#if !defined(C07_PART) || C07_PART == 1
Made make_part1(std::string const& kind, std::string const& alts, std::size_t n)
{
    if (kind == "var" && alts == "ti") { return std::make_unique<VarCfg<Trk, int>>(n); }
    if (kind == "var" && alts == "tif") { return std::make_unique<VarCfg<Trk, int, float>>(n); }
    if (kind == "var" && alts == "fm") { return std::make_unique<VarCfg<float, Mo>>(n); }
    return nullptr;
}
#endif

#if !defined(C07_PART) || C07_PART == 2
Made make_part2(std::string const& kind, std::string const& alts, std::size_t n)
{
    if (kind == "var" && alts == "ift") { return std::make_unique<VarCfg<int, float, Trk>>(n); }
    if (kind == "var" && alts == "tm") { return std::make_unique<VarCfg<Trk, Mo>>(n); }
    if (kind == "var" && alts == "iftm") { return std::make_unique<VarCfg<int, float, Trk, Mo>>(n); }
    return nullptr;
}
#endif

#if !defined(C07_PART) || C07_PART == 3
Made make_part3(std::string const& kind, std::string const& alts, std::size_t n)
{
    if (kind == "var" && alts == "ic") { return std::make_unique<VarCfg<int, KC>>(n); }
    if (kind == "var" && alts == "id") { return std::make_unique<VarCfg<int, KD>>(n); }
    if (kind == "var" && alts == "ia") { return std::make_unique<VarCfg<int, KA>>(n); }
    if (kind == "var" && alts == "ib") { return std::make_unique<VarCfg<int, KB>>(n); }
    return nullptr;
}
#endif

#if !defined(C07_PART) || C07_PART == 4
Made make_part4(std::string const& kind, std::string const& alts, std::size_t n)
{
    if (kind == "var" && alts == "qx") { return std::make_unique<VarCfg<KQ, KX>>(n); }
    if (kind == "var" && alts == "cb") { return std::make_unique<VarCfg<KC, KB>>(n); }
    if (kind == "var" && alts == "ii") { return std::make_unique<VarCfg<int, int>>(n); } // a repeated alternative type
    if (kind == "opt" && alts == "i") { return std::make_unique<OptCfg<int, long>>(n); }
    if (kind == "opt" && alts == "f") { return std::make_unique<OptCfg<float, int>>(n); }
    return nullptr;
}
#endif

#if !defined(C07_PART) || C07_PART == 5
Made make_part5(std::string const& kind, std::string const& alts, std::size_t n)
{
    if (kind == "opt" && alts == "t") { return std::make_unique<OptCfg<Trk, int>>(n); }
    if (kind == "opt" && alts == "m") { return std::make_unique<OptCfg<Mo, int>>(n); }
    if (kind == "opt" && alts == "c") { return std::make_unique<OptCfg<KC, int>>(n); }
    if (kind == "opt" && alts == "d") { return std::make_unique<OptCfg<KD, int>>(n); }
    return nullptr;
}
#endif

#if !defined(C07_PART) || C07_PART == 6
Made make_part6(std::string const& kind, std::string const& alts, std::size_t n)
{
    if (kind == "opt" && alts == "a") { return std::make_unique<OptCfg<KA, int>>(n); }
    if (kind == "opt" && alts == "b") { return std::make_unique<OptCfg<KB, int>>(n); }
    if (kind == "opt" && alts == "x") { return std::make_unique<OptCfg<KX, int>>(n); }
    if (kind == "oref") { return std::make_unique<ORefCfg>(n); }
    return nullptr;
}
#endif

#if !defined(C07_PART) || C07_PART == 7
Made make_part7(std::string const& kind, std::string const& alts, std::size_t n)
{
    if (kind == "exp" && alts == "it") { return std::make_unique<ExpCfg<int, Trk>>(n); }
    if (kind == "exp" && alts == "ti") { return std::make_unique<ExpCfg<Trk, int>>(n); }
    if (kind == "exp" && alts == "if") { return std::make_unique<ExpCfg<int, float>>(n); }
    if (kind == "exp" && alts == "tm") { return std::make_unique<ExpCfg<Trk, Mo>>(n); }
    if (kind == "exp" && alts == "ic") { return std::make_unique<ExpCfg<int, KC>>(n); }
    if (kind == "exp" && alts == "qx") { return std::make_unique<ExpCfg<KQ, KX>>(n); }
    if (kind == "exp" && alts == "db") { return std::make_unique<ExpCfg<KD, KB>>(n); }
    return nullptr;
}
#endif

#if !defined(C07_PART) || C07_PART == 8
Made make_part8(std::string const& kind, std::string const& alts, std::size_t n)
{
    // repeated alternative types: assignment, construction, swap, comparison and visit go by index
    if (kind == "var" && alts == "tit") { return std::make_unique<VarCfg<Trk, int, Trk>>(n); }
    if (kind == "var" && alts == "mm") { return std::make_unique<VarCfg<Mo, Mo>>(n); }
    return nullptr;
}
#endif

#if !defined(C07_PART) || C07_PART == 9
Made make_part9(std::string const& kind, std::string const& alts, std::size_t n)
{
    if (kind == "var" && alts == "qiq") { return std::make_unique<VarCfg<KQ, int, KQ>>(n); }
    return nullptr;
}
// selector probes, first half of the alternative lists
std::string sel_step0(std::string const& alts, std::string const& a, bool assign)
{
    if (alts == "bT") { return sel_list<bool, SelText>(a, assign); }
    if (alts == "Tb") { return sel_list<SelText, bool>(a, assign); }
    if (alts == "ibv") { return sel_list<int, bool, void const*>(a, assign); }
    if (alts == "bi") { return sel_list<bool, int>(a, assign); }
    if (alts == "bN") { return sel_list<bool, SelNum>(a, assign); }
    if (alts == "hld") { return sel_list<char, long, double>(a, assign); }
    if (alts == "fl") { return sel_list<float, long>(a, assign); }
    if (alts == "su") { return sel_list<short, unsigned>(a, assign); }
    if (alts == "pT") { return sel_list<char const*, SelText>(a, assign); }
    return std::string();
}
#endif

#if !defined(C07_PART) || C07_PART == 10
Made make_part10(std::string const& kind, std::string const& /*alts*/, std::size_t /*n*/)
{
    if (kind == "sel") { return std::make_unique<SelCfg>(0); }
    return nullptr;
}
// selector probes, second half
std::string sel_step1(std::string const& alts, std::string const& a, bool assign)
{
    if (alts == "vb") { return sel_list<void const*, bool>(a, assign); }
    if (alts == "TN") { return sel_list<SelText, SelNum>(a, assign); }
    if (alts == "iE") { return sel_list<int, SelSE>(a, assign); }
    if (alts == "el") { return sel_list<SelUE, long>(a, assign); }
    if (alts == "bdT") { return sel_list<bool, double, SelText>(a, assign); }
    if (alts == "b") { return sel_list<bool>(a, assign); }
    if (alts == "bb") { return sel_list<bool, bool>(a, assign); }
    if (alts == "ifd") { return sel_list<int, float, double>(a, assign); }
    if (alts == "lN") { return sel_list<long, SelNum>(a, assign); }
    if (alts == "Pb") { return sel_list<int*, bool>(a, assign); }
    return std::string();
}
std::string SelCfg::step(Line const& l)
{
    if (l.op == "state") { return both("ok |", "ok |"); }
    if (l.op != "sel") { return BAD; }
    auto how = l.str("how");
    if (how != "ctor" && how != "assign") { return BAD; }
    auto r = sel_step0(l.str("alts"), l.str("a"), how == "assign");
    if (r.empty()) { r = sel_step1(l.str("alts"), l.str("a"), how == "assign"); }
    return r.empty() ? BAD : r;
}
#endif

#if !defined(C07_PART) || C07_PART == 11
std::string mv_part0(Line const& l) { return mv_step<0, false>(l); }
#endif
#if !defined(C07_PART) || C07_PART == 12
std::string mv_part1(Line const& l) { return mv_step<1, false>(l); }
#endif
#if !defined(C07_PART) || C07_PART == 13
std::string mv_part2(Line const& l) { return mv_step<2, false>(l); }
#endif
#if !defined(C07_PART) || C07_PART == 14
std::string mv_part3(Line const& l) { return mv_step<3, false>(l); }
#endif
#if !defined(C07_PART) || C07_PART == 15
std::string mv_part4(Line const& l) { return mv_step<4, false>(l); }
#endif

#if !defined(C07_PART) || C07_PART == 16
std::string mv_many0(Line const& l) { return mv_step<0, true>(l); }
std::string mv_many1(Line const& l) { return mv_step<1, true>(l); }
#endif
#if !defined(C07_PART) || C07_PART == 17
std::string mv_many2(Line const& l) { return mv_step<2, true>(l); }
#endif
#if !defined(C07_PART) || C07_PART == 18
std::string mv_many3(Line const& l) { return mv_step<3, true>(l); }
#endif

#if !defined(C07_PART) || C07_PART == -1
static Made make(std::string const& kind, std::string const& alts, std::size_t n)
{
    if (auto p = make_part0(kind, alts, n)) { return p; }
    if (auto p = make_part1(kind, alts, n)) { return p; }
    if (auto p = make_part2(kind, alts, n)) { return p; }
    if (auto p = make_part3(kind, alts, n)) { return p; }
    if (auto p = make_part4(kind, alts, n)) { return p; }
    if (auto p = make_part5(kind, alts, n)) { return p; }
    if (auto p = make_part6(kind, alts, n)) { return p; }
    if (auto p = make_part7(kind, alts, n)) { return p; }
    if (auto p = make_part8(kind, alts, n)) { return p; }
    if (auto p = make_part9(kind, alts, n)) { return p; }
    if (auto p = make_part10(kind, alts, n)) { return p; }
    if (kind == "mv") { return std::make_unique<MvCfg>(); }
    return nullptr;
}

int main(int argc, char** argv)
{
    std::unique_ptr<Cfg> cur;
    return proto::run(argc, argv, [&](Line const& l) -> std::string {
        if (l.op == "new") {
            auto n = static_cast<std::size_t>(l.i("n", 3));
            if (n == 0 || n > 4) { return BAD; }
            cur = make(l.str("kind"), l.has("alts") ? l.str("alts") : std::string(), n);
            if (!cur) { return BAD; }
            Line st;
            st.op = "state";
            auto r = cur->step(st);
            return r == BAD ? both("ok", "ok") : r;
        }
        if (!cur) { return BAD; }
        return cur->step(l);
    });
}
#endif
