// C02 observers that no model can carry (DESIGN §4 C02, §6).
//
//  * allocation guard: while a library call is on the stack (`c02::lib(...)` / `c02::Guard`) every
//    allocation is counted — at the allocator level through the sanitizer's weak malloc hook
//    (covers malloc, calloc, realloc, aligned variants and whatever `operator new` ends in) and at
//    the language level through the replaced global `operator new` family.  The main loop appends
//    ` alloc=<n>` to the implementation column of a line on which the count is not zero, so the
//    line disagrees with the model (which has no heap) and is reported with a replay.
//  * exact-size heap objects: `c02::heap_obj<T>` places one library object on a malloc chunk of
//    exactly sizeof(T) bytes (ASan red zones on both sides), default- or value-initialised, after
//    filling the chunk with a poison byte, so that an indeterminate member shows as a wild value.
//  * `c02::exact<T>`: caller ranges without slack or terminator (an empty range is a past-the-end pointer).
//
// The harness code between `Guard` construction and destruction must be library calls only:
// everything that builds std::string results or runs the std:: oracle stays outside.
#pragma once
#include "proto.hpp"

#include <cstddef>
#include <cstdlib>
#include <cstring>
#include <new>
#include <utility>

namespace c02 {

inline int depth                   = 0; // > 0: a library call is on the stack
inline unsigned long line_allocs   = 0; // allocations seen under the guard on the current line
inline unsigned long total_allocs  = 0;
inline unsigned long guarded_calls = 0; // number of guarded library calls (evidence: "observed, not proved")
inline unsigned long new_calls     = 0; // of which through operator new

struct Guard {
    Guard()
    {
        ++depth;
        ++guarded_calls;
    }
    Guard(Guard const&)                    = delete;
    auto operator=(Guard const&) -> Guard& = delete;
    ~Guard() { --depth; }
};

// run one library call under the guard
template <typename F>
inline decltype(auto) lib(F&& f)
{
    Guard g;
    return std::forward<F>(f)();
}

inline void note_alloc()
{
    if (depth > 0) {
        ++line_allocs;
        ++total_allocs;
    }
}

constexpr unsigned char POISON = 0xAA; // same byte as harness/c01.cpp

// One library object on an exact-size heap chunk.
//   init = false: `::new (p) T;`   (default-initialisation — members without initializer stay poisoned)
//   init = true : `::new (p) T();` (value-initialisation)
template <typename T>
struct heap_obj {
    void* raw = nullptr;
    T* p      = nullptr;
    explicit heap_obj(bool value_init)
    {
        raw = std::malloc(sizeof(T));
        std::memset(raw, POISON, sizeof(T));
        Guard g;
        if (value_init) p = ::new (raw) T();
        else p = ::new (raw) T;
    }
    template <typename... A>
    explicit heap_obj(std::in_place_t, A&&... a)
    {
        raw = std::malloc(sizeof(T));
        std::memset(raw, POISON, sizeof(T));
        Guard g;
        p = ::new (raw) T(std::forward<A>(a)...);
    }
    heap_obj(heap_obj const&)                    = delete;
    auto operator=(heap_obj const&) -> heap_obj& = delete;
    ~heap_obj()
    {
        {
            Guard g;
            p->~T();
        }
        std::free(raw);
    }
    auto operator*() -> T& { return *p; }
    auto operator->() -> T* { return p; }
};

// Exact-size heap copy of a caller range: a malloc chunk of exactly n * sizeof(T) bytes, no terminator, no slack.
// Same interface as proto::heap_buf.  n == 0 needs care: the sanitizer's malloc(0) hands out ONE accessible byte, so
// a write of one unit into an empty range would go unseen (measured: to_chars writing '-' into a zero-length buffer).
// An empty range therefore is the past-the-end pointer of a one-unit chunk: every access lands in the right red zone.
template <typename T>
struct exact {
    T* p = nullptr;
    std::size_t n = 0;
    explicit exact(std::vector<long long> const& v) : exact(v.size())
    {
        for (std::size_t k = 0; k < n; ++k) p[k] = static_cast<T>(v[k]);
    }
    explicit exact(std::size_t count) : n(count)
    {
        _base = static_cast<T*>(std::malloc((n == 0 ? 1 : n) * sizeof(T)));
        p     = n == 0 ? _base + 1 : _base;
    }
    exact(exact const&)                    = delete;
    auto operator=(exact const&) -> exact& = delete;
    ~exact() { std::free(_base); }
    std::vector<long long> to_list() const
    {
        std::vector<long long> r;
        for (std::size_t k = 0; k < n; ++k) r.push_back(static_cast<long long>(p[k]));
        return r;
    }

private:
    T* _base = nullptr;
};

// statistics for the evidence file: appended to $C02_STATS at exit (one line per harness process)
inline void write_stats()
{
    char const* path = std::getenv("C02_STATS");
    if (path == nullptr) return;
    if (std::FILE* f = std::fopen(path, "a")) {
        std::fprintf(f, "guarded_calls=%lu allocs=%lu new_calls=%lu\n", guarded_calls, total_allocs, new_calls);
        std::fclose(f);
    }
}

// wraps a per-line step function: resets the per-line counter, appends ` alloc=<n>` to the impl column
template <typename F>
inline auto observed(F step)
{
    return [step](proto::Line const& l) -> std::string {
        line_allocs   = 0;
        depth         = 0;
        std::string o = step(l);
        if (line_allocs != 0) {
            auto tab = o.find('\t');
            std::string tag = " alloc=" + std::to_string(line_allocs);
            if (tab == std::string::npos) o += tag;
            else o.insert(tab, tag);
        }
        return o;
    };
}

} // namespace c02

#ifndef C02_GUARD_NO_DEFS
// ---- allocator-level hook (weak symbol of libasan/libsanitizer, called for every allocation)
extern "C" void __sanitizer_malloc_hook(const volatile void*, std::size_t) { c02::note_alloc(); }

// ---- language-level: replaced global allocation functions
#ifndef C02_NO_NEW_REPLACEMENT
inline void* c02_new(std::size_t n, std::size_t al)
{
    if (c02::depth > 0) ++c02::new_calls;
    void* p = al > alignof(std::max_align_t) ? std::aligned_alloc(al, (n + al - 1) / al * al) : std::malloc(n ? n : 1);
    if (p == nullptr) std::abort();
    return p;
}
void* operator new(std::size_t n) { return c02_new(n, 0); }
void* operator new[](std::size_t n) { return c02_new(n, 0); }
void* operator new(std::size_t n, std::align_val_t a) { return c02_new(n, static_cast<std::size_t>(a)); }
void* operator new[](std::size_t n, std::align_val_t a) { return c02_new(n, static_cast<std::size_t>(a)); }
void* operator new(std::size_t n, std::nothrow_t const&) noexcept { return c02_new(n, 0); }
void* operator new[](std::size_t n, std::nothrow_t const&) noexcept { return c02_new(n, 0); }
void operator delete(void* p) noexcept { std::free(p); }
void operator delete[](void* p) noexcept { std::free(p); }
void operator delete(void* p, std::size_t) noexcept { std::free(p); }
void operator delete[](void* p, std::size_t) noexcept { std::free(p); }
void operator delete(void* p, std::align_val_t) noexcept { std::free(p); }
void operator delete[](void* p, std::align_val_t) noexcept { std::free(p); }
void operator delete(void* p, std::size_t, std::align_val_t) noexcept { std::free(p); }
void operator delete[](void* p, std::size_t, std::align_val_t) noexcept { std::free(p); }
void operator delete(void* p, std::nothrow_t const&) noexcept { std::free(p); }
void operator delete[](void* p, std::nothrow_t const&) noexcept { std::free(p); }
#endif
#endif // C02_GUARD_NO_DEFS
