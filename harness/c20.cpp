// C20 harness: etl::pair / etl::tuple / etl::invoke / call wrappers against std:: on the same case
// lines.  Protocol: see lean/Tetl/C20/Driver.lean.
// The file is compiled as several translation units in parallel (checks/props/c20.py: -DC20_PART=k compiles the entry points of
// group k only, -DC20_PART=-1 compiles main() and links the groups); without C20_PART it is one translation unit.
#define TETL_ENABLE_CUSTOM_ASSERT_HANDLER 1
#ifndef C20_HAS_IFN_MEMPTR
    #define C20_HAS_IFN_MEMPTR 1 // set by checks/props/c20.py from a compile probe of the tree under test
#endif
#ifndef C20_HAS_BF_MEMPTR_RV
    #define C20_HAS_BF_MEMPTR_RV 1 // likewise: bind_front(pointer to member, object) called through an rvalue wrapper compiles
#endif
#ifndef C20_HAS_BF_MEMPTR_LV
    #define C20_HAS_BF_MEMPTR_LV 1 // likewise: bind_front(&S::f /* & qualified */, object) called through an lvalue wrapper compiles
#endif
#ifndef C20_HAS_TCAT0
    #define C20_HAS_TCAT0 1 // likewise: etl::tuple_cat() with no argument compiles
#endif
#ifndef C20_HAS_MFT_NARROW
    #define C20_HAS_MFT_NARROW 1 // likewise: make_from_tuple<T>(t) compiles when T's parameters narrow the elements
#endif
#ifndef C20_PART
    #define C20_PART 99
#endif
#define C20_IN(k) (C20_PART == 99 || C20_PART == (k))
#include "proto.hpp"

#include <etl/functional.hpp>
#include <etl/tuple.hpp>
#include <etl/utility.hpp>

#include <array>
#include <functional>
#include <limits>
#include <memory>
#include <optional>
#include <set>
#include <tuple>
#include <type_traits>
#include <utility>

using proto::Line;

// etl::raise -> etl::assert_handler -> C++ exception the harness catches
struct harness_raise {
    char const* what;
};
namespace etl {
template <typename Assertion>
[[noreturn]] auto assert_handler(Assertion const& msg) -> void
{
    throw harness_raise{msg.expression};
}
} // namespace etl

// ---------------------------------------------------------------- instrumentation
inline int g_copies = 0; // counted copy constructions / copy assignments

struct Trk { // copyable (counted) and movable (the source reads -1 afterwards)
    int v;
    Trk(int x) : v(x) { }
    Trk(Trk const& o) : v(o.v) { ++g_copies; }
    Trk(Trk&& o) noexcept : v(o.v) { o.v = -1; }
    Trk& operator=(Trk const& o)
    {
        v = o.v;
        ++g_copies;
        return *this;
    }
    Trk& operator=(Trk&& o) noexcept
    {
        int t = o.v;
        o.v   = -1;
        v     = t;
        return *this;
    }
};
struct Mo { // move-only
    int v;
    Mo(int x) : v(x) { }
    Mo(Mo const&)            = delete;
    Mo& operator=(Mo const&) = delete;
    Mo(Mo&& o) noexcept : v(o.v) { o.v = -1; }
    Mo& operator=(Mo&& o) noexcept
    {
        int t = o.v;
        o.v   = -1;
        v     = t;
        return *this;
    }
};
struct Co { // copy-only: no move operations are declared, rvalues are copied
    int v;
    Co(int x) : v(x) { }
    Co(Co const& o) : v(o.v) { ++g_copies; }
    Co& operator=(Co const& o)
    {
        v = o.v;
        ++g_copies;
        return *this;
    }
};
// key + payload: ordered by the key alone, equal when key and payload are; deliberately NO operator<=> (std::pair then uses the
// three-way comparison synthesised from operator<).  The equivalence of < is coarser than ==: KP(2) and KP(3) are equivalent, not
// equal - a lexicographic comparison that decides the tie on `first` by == instead of "neither is less" shows only here.
struct KP {
    int key;
    int tag;
    KP(int v) : key(v >> 1), tag(v & 1) { }
    friend bool operator<(KP const& l, KP const& r) { return l.key < r.key; }
    friend bool operator==(KP const& l, KP const& r) { return l.key == r.key && l.tag == r.tag; }
};
inline int val(int x) { return x; }
inline int val(Trk const& x) { return x.v; }
inline int val(Mo const& x) { return x.v; }
inline int val(Co const& x) { return x.v; }
// an argument that arrives as a reference_wrapper: the value is the referent's, the category letter is upper case
template <typename T> struct is_refw : std::false_type { };
template <typename T> struct is_refw<std::reference_wrapper<T>> : std::true_type { };
template <typename T> struct is_refw<etl::reference_wrapper<T>> : std::true_type { };
template <typename T> static int val(std::reference_wrapper<T> const& w) { return val(w.get()); }
template <typename T> static int val(etl::reference_wrapper<T> const& w) { return val(w.get()); }

// element kind K -> element type, and the value type the element is made from / bound to
template <int K>
struct kind;
template <> struct kind<0> { using elem = int;       using src = int; };
template <> struct kind<1> { using elem = Trk;       using src = Trk; };
template <> struct kind<2> { using elem = Mo;        using src = Mo; };
template <> struct kind<3> { using elem = Co;        using src = Co; };
template <> struct kind<4> { using elem = int&;      using src = int; };
template <> struct kind<5> { using elem = int const; using src = int; };
// pair lines only (the tuple and tuple_cat kind lists do not contain them): references to the instrumented class.  Construction
// binds (no copy, nothing moved from); assignment assigns through to the referent; forward<Trk&>(p.first) is an lvalue.
template <> struct kind<6> { using elem = Trk&;       using src = Trk; };
template <> struct kind<7> { using elem = Trk const&; using src = Trk; };
template <int K> using elem_t = typename kind<K>::elem;
template <int K> using src_t  = typename kind<K>::src;
template <int K> inline constexpr bool is_refk = std::is_reference_v<elem_t<K>>; // 4, 6, 7

// initialiser of an element of kind K: the referent for a reference kind, a prvalue otherwise
template <int K>
inline auto arg(src_t<K>& referent, int v) -> std::conditional_t<is_refk<K>, src_t<K>&, src_t<K>>
{
    if constexpr (is_refk<K>) {
        (void)v;
        return referent;
    } else {
        (void)referent;
        return src_t<K>(v);
    }
}
// "rvalue source" of kind K: a reference element is bound to the lvalue referent
template <int K, typename S>
inline auto rv(S& x) -> std::conditional_t<is_refk<K>, S&, S&&>
{
    if constexpr (is_refk<K>) { return x; } else { return std::move(x); }
}
// what the result of get<I>(rvalue pair) initialises: an object of the class for a value kind (so that a move is observed);
// for a reference kind get<I>(move(p)) is the lvalue referent itself, and a reference is bound to it (nothing moved, no copy)
template <int K> using hold_t = std::conditional_t<is_refk<K>, elem_t<K>, src_t<K>>;

// ---------------------------------------------------------------- call log
struct Entry {
    int tid;
    char self;
    std::vector<std::pair<char, long long>> args;
};
inline std::vector<Entry> g_log;

inline std::string fmt_log()
{
    if (g_log.empty()) return "-";
    std::string r;
    for (std::size_t i = 0; i < g_log.size(); ++i) {
        if (i) r += ";";
        r += std::to_string(g_log[i].tid) + "/" + g_log[i].self + "/";
        for (std::size_t k = 0; k < g_log[i].args.size(); ++k) {
            if (k) r += ",";
            r += g_log[i].args[k].first + std::to_string(g_log[i].args[k].second);
        }
    }
    return r;
}
inline long long result_of(int tid, std::vector<std::pair<char, long long>> const& a)
{
    long long r = tid;
    for (auto const& p : a) r = r * 10 + p.second;
    return r;
}
template <typename A>
constexpr char cat_of()
{
    using R = std::remove_reference_t<A>;
    constexpr bool w = is_refw<std::remove_cv_t<R>>::value;
    if constexpr (std::is_lvalue_reference_v<A>) { return std::is_const_v<R> ? (w ? 'C' : 'c') : (w ? 'L' : 'l'); }
    else { return std::is_const_v<R> ? (w ? 'K' : 'k') : (w ? 'R' : 'r'); }
}
template <typename... A>
inline long long record(int tid, char self, A&&... a)
{
    Entry e{tid, self, {{cat_of<A>(), static_cast<long long>(val(a))}...}};
    g_log.push_back(e);
    return result_of(tid, e.args);
}
inline long long record_v(int tid, char self, std::vector<std::pair<char, long long>> args)
{
    g_log.push_back(Entry{tid, self, args});
    return result_of(tid, args);
}

// function object with the four ref-qualified call operators and forwarding parameters
struct Fob {
    int tid;
    template <typename... A> long long operator()(A&&... a) & { return record(tid, 'l', std::forward<A>(a)...); }
    template <typename... A> long long operator()(A&&... a) const& { return record(tid, 'c', std::forward<A>(a)...); }
    template <typename... A> long long operator()(A&&... a) && { return record(tid, 'r', std::forward<A>(a)...); }
    template <typename... A> long long operator()(A&&... a) const&& { return record(tid, 'k', std::forward<A>(a)...); }
};
struct Pred {
    int tid;
    bool p;
    template <typename... A> bool operator()(A&&... a) & { record(tid, 'l', std::forward<A>(a)...); return p; }
    template <typename... A> bool operator()(A&&... a) const& { record(tid, 'c', std::forward<A>(a)...); return p; }
    template <typename... A> bool operator()(A&&... a) && { record(tid, 'r', std::forward<A>(a)...); return p; }
    template <typename... A> bool operator()(A&&... a) const&& { record(tid, 'k', std::forward<A>(a)...); return p; }
};

// apply a value category chosen at run time
template <typename T, typename F>
inline auto with_cat(long long c, T& o, F&& f)
{
    switch (c) {
    case 0: return f(o);
    case 1: return f(std::as_const(o));
    case 2: return f(std::move(o));
    default: return f(std::move(std::as_const(o)));
    }
}
#define FWD(x) std::forward<decltype(x)>(x)

// ---------------------------------------------------------------- the two libraries behind one interface
struct E { // tetl
    static constexpr bool is_etl = true;
    template <typename A, typename B> using pair = etl::pair<A, B>;
    template <typename... T> using tuple         = etl::tuple<T...>;
    template <typename T> using refw              = etl::reference_wrapper<T>;
    template <std::size_t I, typename T> static decltype(auto) get(T&& t) { return etl::get<I>(std::forward<T>(t)); }
    template <typename U, typename T> static decltype(auto) get_t(T&& t) { return etl::get<U>(std::forward<T>(t)); }
    template <typename... A> static auto make_pair(A&&... a) { return etl::make_pair(std::forward<A>(a)...); }
    template <typename... A> static auto make_tuple(A&&... a) { return etl::make_tuple(std::forward<A>(a)...); }
    template <typename... A> static auto forward_as_tuple(A&&... a) { return etl::forward_as_tuple(std::forward<A>(a)...); }
    template <typename... A> static auto tie(A&... a) { return etl::tie(a...); }
    template <typename... A> static auto tuple_cat(A&&... a) { return etl::tuple_cat(std::forward<A>(a)...); }
    template <typename F, typename T> static decltype(auto) apply(F&& f, T&& t) { return etl::apply(std::forward<F>(f), std::forward<T>(t)); }
    template <typename R, typename T> static auto make_from_tuple(T&& t) { return etl::make_from_tuple<R>(std::forward<T>(t)); }
    template <typename F, typename... A> static decltype(auto) invoke(F&& f, A&&... a) { return etl::invoke(std::forward<F>(f), std::forward<A>(a)...); }
    template <typename T> static auto ref(T& t) { return etl::ref(t); }
    template <typename T> static auto cref(T const& t) { return etl::cref(t); }
    template <typename F, typename... A> static auto bind_front(F&& f, A&&... a) { return etl::bind_front(std::forward<F>(f), std::forward<A>(a)...); }
    template <typename F> static auto not_fn(F&& f) { return etl::not_fn(std::forward<F>(f)); }
    template <typename T> static void swap(T& a, T& b) { using etl::swap; swap(a, b); }
};
struct S { // libstdc++
    static constexpr bool is_etl = false;
    template <typename A, typename B> using pair = std::pair<A, B>;
    template <typename... T> using tuple         = std::tuple<T...>;
    template <typename T> using refw              = std::reference_wrapper<T>;
    template <std::size_t I, typename T> static decltype(auto) get(T&& t) { return std::get<I>(std::forward<T>(t)); }
    template <typename U, typename T> static decltype(auto) get_t(T&& t) { return std::get<U>(std::forward<T>(t)); }
    template <typename... A> static auto make_pair(A&&... a) { return std::make_pair(std::forward<A>(a)...); }
    template <typename... A> static auto make_tuple(A&&... a) { return std::make_tuple(std::forward<A>(a)...); }
    template <typename... A> static auto forward_as_tuple(A&&... a) { return std::forward_as_tuple(std::forward<A>(a)...); }
    template <typename... A> static auto tie(A&... a) { return std::tie(a...); }
    template <typename... A> static auto tuple_cat(A&&... a) { return std::tuple_cat(std::forward<A>(a)...); }
    template <typename F, typename T> static decltype(auto) apply(F&& f, T&& t) { return std::apply(std::forward<F>(f), std::forward<T>(t)); }
    template <typename R, typename T> static auto make_from_tuple(T&& t) { return std::make_from_tuple<R>(std::forward<T>(t)); }
    template <typename F, typename... A> static decltype(auto) invoke(F&& f, A&&... a) { return std::invoke(std::forward<F>(f), std::forward<A>(a)...); }
    template <typename T> static auto ref(T& t) { return std::ref(t); }
    template <typename T> static auto cref(T const& t) { return std::cref(t); }
    template <typename F, typename... A> static auto bind_front(F&& f, A&&... a) { return std::bind_front(std::forward<F>(f), std::forward<A>(a)...); }
    template <typename F> static auto not_fn(F&& f) { return std::not_fn(std::forward<F>(f)); }
    template <typename T> static void swap(T& a, T& b) { using std::swap; swap(a, b); }
};

inline std::string fmt_vals(std::initializer_list<int> v)
{
    std::vector<long long> w(v.begin(), v.end());
    return proto::fmt_list(w);
}
inline std::string res(std::string r, std::string a, std::string b)
{
    return "r=" + r + " a=" + a + " b=" + b + " cp=" + std::to_string(g_copies);
}


// ---------------------------------------------------------------- entry points of the translation units
namespace part {
std::string pair_e(Line const& l);
std::string pair_s(Line const& l);
std::string pairx_e(Line const& l);   // pair lines with an element kind 6 / 7, and the mixed-kind ops xassign / xmassign
std::string pairx_s(Line const& l);
std::string tuple_e0(Line const& l);
std::string tuple_e1(Line const& l);
std::string tuple_e2(Line const& l);
std::string tuple_e3(Line const& l);
std::string tuple_s0(Line const& l);
std::string tuple_s1(Line const& l);
std::string tuple_s2(Line const& l);
std::string tuple_s3(Line const& l);
std::string tcat_e0(Line const& l);
std::string tcat_e1(Line const& l);
std::string tcat_e2(Line const& l);
std::string tcat_s0(Line const& l);
std::string tcat_s1(Line const& l);
std::string tcat_s2(Line const& l);
std::string calls_e(Line const& l);   // invoke, fref, ifn2, rw, nf, nfc, typeq
std::string calls_s(Line const& l);
std::string bf_e0(Line const& l);
std::string bf_e1(Line const& l);
std::string bf_s0(Line const& l);
std::string bf_s1(Line const& l);
std::string ifn_new();
std::string ifn_step(Line const& l);
std::string mft_line(Line const& l);  // make_from_tuple into target types that tell T(..) from T{..}
} // namespace part

// ---------------------------------------------------------------- targets of invoke: functions, a class with ref-qualified members
inline long long fn1(int a, int b) { return record_v(1, '-', {{'v', a}, {'v', b}}); }
inline long long fn2(int a, int b) { return record_v(2, '-', {{'v', a}, {'v', b}}); }

struct Sc {
    int dm = 0;
    long long q(int x) & { return record_v(5, 'l', {{'v', x}}); }
    long long q(int x) const& { return record_v(5, 'c', {{'v', x}}); }
    long long q(int x) && { return record_v(5, 'r', {{'v', x}}); }
    long long q(int x) const&& { return record_v(5, 'k', {{'v', x}}); }
    bool pf = false; // what the member predicate returns
    bool pq(int x) & { record_v(11, 'l', {{'v', x}}); return pf; }
    bool pq(int x) const& { record_v(11, 'c', {{'v', x}}); return pf; }
    bool pq(int x) && { record_v(11, 'r', {{'v', x}}); return pf; }
    bool pq(int x) const&& { record_v(11, 'k', {{'v', x}}); return pf; }
};
using ppf_l = bool (Sc::*)(int) &;
using ppf_c = bool (Sc::*)(int) const&;
using ppf_r = bool (Sc::*)(int) &&;
using ppf_k = bool (Sc::*)(int) const&&;
struct Dc : Sc { int extra = 1; };

using pmf_l = long long (Sc::*)(int) &;
using pmf_c = long long (Sc::*)(int) const&;
using pmf_r = long long (Sc::*)(int) &&;
using pmf_k = long long (Sc::*)(int) const&&;

// call g(pmf, object expression) with the pmf whose qualifier matches the expression's category
template <typename Obj, typename G>
inline long long with_obj(long long c, Obj& o, G&& g)
{
    switch (c) {
    case 0: return g(static_cast<pmf_l>(&Sc::q), o);
    case 1: return g(static_cast<pmf_c>(&Sc::q), std::as_const(o));
    case 2: return g(static_cast<pmf_r>(&Sc::q), std::move(o));
    default: return g(static_cast<pmf_k>(&Sc::q), std::move(std::as_const(o)));
    }
}

// ---------------------------------------------------------------- pair
template <typename L, int K1, int K2>
struct POp {
    using S1 = src_t<K1>;
    using S2 = src_t<K2>;
    using P  = typename L::template pair<elem_t<K1>, elem_t<K2>>;
    S1 x;
    S2 y;
    P p;
    POp(long long a, long long b) : x(int(a)), y(int(b)), p(arg<K1>(x, int(a)), arg<K2>(y, int(b))) { }
    std::string vals() const { return fmt_vals({val(p.first), val(p.second)}); }
};
template <typename Pr>
inline std::string pvals(Pr const& p) { return fmt_vals({val(p.first), val(p.second)}); }

template <typename L>
inline std::string pair_cmp(std::string const& e, std::vector<long long> const& a, std::vector<long long> const& b)
{
    auto bits = [](auto const& p, auto const& q) {
        std::string r;
        r += p == q ? '1' : '0';
        r += p != q ? '1' : '0';
        r += p < q ? '1' : '0';
        r += p <= q ? '1' : '0';
        r += p > q ? '1' : '0';
        r += p >= q ? '1' : '0';
        return r;
    };
    if (e == "int") {
        typename L::template pair<int, int> p(static_cast<int>(a[0]), static_cast<int>(a[1])), q(static_cast<int>(b[0]), static_cast<int>(b[1]));
        return bits(p, q);
    }
    if (e == "kp") {
        typename L::template pair<KP, KP> p{KP(int(a[0])), KP(int(a[1]))}, q{KP(int(b[0])), KP(int(b[1]))};
        return bits(p, q);
    }
    if (e == "kpi") {
        typename L::template pair<KP, int> p{KP(int(a[0])), int(a[1])}, q{KP(int(b[0])), int(b[1])};
        return bits(p, q);
    }
    if (e == "ikp") {
        typename L::template pair<int, KP> p{int(a[0]), KP(int(a[1]))}, q{int(b[0]), KP(int(b[1]))};
        return bits(p, q);
    }
    if (e != "dbl") return "bad-op";
    auto d = [](long long v) { return v == 9 ? std::numeric_limits<double>::quiet_NaN() : double(v); };
    typename L::template pair<double, double> p(d(a[0]), d(a[1])), q(d(b[0]), d(b[1]));
    return bits(p, q);
}

template <typename L, int K1, int K2>
inline std::string pair_op(std::string const& op, std::vector<long long> const& a, std::vector<long long> const& b)
{
    using O  = POp<L, K1, K2>;
    using P  = typename O::P;
    using S1 = src_t<K1>;
    using S2 = src_t<K2>;
    constexpr bool value1 = K1 == 0 || K1 == 1 || K1 == 3, value2 = K2 == 0 || K2 == 1 || K2 == 3;
    auto const na = std::string("n/a");
    if (op == "ctor") {
        if constexpr (std::is_constructible_v<P, S1&, S2&>) {
            S1 x(static_cast<int>(a[0])); S2 y(static_cast<int>(a[1]));
            g_copies = 0;
            P r(x, y);
            return res(pvals(r), fmt_vals({val(x), val(y)}), proto::fmt_list(b));
        } else return na;
    }
    if (op == "dflt") {
        constexpr bool ok = (K1 == 0 || K1 == 5) && (K2 == 0 || K2 == 5);
        static_assert(std::is_default_constructible_v<std::pair<elem_t<K1>, elem_t<K2>>> == ok);
        static_assert(std::is_default_constructible_v<P> == ok);
        if constexpr (ok) {
            g_copies = 0;
            P r{};
            return res(pvals(r), proto::fmt_list(a), proto::fmt_list(b));
        } else return na;
    }
    if (op == "ctorr") {
        S1 x(static_cast<int>(a[0])); S2 y(static_cast<int>(a[1]));
        g_copies = 0;
        P r(rv<K1>(x), rv<K2>(y));
        return res(pvals(r), fmt_vals({val(x), val(y)}), proto::fmt_list(b));
    }
    if (op == "copy") {
        if constexpr (std::is_copy_constructible_v<P>) {
            O o(a[0], a[1]);
            g_copies = 0;
            P r(o.p);
            return res(pvals(r), o.vals(), proto::fmt_list(b));
        } else return na;
    }
    if (op == "move") {
        O o(a[0], a[1]);
        g_copies = 0;
        P r(std::move(o.p));
        return res(pvals(r), o.vals(), proto::fmt_list(b));
    }
    if (op == "assign") {
        if constexpr (std::is_copy_assignable_v<P>) {
            O o(a[0], a[1]), q(b[0], b[1]);
            g_copies = 0;
            P& ret = (o.p = q.p);
            if (&ret != &o.p) return "!return";
            return res("-", o.vals(), q.vals());
        } else return na;
    }
    if (op == "massign") {
        if constexpr (std::is_move_assignable_v<P>) {
            O o(a[0], a[1]), q(b[0], b[1]);
            g_copies = 0;
            P& ret = (o.p = std::move(q.p));
            if (&ret != &o.p) return "!return";
            return res("-", o.vals(), q.vals());
        } else return na;
    }
    if (op == "swap" || op == "fswap" || op == "selfswap") {
        // (etl::is_nothrow_swappable<T const> is a hard error, so std::is_swappable_v cannot be asked about etl::pair<.., T const>)
        constexpr bool can_swap = K1 != 5 && K2 != 5 && K1 != 7 && K2 != 7;
        static_assert(std::is_swappable_v<std::pair<elem_t<K1>, elem_t<K2>>> == can_swap);
        if constexpr (can_swap) {
            O o(a[0], a[1]), q(b[0], b[1]);
            g_copies = 0;
            if (op == "swap") o.p.swap(q.p);
            else if (op == "fswap") L::swap(o.p, q.p);
            else o.p.swap(o.p);
            return res("-", o.vals(), q.vals());
        } else return na;
    }
    if (op == "make" || op == "maker") {
        constexpr bool ok = (value1 || K1 == 2) && (value2 || K2 == 2);
        if constexpr (ok) {
            S1 x(static_cast<int>(a[0])); S2 y(static_cast<int>(a[1]));
            g_copies = 0;
            if (op == "make") {
                if constexpr (value1 && value2) {
                    auto r = L::make_pair(x, y);
                    static_assert(std::is_same_v<decltype(r), typename L::template pair<S1, S2>>);
                    return res(pvals(r), fmt_vals({val(x), val(y)}), proto::fmt_list(b));
                } else return na;
            }
            auto r = L::make_pair(std::move(x), std::move(y));
            static_assert(std::is_same_v<decltype(r), typename L::template pair<S1, S2>>);
            return res(pvals(r), fmt_vals({val(x), val(y)}), proto::fmt_list(b));
        } else return na;
    }
    if (op == "get" || op == "getc" || op == "sb") {
        O o(a[0], a[1]);
        g_copies = 0;
        std::string r;
        if (op == "get") r = fmt_vals({val(L::template get<0>(o.p)), val(L::template get<1>(o.p))});
        else if (op == "getc") r = fmt_vals({val(L::template get<0>(std::as_const(o.p))), val(L::template get<1>(std::as_const(o.p)))});
        else {
            auto& [f, s] = o.p;
            r = (&f == &o.p.first && &s == &o.p.second) ? fmt_vals({val(f), val(s)}) : "!alias";
        }
        return res(r, o.vals(), proto::fmt_list(b));
    }
    if (op == "getr") {
        O o(a[0], a[1]);
        g_copies = 0;
        hold_t<K1> v0(L::template get<0>(std::move(o.p)));
        hold_t<K2> v1(L::template get<1>(std::move(o.p)));
        return res(fmt_vals({val(v0), val(v1)}), o.vals(), proto::fmt_list(b));
    }
    if (op == "getcr") {
        if constexpr (K1 != 2 && K2 != 2) {
            O o(a[0], a[1]);
            g_copies = 0;
            hold_t<K1> v0(L::template get<0>(std::move(std::as_const(o.p))));
            hold_t<K2> v1(L::template get<1>(std::move(std::as_const(o.p))));
            return res(fmt_vals({val(v0), val(v1)}), o.vals(), proto::fmt_list(b));
        } else return na;
    }
    if (op == "gett" || op == "gettr") {
        // get<T>: only when the two element types differ
        if constexpr (!std::is_same_v<elem_t<K1>, elem_t<K2>>) {
            O o(a[0], a[1]);
            g_copies = 0;
            if (op == "gett") {
                bool same = &L::template get_t<elem_t<K1>>(o.p) == &o.p.first && &L::template get_t<elem_t<K2>>(o.p) == &o.p.second
                         && &L::template get_t<elem_t<K1>>(std::as_const(o.p)) == &o.p.first && &L::template get_t<elem_t<K2>>(std::as_const(o.p)) == &o.p.second;
                return res(same ? fmt_vals({val(L::template get_t<elem_t<K1>>(o.p)), val(L::template get_t<elem_t<K2>>(o.p))}) : "!alias", o.vals(), proto::fmt_list(b));
            }
            // (libstdc++ 12: std::get<T&>(pair<T&, U>&&) does not compile - it returns std::move(p.first) - so reference kinds are left out)
            if constexpr (!is_refk<K1> && !is_refk<K2>) {
                S1 v0(L::template get_t<elem_t<K1>>(std::move(o.p)));
                S2 v1(L::template get_t<elem_t<K2>>(std::move(o.p)));
                return res(fmt_vals({val(v0), val(v1)}), o.vals(), proto::fmt_list(b));
            } else return na;
        } else return na;
    }
    if constexpr (K1 == 0 && K2 == 0) {
        using Sm = typename L::template pair<short, short>;
        using Lg = typename L::template pair<long, long>;
        g_copies = 0;
        if (op == "conv") { P s(static_cast<int>(a[0]), static_cast<int>(a[1])); Lg r(s); return res(pvals(r), pvals(s), proto::fmt_list(b)); }
        if (op == "convr") { P s(static_cast<int>(a[0]), static_cast<int>(a[1])); Lg r(std::move(s)); return res(pvals(r), pvals(s), proto::fmt_list(b)); }
        if (op == "cassign") { P o(static_cast<int>(a[0]), static_cast<int>(a[1])); Sm q(static_cast<short>(b[0]), static_cast<short>(b[1])); o = q; return res("-", pvals(o), pvals(q)); }
        if (op == "cmassign") { P o(static_cast<int>(a[0]), static_cast<int>(a[1])); Sm q(static_cast<short>(b[0]), static_cast<short>(b[1])); o = std::move(q); return res("-", pvals(o), pvals(q)); }
    } else {
        if (op == "conv" || op == "convr" || op == "cassign" || op == "cmassign") return na;
    }
    return "bad-op";
}

// converting assignment between pairs of different element kinds: pair<KD1,KD2> a; pair<KS1,KS2> b;
// xassign: a = as_const(b) (operator=(pair<U1,U2> const&)); xmassign: a = move(b) (operator=(pair<U1,U2>&&))
template <typename L, int KD1, int KD2, int KS1, int KS2>
inline std::string pair_xop(std::string const& op, std::vector<long long> const& a, std::vector<long long> const& b)
{
    using OD = POp<L, KD1, KD2>;
    using OS = POp<L, KS1, KS2>;
    using PD = typename OD::P;
    using PS = typename OS::P;
    using StdD = std::pair<elem_t<KD1>, elem_t<KD2>>;
    using StdS = std::pair<elem_t<KS1>, elem_t<KS2>>;
    auto const na = std::string("n/a");
    if (op == "xassign") {
        static_assert(std::is_assignable_v<PD&, PS const&> == std::is_assignable_v<StdD&, StdS const&>);
        if constexpr (std::is_assignable_v<PD&, PS const&>) {
            OD o(a[0], a[1]); OS q(b[0], b[1]);
            g_copies = 0;
            PD& ret = (o.p = std::as_const(q.p));
            if (&ret != &o.p) return "!return";
            return res("-", o.vals(), q.vals());
        } else return na;
    }
    if (op == "xmassign") {
        static_assert(std::is_assignable_v<PD&, PS&&> == std::is_assignable_v<StdD&, StdS&&>);
        if constexpr (std::is_assignable_v<PD&, PS&&>) {
            OD o(a[0], a[1]); OS q(b[0], b[1]);
            g_copies = 0;
            PD& ret = (o.p = std::move(q.p));
            if (&ret != &o.p) return "!return";
            return res("-", o.vals(), q.vals());
        } else return na;
    }
    return "bad-op";
}
// the instantiated (destination kinds, source kinds) of xassign / xmassign: the list XKINDS of checks/props/c20.py
template <typename L>
inline std::string pair_xline(std::string const& op, std::vector<long long> const& t, std::vector<long long> const& u,
                              std::vector<long long> const& a, std::vector<long long> const& b)
{
    if (t.size() != 2 || u.size() != 2) return "bad-op";
    long long const key = t[0] * 1000 + t[1] * 100 + u[0] * 10 + u[1];
    switch (key) {
    case 1166: return pair_xop<L, 1, 1, 6, 6>(op, a, b); // pair<Trk,Trk> = pair<Trk&,Trk&>
    case 6611: return pair_xop<L, 6, 6, 1, 1>(op, a, b); // pair<Trk&,Trk&> = pair<Trk,Trk>
    case 1177: return pair_xop<L, 1, 1, 7, 7>(op, a, b); // pair<Trk,Trk> = pair<Trk const&,Trk const&>
    case 6677: return pair_xop<L, 6, 6, 7, 7>(op, a, b); // pair<Trk&,Trk&> = pair<Trk const&,Trk const&>
    case 6116: return pair_xop<L, 6, 1, 1, 6>(op, a, b); // pair<Trk&,Trk> = pair<Trk,Trk&>
    case 1666: return pair_xop<L, 1, 6, 6, 6>(op, a, b); // pair<Trk,Trk&> = pair<Trk&,Trk&>  (one element kind in common)
    case 1617: return pair_xop<L, 1, 6, 1, 7>(op, a, b); // pair<Trk,Trk&> = pair<Trk,Trk const&>
    case 440:  return pair_xop<L, 0, 4, 4, 0>(op, a, b); // pair<int,int&> = pair<int&,int>
    case 7111: return pair_xop<L, 7, 1, 1, 1>(op, a, b); // pair<Trk const&,Trk> = ...: not assignable (n/a)
    case 1116: return pair_xop<L, 1, 1, 1, 6>(op, a, b); // pair<Trk,Trk> = pair<Trk,Trk&>
    }
    return "bad-op";
}
template <typename L, int K1>
inline std::string pair_k2(int k2, std::string const& op, std::vector<long long> const& a, std::vector<long long> const& b)
{
    if constexpr (K1 < 6) {
        switch (k2) {
        case 0: return pair_op<L, K1, 0>(op, a, b);
        case 1: return pair_op<L, K1, 1>(op, a, b);
        case 2: return pair_op<L, K1, 2>(op, a, b);
        case 3: return pair_op<L, K1, 3>(op, a, b);
        case 4: return pair_op<L, K1, 4>(op, a, b);
        case 5: return pair_op<L, K1, 5>(op, a, b);
        }
    } else {
        // kinds 6 / 7 are instantiated with each other and with the partner kinds {0, 1, 4} only (compile time)
        switch (k2) {
        case 0: return pair_op<L, K1, 0>(op, a, b);
        case 1: return pair_op<L, K1, 1>(op, a, b);
        case 4: return pair_op<L, K1, 4>(op, a, b);
        case 6: return pair_op<L, K1, 6>(op, a, b);
        case 7: return pair_op<L, K1, 7>(op, a, b);
        }
    }
    return "bad-op";
}
// pair lines of the translation units pairx_e / pairx_s: an element kind 6 / 7, or a mixed-kind op
template <typename L>
inline std::string pairx_line(Line const& l)
{
    auto const& op = l.str("op");
    auto const& a  = l.list("a");
    auto const& b  = l.list("b");
    auto const& t  = l.list("t");
    if (a.size() != 2 || b.size() != 2 || t.size() != 2) return "bad-op";
    if (op == "xassign" || op == "xmassign") return l.has("u") ? pair_xline<L>(op, t, l.list("u"), a, b) : std::string("bad-op");
    int const k1 = int(t[0]), k2 = int(t[1]);
    if (k1 == 6) return pair_k2<L, 6>(k2, op, a, b);
    if (k1 == 7) return pair_k2<L, 7>(k2, op, a, b);
    if (k2 == 6 || k2 == 7) {
        switch (k1) {
        case 0: return k2 == 6 ? pair_op<L, 0, 6>(op, a, b) : pair_op<L, 0, 7>(op, a, b);
        case 1: return k2 == 6 ? pair_op<L, 1, 6>(op, a, b) : pair_op<L, 1, 7>(op, a, b);
        case 4: return k2 == 6 ? pair_op<L, 4, 6>(op, a, b) : pair_op<L, 4, 7>(op, a, b);
        }
    }
    return "bad-op";
}
template <typename L>
inline std::string pair_line(Line const& l)
{
    auto const& op = l.str("op");
    auto const& a  = l.list("a");
    auto const& b  = l.list("b");
    if (a.size() != 2 || b.size() != 2) return "bad-op";
    if (op == "cmp") return pair_cmp<L>(l.str("e"), a, b);
    auto const& t = l.list("t");
    if (t.size() != 2) return "bad-op";
    if (op == "xassign" || op == "xmassign" || t[0] >= 6 || t[1] >= 6) {
        if constexpr (L::is_etl) return part::pairx_e(l); else return part::pairx_s(l);
    }
    switch (t[0]) {
    case 0: return pair_k2<L, 0>(int(t[1]), op, a, b);
    case 1: return pair_k2<L, 1>(int(t[1]), op, a, b);
    case 2: return pair_k2<L, 2>(int(t[1]), op, a, b);
    case 3: return pair_k2<L, 3>(int(t[1]), op, a, b);
    case 4: return pair_k2<L, 4>(int(t[1]), op, a, b);
    case 5: return pair_k2<L, 5>(int(t[1]), op, a, b);
    }
    return "bad-op";
}

#if C20_IN(0)
std::string part::pair_e(Line const& l) { return pair_line<E>(l); }
#endif
#if C20_IN(1)
std::string part::pair_s(Line const& l) { return pair_line<S>(l); }
#endif
#if C20_IN(24)
std::string part::pairx_e(Line const& l) { return pairx_line<E>(l); }
#endif
#if C20_IN(25)
std::string part::pairx_s(Line const& l) { return pairx_line<S>(l); }
#endif

// ---------------------------------------------------------------- tuple (any list of element kinds, arity 1..3)
template <typename L, typename T, int N> struct tup_n;
template <typename L, typename T> struct tup_n<L, T, 1> { using type = typename L::template tuple<T>; };
template <typename L, typename T> struct tup_n<L, T, 2> { using type = typename L::template tuple<T, T>; };
template <typename L, typename T> struct tup_n<L, T, 3> { using type = typename L::template tuple<T, T, T>; };

// element type maps: the element itself; the widened element (target of a converting constructor); the narrowed element
// (source of a converting assignment)
template <int K> struct map_elem { using type = elem_t<K>; };
template <int K> struct map_wide { using type = std::conditional_t<K == 0, long, std::conditional_t<K == 5, long const, elem_t<K>>>; };
template <int K> struct map_narrow { using type = std::conditional_t<K == 0, short, elem_t<K>>; };

// target of make_from_tuple: stores what it was constructed from (perfect forwarding)
template <typename... Sv>
struct Agg {
    std::tuple<std::optional<Sv>...> m;
    template <typename... A>
        requires(sizeof...(A) == sizeof...(Sv) && !(std::is_same_v<std::remove_cvref_t<A>, Agg> || ...))
    explicit Agg(A&&... a)
    {
        [&]<std::size_t... I>(std::index_sequence<I...>) { (std::get<I>(m).emplace(std::forward<A>(a)), ...); }(std::index_sequence_for<Sv...>{});
    }
    std::string vals() const
    {
        std::vector<long long> w;
        std::apply([&](auto const&... e) { (w.push_back(val(*e)), ...); }, m);
        return proto::fmt_list(w);
    }
};

template <typename L, typename TT, std::size_t... I>
inline std::string tvals_i(TT const& tt, std::index_sequence<I...>)
{
    std::vector<long long> w{static_cast<long long>(val(L::template get<I>(tt)))...};
    return proto::fmt_list(w);
}
template <typename... X>
inline std::string svals(std::tuple<X...> const& s)
{
    std::vector<long long> w;
    std::apply([&](auto const&... e) { (w.push_back(val(e)), ...); }, s);
    return proto::fmt_list(w);
}
template <typename... T> struct all_distinct : std::true_type { };
template <typename T, typename... R> struct all_distinct<T, R...> : std::bool_constant<(!std::is_same_v<T, R> && ...) && all_distinct<R...>::value> { };

// a tuple of library L with element types Map<K>::type..., built over referents / sources x
template <typename L, template <int> class Map, int... K>
struct TOpM {
    static constexpr std::size_t N = sizeof...(K);
    static constexpr bool copyable = ((K != 2) && ...);
    using IS  = std::make_index_sequence<N>;
    using T   = typename L::template tuple<typename Map<K>::type...>;
    using Src = std::tuple<src_t<K>...>;
    Src x;
    T t;
    template <std::size_t... I>
    static Src mk_src(int const* v, std::index_sequence<I...>) { return Src(src_t<K>(v[I])...); }
    template <std::size_t... I>
    static T mk(Src& s, int const* v, std::index_sequence<I...>)
    {
        return T(static_cast<std::conditional_t<K == 4, int&, std::remove_cv_t<typename Map<K>::type>>>(arg<K>(std::get<I>(s), v[I]))...);
    }
    explicit TOpM(int const* v) : x(mk_src(v, IS{})), t(mk(x, v, IS{})) { }
    std::string vals() const { return tvals_i<L>(t, IS{}); }
};
template <typename L, int... K> using TOp = TOpM<L, map_elem, K...>;

template <typename L, int... K>
inline std::string tuple_op(std::string const& op, std::vector<long long> const& a, std::vector<long long> const& b)
{
    using O   = TOp<L, K...>;
    using T   = typename O::T;
    using ST  = std::tuple<elem_t<K>...>;
    using Src = typename O::Src;
    using IS  = typename O::IS;
    constexpr std::size_t N = sizeof...(K);
    constexpr bool value       = ((K == 0 || K == 1 || K == 3) && ...);
    constexpr bool value_or_mo = ((K == 0 || K == 1 || K == 2 || K == 3) && ...);
    constexpr bool copyable    = ((K != 2) && ...);
    constexpr bool no_const    = ((K != 5) && ...);
    constexpr bool has_int     = ((K == 0 || K == 5) || ...);
    constexpr bool has_plain   = ((K == 0) || ...);
    auto const na = std::string("n/a");
    int av[3] = {0, 0, 0}, bv[3] = {0, 0, 0};
    for (std::size_t i = 0; i < N; ++i) { av[i] = static_cast<int>(a[i]); bv[i] = static_cast<int>(b[i]); }
    auto bs = proto::fmt_list(b);
    auto tv = [](auto const& tt) { return tvals_i<L>(tt, IS{}); };
    static_assert(std::is_copy_constructible_v<T> == std::is_copy_constructible_v<ST> && std::is_move_constructible_v<T> == std::is_move_constructible_v<ST>);
    static_assert(std::is_copy_assignable_v<T> == std::is_copy_assignable_v<ST> && std::is_move_assignable_v<T> == std::is_move_assignable_v<ST>);
    static_assert(std::is_default_constructible_v<T> == std::is_default_constructible_v<ST>);
    if (op == "ctor" || op == "ctorr" || op == "make" || op == "maker" || op == "fwd" || op == "tie" || op == "tieassign" || op == "tiemassign") {
        Src s = O::mk_src(av, IS{});
        g_copies = 0;
        return [&]<std::size_t... I>(std::index_sequence<I...>) -> std::string {
            if (op == "ctor") {
                if constexpr (copyable) { T r(std::get<I>(s)...); return res(tv(r), svals(s), bs); }
                else return na;
            }
            if (op == "ctorr") { T r(rv<K>(std::get<I>(s))...); return res(tv(r), svals(s), bs); }
            if (op == "make") {
                if constexpr (value) {
                    auto r = L::make_tuple(std::get<I>(s)...);
                    static_assert(std::is_same_v<decltype(r), typename L::template tuple<src_t<K>...>>);
                    return res(tv(r), svals(s), bs);
                } else return na;
            }
            if (op == "maker") {
                if constexpr (value_or_mo) {
                    auto r = L::make_tuple(std::move(std::get<I>(s))...);
                    static_assert(std::is_same_v<decltype(r), typename L::template tuple<src_t<K>...>>);
                    return res(tv(r), svals(s), bs);
                } else return na;
            }
            // fwd / tie: tuples of lvalue references to the sources; tieassign: tie(x...) = t assigns through the references
            if constexpr (value_or_mo) {
                auto chk = [&](auto const& r) { return ((&L::template get<I>(r) == &std::get<I>(s)) && ...) ? tv(r) : std::string("!alias"); };
                using R = typename L::template tuple<src_t<K>&...>;
                if (op == "fwd") { auto r = L::forward_as_tuple(std::get<I>(s)...); static_assert(std::is_same_v<decltype(r), R>); return res(chk(r), svals(s), bs); }
                if (op == "tie") { auto r = L::tie(std::get<I>(s)...); static_assert(std::is_same_v<decltype(r), R>); return res(chk(r), svals(s), bs); }
                // the right-hand side is a tuple of values (never of references: K is a value kind or move-only here)
                using V = typename L::template tuple<src_t<K>...>;
                V q((src_t<K>(bv[I]))...);
                g_copies = 0;
                if (op == "tieassign") {
                    if constexpr (copyable) { L::tie(std::get<I>(s)...) = q; return res("-", svals(s), tv(q)); }
                    else return na;
                }
                L::tie(std::get<I>(s)...) = std::move(q);
                return res("-", svals(s), tv(q));
            } else return na;
        }(IS{});
    }
    if (op == "dflt") {
        if constexpr (std::is_default_constructible_v<ST>) {
            g_copies = 0;
            T r{};
            return res(tv(r), proto::fmt_list(a), bs);
        } else return na;
    }
    if (op == "copy") {
        if constexpr (std::is_copy_constructible_v<ST>) {
            O o(av);
            g_copies = 0;
            std::string pre;
            { T r2(o.t); pre = tv(r2); } // from a non-const lvalue: must be the copy constructor too, not the element-wise one
            g_copies = 0;
            T r(std::as_const(o.t));
            if (pre != tv(r)) return "!copy";
            return res(tv(r), o.vals(), bs);
        } else return na;
    }
    if (op == "move") {
        O o(av);
        g_copies = 0;
        T r(std::move(o.t));
        return res(tv(r), o.vals(), bs);
    }
    if (op == "assign") {
        if constexpr (std::is_copy_assignable_v<ST>) {
            O o(av), q(bv);
            g_copies = 0;
            T& ret = (o.t = q.t);
            if (&ret != &o.t) return "!return";
            return res("-", o.vals(), q.vals());
        } else return na;
    }
    if (op == "massign") {
        if constexpr (std::is_move_assignable_v<ST>) {
            O o(av), q(bv);
            g_copies = 0;
            T& ret = (o.t = std::move(q.t));
            if (&ret != &o.t) return "!return";
            return res("-", o.vals(), q.vals());
        } else return na;
    }
    if (op == "swap" || op == "fswap" || op == "selfswap") {
        if constexpr (no_const) {
            O o(av), q(bv);
            g_copies = 0;
            if (op == "swap") o.t.swap(q.t);
            else if (op == "fswap") L::swap(o.t, q.t);
            else o.t.swap(o.t);
            return res("-", o.vals(), q.vals());
        } else return na;
    }
    if (op == "get" || op == "getc") {
        O o(av);
        g_copies = 0;
        std::string r = op == "get" ? tv(o.t) : tv(std::as_const(o.t));
        return res(r, o.vals(), bs);
    }
    if (op == "sb") {
        // structured binding by reference: the names designate the elements themselves
        O o(av);
        g_copies = 0;
        std::string r;
        if constexpr (N == 1) { auto& [e0] = o.t; r = &e0 == &L::template get<0>(o.t) ? fmt_vals({val(e0)}) : "!alias"; }
        else if constexpr (N == 2) {
            auto& [e0, e1] = o.t;
            r = (&e0 == &L::template get<0>(o.t) && &e1 == &L::template get<1>(o.t)) ? fmt_vals({val(e0), val(e1)}) : "!alias";
        } else {
            auto& [e0, e1, e2] = o.t;
            r = (&e0 == &L::template get<0>(o.t) && &e1 == &L::template get<1>(o.t) && &e2 == &L::template get<2>(o.t))
                  ? fmt_vals({val(e0), val(e1), val(e2)}) : "!alias";
        }
        return res(r, o.vals(), bs);
    }
    if (op == "gett" || op == "gettr") {
        // get<T>: only when every element type occurs once
        if constexpr (all_distinct<elem_t<K>...>::value) {
            O o(av);
            g_copies = 0;
            return [&]<std::size_t... I>(std::index_sequence<I...>) -> std::string {
                if (op == "gett") {
                    bool same = ((&L::template get_t<elem_t<K>>(o.t) == &L::template get<I>(o.t)) && ...)
                             && ((&L::template get_t<elem_t<K>>(std::as_const(o.t)) == &L::template get<I>(std::as_const(o.t))) && ...);
                    std::vector<long long> w{static_cast<long long>(val(L::template get_t<elem_t<K>>(o.t)))...};
                    return res(same ? proto::fmt_list(w) : "!alias", o.vals(), bs);
                }
                // (reference kinds are left out as for pair, where libstdc++ 12 does not compile get<T&>(pair&&))
                if constexpr (((K != 4) && ...)) {
                    std::vector<long long> w;
                    auto take = [&](auto tag, auto&& e) { typename decltype(tag)::type v(FWD(e)); w.push_back(val(v)); };
                    (take(std::type_identity<src_t<K>>{}, L::template get_t<elem_t<K>>(std::move(o.t))), ...);
                    return res(proto::fmt_list(w), o.vals(), bs);
                } else return na;
            }(IS{});
        } else return na;
    }
    if (op == "getr" || op == "getcr") {
        if constexpr (!copyable) { if (op == "getcr") return na; }
        O o(av);
        g_copies = 0;
        std::vector<long long> w;
        auto take = [&](auto tag, auto&& e) { typename decltype(tag)::type v(FWD(e)); w.push_back(val(v)); };
        [&]<std::size_t... I>(std::index_sequence<I...>) {
            if (op == "getr") (take(std::type_identity<src_t<K>>{}, L::template get<I>(std::move(o.t))), ...);
            else if constexpr (copyable) (take(std::type_identity<src_t<K>>{}, L::template get<I>(std::move(std::as_const(o.t)))), ...);
        }(IS{});
        return res(proto::fmt_list(w), o.vals(), bs);
    }
    if (op == "mft" || op == "mftr") {
        using A = Agg<src_t<K>...>;
        O o(av);
        g_copies = 0;
        if (op == "mft") {
            if constexpr (copyable) { auto r = L::template make_from_tuple<A>(o.t); return res(r.vals(), o.vals(), bs); }
            else return na;
        }
        auto r = L::template make_from_tuple<A>(std::move(o.t));
        return res(r.vals(), o.vals(), bs);
    }
    if (op == "conv" || op == "convr") {
        // converting constructor: int elements widen to long, the other elements keep their type
        using CT  = typename L::template tuple<typename map_wide<K>::type...>;
        using SCT = std::tuple<typename map_wide<K>::type...>;
        static_assert(std::is_constructible_v<CT, T const&> == std::is_constructible_v<SCT, ST const&>);
        static_assert(std::is_constructible_v<CT, T&&> == std::is_constructible_v<SCT, ST&&>);
        static_assert(std::is_convertible_v<T const&, CT> == std::is_convertible_v<ST const&, SCT>);
        if constexpr (has_int) {
            O o(av);
            g_copies = 0;
            auto cv = [](CT const& r) { return tvals_i<L>(r, IS{}); };
            if (op == "conv") {
                if constexpr (std::is_constructible_v<SCT, ST const&>) { CT r(std::as_const(o.t)); return res(cv(r), o.vals(), bs); }
                else return na;
            }
            CT r(std::move(o.t));
            return res(cv(r), o.vals(), bs);
        } else return na;
    }
    if (op == "cassign" || op == "cmassign") {
        // converting assignment from a tuple whose int elements are short
        using Q   = TOpM<L, map_narrow, K...>;
        using SNT = std::tuple<typename map_narrow<K>::type...>;
        static_assert(std::is_assignable_v<T&, typename Q::T const&> == std::is_assignable_v<ST&, SNT const&>);
        static_assert(std::is_assignable_v<T&, typename Q::T&&> == std::is_assignable_v<ST&, SNT&&>);
        if constexpr (has_plain && no_const) {
            if (op == "cassign") {
                if constexpr (std::is_assignable_v<ST&, SNT const&>) {
                    O o(av); Q q(bv);
                    g_copies = 0;
                    o.t = std::as_const(q.t);
                    return res("-", o.vals(), q.vals());
                } else return na;
            }
            O o(av); Q q(bv);
            g_copies = 0;
            o.t = std::move(q.t);
            return res("-", o.vals(), q.vals());
        } else return na;
    }
    if (op == "convp" || op == "convpr") {
        // tuple from pair (arity 2)
        if constexpr (N == 2) {
            return [&]<std::size_t... I>(std::index_sequence<I...>) -> std::string {
                using P  = typename L::template pair<elem_t<K>...>;
                using SP = std::pair<elem_t<K>...>;
                static_assert(std::is_constructible_v<T, P const&> == std::is_constructible_v<ST, SP const&>);
                static_assert(std::is_constructible_v<T, P&&> == std::is_constructible_v<ST, SP&&>);
                Src s = O::mk_src(av, IS{});
                P p(arg<K>(std::get<I>(s), av[I])...);
                g_copies = 0;
                if (op == "convp") {
                    if constexpr (copyable) { T r(std::as_const(p)); return res(tv(r), pvals(p), bs); }
                    else return na;
                }
                T r(std::move(p));
                return res(tv(r), pvals(p), bs);
            }(IS{});
        } else return na;
    }
    return "bad-op";
}

// the element-kind lists that are instantiated: every list of length 1 and 2, the uniform triples and eight mixed triples
// (checks/props/c20.py TUPLE_KINDS names the same lists); compiled in four groups (translation units)
inline int tuple_group(std::vector<long long> const& t)
{
    if (t.size() == 1) return 0;
    if (t.size() == 2) return t[0] <= 1 ? 0 : (t[0] <= 4 ? 1 : 2);
    return (t[0] == t[1] && t[1] == t[2]) ? 2 : 3;
}
template <typename L, int G>
inline std::string tuple_kinds(std::vector<long long> const& t, std::string const& op, std::vector<long long> const& a, std::vector<long long> const& b)
{
    long long key = static_cast<long long>(t.size()) * 1000;
    for (auto k : t) { if (k < 0 || k > 5) return "bad-op"; }
    if (t.size() == 1) key += t[0];
    else if (t.size() == 2) key += t[0] * 10 + t[1];
    else key += t[0] * 100 + t[1] * 10 + t[2];
    switch (key) {
#define C20_T1(g, x) case 1000 + x: if constexpr (G == g) return tuple_op<L, x>(op, a, b); else break;
#define C20_T2(g, x, y) case 2000 + x * 10 + y: if constexpr (G == g) return tuple_op<L, x, y>(op, a, b); else break;
#define C20_T2R(g, x) C20_T2(g, x, 0) C20_T2(g, x, 1) C20_T2(g, x, 2) C20_T2(g, x, 3) C20_T2(g, x, 4) C20_T2(g, x, 5)
#define C20_T3(g, x, y, z) case 3000 + x * 100 + y * 10 + z: if constexpr (G == g) return tuple_op<L, x, y, z>(op, a, b); else break;
        C20_T1(0, 0) C20_T1(0, 1) C20_T1(0, 2) C20_T1(0, 3) C20_T1(0, 4) C20_T1(0, 5)
        C20_T2R(0, 0) C20_T2R(0, 1) C20_T2R(1, 2) C20_T2R(1, 3) C20_T2R(1, 4) C20_T2R(2, 5)
        C20_T3(2, 0, 0, 0) C20_T3(2, 1, 1, 1) C20_T3(2, 2, 2, 2) C20_T3(2, 3, 3, 3) C20_T3(2, 4, 4, 4) C20_T3(2, 5, 5, 5)
        C20_T3(3, 0, 2, 4) C20_T3(3, 1, 3, 5) C20_T3(3, 4, 1, 2) C20_T3(3, 5, 0, 3) C20_T3(3, 2, 5, 1) C20_T3(3, 3, 4, 0) C20_T3(3, 1, 2, 3) C20_T3(3, 0, 4, 5)
#undef C20_T1
#undef C20_T2
#undef C20_T2R
#undef C20_T3
    }
    return "bad-op";
}

// callee of apply: a member function / member data pointer whose object is the first tuple element
template <typename L, int N>
inline std::string tuple_eq_apply(std::string const& op, Line const& l)
{
    auto const& a = l.list("a");
    using TI = typename tup_n<L, int, N>::type;
    using TT = typename tup_n<L, Trk, N>::type;
    auto mk = [](auto tag, std::vector<long long> const& v) {
        using T = typename decltype(tag)::type;
        if constexpr (N == 1) return T(int(v[0]));
        else if constexpr (N == 2) return T(int(v[0]), int(v[1]));
        else return T(int(v[0]), int(v[1]), int(v[2]));
    };
    if (op == "eq") {
        auto const& b = l.list("b");
        if (l.has("e")) {       // e=kp: elements whose == looks at more than their < does
            if (l.str("e") != "kp") return "bad-op";
            using TK = typename tup_n<L, KP, N>::type;
            auto x = mk(std::type_identity<TK>{}, a), y = mk(std::type_identity<TK>{}, b);
            bool e = x == y, ne = x != y;
            if (e == ne) return "!ne";
            return proto::fmt_bool(e);
        }
        auto x = mk(std::type_identity<TI>{}, a), y = mk(std::type_identity<TI>{}, b);
        bool e = x == y, ne = x != y;
        if (e == ne) return "!ne";
        return proto::fmt_bool(e);
    }
    // apply
    auto t = mk(std::type_identity<TT>{}, a);
    Fob f{7};
    g_log.clear();
    long long r = with_cat(l.i("c", 0), f, [&](auto&& ff) -> long long {
        return with_cat(l.i("q"), t, [&](auto&& tt) -> long long { return L::apply(FWD(ff), FWD(tt)); });
    });
    return "r=" + std::to_string(r) + " log=" + fmt_log();
}

// apply f=memfn|memdata q=Q a=[x] | v=N: apply(pointer to member, tuple<Sc, int> / tuple<Sc>) with the tuple in category q:
// the object is the first element and arrives with the tuple's category
template <typename L>
inline std::string apply_memptr(Line const& l)
{
    auto const& f = l.str("f");
    long long q   = l.i("q");
    g_log.clear();
    long long r = 0;
    if (f == "memfn") {
        auto const& a = l.list("a");
        if (a.size() != 1) return "bad-op";
        typename L::template tuple<Sc, int> t(Sc{}, static_cast<int>(a[0]));
        switch (q) {
        case 0: r = L::apply(static_cast<pmf_l>(&Sc::q), t); break;
        case 1: r = L::apply(static_cast<pmf_c>(&Sc::q), std::as_const(t)); break;
        case 2: r = L::apply(static_cast<pmf_r>(&Sc::q), std::move(t)); break;
        default: r = L::apply(static_cast<pmf_k>(&Sc::q), std::move(std::as_const(t))); break;
        }
    } else if (f == "memdata") {
        Sc s;
        s.dm = static_cast<int>(l.i("v"));
        typename L::template tuple<Sc> t(s);
        r = with_cat(q, t, [&](auto&& tt) -> long long { return L::apply(&Sc::dm, FWD(tt)); });
        if (&L::apply(&Sc::dm, t) != &L::template get<0>(t).dm) return "!addr";
    } else return "bad-op";
    return "r=" + std::to_string(r) + " log=" + fmt_log();
}

// group G of the element-kind lists; the lines that have no kind list (eq, apply) belong to group 0
inline int tuple_line_group(Line const& l)
{
    auto const& op = l.str("op");
    if (op == "eq" || op == "apply" || !l.has("t")) return 0;
    return tuple_group(l.list("t"));
}
template <typename L, int G>
inline std::string tuple_line(Line const& l)
{
    auto const& op = l.str("op");
    if constexpr (G != 0) {
        auto const& a = l.list("a");
        auto const& b = l.list("b");
        auto const& t = l.list("t");
        if (a.empty() || a.size() > 3 || b.size() != a.size() || t.size() != a.size()) return "bad-op";
        return tuple_kinds<L, G>(t, op, a, b);
    } else {
    if (op == "apply" && l.has("f")) return apply_memptr<L>(l);
    auto const& a = l.list("a");
    if (op == "eq" && a.empty() && l.list("b").empty()) {
        typename L::template tuple<> x{}, y{};
        bool e = x == y, ne = x != y;
        if (e == ne) return "!ne";
        return proto::fmt_bool(e);
    }
    if (a.empty() || a.size() > 3) return "bad-op";
    if (op == "eq" || op == "apply") {
        if (op == "eq" && l.list("b").size() != a.size()) return "bad-op";
        switch (a.size()) {
        case 1: return tuple_eq_apply<L, 1>(op, l);
        case 2: return tuple_eq_apply<L, 2>(op, l);
        default: return tuple_eq_apply<L, 3>(op, l);
        }
    }
    auto const& b = l.list("b");
    auto const& t = l.list("t");
    if (b.size() != a.size() || t.size() != a.size()) return "bad-op";
    return tuple_kinds<L, 0>(t, op, a, b);
    }
}

#if C20_IN(2)
std::string part::tuple_e0(Line const& l) { return tuple_line<E, 0>(l); }
#endif
#if C20_IN(3)
std::string part::tuple_e1(Line const& l) { return tuple_line<E, 1>(l); }
#endif
#if C20_IN(4)
std::string part::tuple_e2(Line const& l) { return tuple_line<E, 2>(l); }
#endif
#if C20_IN(5)
std::string part::tuple_e3(Line const& l) { return tuple_line<E, 3>(l); }
#endif
#if C20_IN(6)
std::string part::tuple_s0(Line const& l) { return tuple_line<S, 0>(l); }
#endif
#if C20_IN(7)
std::string part::tuple_s1(Line const& l) { return tuple_line<S, 1>(l); }
#endif
#if C20_IN(8)
std::string part::tuple_s2(Line const& l) { return tuple_line<S, 2>(l); }
#endif
#if C20_IN(9)
std::string part::tuple_s3(Line const& l) { return tuple_line<S, 3>(l); }
#endif

// ---------------------------------------------------------------- tuple_cat
// tcat k=[kinds of the flattened elements] q=Q ts=[n1,..] v=[flattened values]: up to three tuples of arity 1..2, handed over as
// lvalues (q=0), const lvalues (1), rvalues (2), const rvalues (3).  Instantiated: every shape for a uniform kind, and the mixed
// combinations of tcat_line below (checks/props/c20.py TCAT_MIXED names the same lists).
template <typename L>
struct CatRun {
    template <typename TT>
    static constexpr std::size_t tsize()
    {
        if constexpr (L::is_etl) return etl::tuple_size_v<TT>; else return std::tuple_size_v<TT>;
    }
    template <typename TT>
    static void dump(TT const& t, std::vector<long long>& w)
    {
        [&]<std::size_t... I>(std::index_sequence<I...>) { (w.push_back(val(L::template get<I>(t))), ...); }(std::make_index_sequence<tsize<TT>()>{});
    }
    template <typename... Os>
    static std::string run(long long q, Os&... os)
    {
        constexpr bool copyable = (Os::copyable && ...);
        g_copies = 0;
        std::vector<long long> r, after;
        switch (q) {
        case 0:
            if constexpr (copyable) { auto c = L::tuple_cat(os.t...); dump(c, r); break; } else return "n/a";
        case 1:
            if constexpr (copyable) { auto c = L::tuple_cat(std::as_const(os.t)...); dump(c, r); break; } else return "n/a";
        case 2: { auto c = L::tuple_cat(std::move(os.t)...); dump(c, r); break; }
        case 3:
            if constexpr (copyable) { auto c = L::tuple_cat(std::move(std::as_const(os.t))...); dump(c, r); break; } else return "n/a";
        default: return "bad-op";
        }
        int cp = g_copies;
        (dump(os.t, after), ...);
        return "r=" + proto::fmt_list(r) + " a=" + proto::fmt_list(after) + " cp=" + std::to_string(cp);
    }
    template <typename O1, typename O2 = void, typename O3 = void>
    static std::string build(long long q, int const* v)
    {
        O1 o1(v);
        if constexpr (std::is_void_v<O2>) return run(q, o1);
        else {
            O2 o2(v + O1::N);
            if constexpr (std::is_void_v<O3>) return run(q, o1, o2);
            else { O3 o3(v + O1::N + O2::N); return run(q, o1, o2, o3); }
        }
    }
    template <int K, int N> using U = std::conditional_t<N == 1, TOp<L, K>, TOp<L, K, K>>;
    template <int K>
    static std::string uniform(long long q, std::vector<long long> const& ts, int const* v)
    {
        long long key = 0;
        for (auto n : ts) key = key * 10 + n;
        switch (key) {
        case 1: return build<U<K, 1>>(q, v);
        case 2: return build<U<K, 2>>(q, v);
        case 11: return build<U<K, 1>, U<K, 1>>(q, v);
        case 12: return build<U<K, 1>, U<K, 2>>(q, v);
        case 21: return build<U<K, 2>, U<K, 1>>(q, v);
        case 22: return build<U<K, 2>, U<K, 2>>(q, v);
        case 111: return build<U<K, 1>, U<K, 1>, U<K, 1>>(q, v);
        case 112: return build<U<K, 1>, U<K, 1>, U<K, 2>>(q, v);
        case 121: return build<U<K, 1>, U<K, 2>, U<K, 1>>(q, v);
        case 122: return build<U<K, 1>, U<K, 2>, U<K, 2>>(q, v);
        case 211: return build<U<K, 2>, U<K, 1>, U<K, 1>>(q, v);
        case 212: return build<U<K, 2>, U<K, 1>, U<K, 2>>(q, v);
        case 221: return build<U<K, 2>, U<K, 2>, U<K, 1>>(q, v);
        case 222: return build<U<K, 2>, U<K, 2>, U<K, 2>>(q, v);
        }
        return "bad-op";
    }
};
// compiled in three groups: uniform kinds 0..2, uniform kinds 3..5, the mixed combinations
inline int tcat_group(Line const& l)
{
    auto const& k = l.list("k");
    if (k.empty()) return 0;
    for (auto x : k) if (x != k[0]) return 2;
    return k[0] <= 2 ? 0 : 1;
}
template <typename L, int G>
inline std::string tcat_line(Line const& l)
{
    auto const& ts = l.list("ts");
    auto const& v  = l.list("v");
    auto const& k  = l.list("k");
    long long n    = 0;
    for (auto x : ts) { if (x < 1 || x > 2) return "bad-op"; n += x; }
    if (ts.size() > 3 || n != (long long)v.size() || k.size() != v.size()) return "bad-op";
    long long q = l.i("q");
    if (ts.empty()) {
        // tuple_cat() with no argument: the empty tuple
        if constexpr (G == 0) {
            if constexpr (L::is_etl && !C20_HAS_TCAT0) return "nc";
            else {
                auto c = L::tuple_cat();
                static_assert(std::is_same_v<decltype(c), typename L::template tuple<>>);
                (void)c;
                return "r=[] a=[] cp=0";
            }
        } else return "bad-op";
    }
    int iv[6];
    for (std::size_t i = 0; i < v.size(); ++i) iv[i] = static_cast<int>(v[i]);
    bool uni = true;
    for (auto x : k) uni = uni && x == k[0];
    using C = CatRun<L>;
    if (uni) {
        if constexpr (G == 0) {
            switch (k[0]) {
            case 0: return C::template uniform<0>(q, ts, iv);
            case 1: return C::template uniform<1>(q, ts, iv);
            case 2: return C::template uniform<2>(q, ts, iv);
            }
        } else if constexpr (G == 1) {
            switch (k[0]) {
            case 3: return C::template uniform<3>(q, ts, iv);
            case 4: return C::template uniform<4>(q, ts, iv);
            case 5: return C::template uniform<5>(q, ts, iv);
            }
        }
        return "bad-op";
    }
    if constexpr (G == 2) {
    auto is = [&](std::vector<long long> const& kk, std::vector<long long> const& tt) { return k == kk && ts == tt; };
    if (is({0, 2, 4, 3, 5}, {2, 1, 2})) return C::template build<TOp<L, 0, 2>, TOp<L, 4>, TOp<L, 3, 5>>(q, iv);
    if (is({1, 2, 1}, {1, 2})) return C::template build<TOp<L, 1>, TOp<L, 2, 1>>(q, iv);
    if (is({5, 4, 1, 3, 0}, {2, 2, 1})) return C::template build<TOp<L, 5, 4>, TOp<L, 1, 3>, TOp<L, 0>>(q, iv);
    if (is({3, 1, 4, 5}, {2, 2})) return C::template build<TOp<L, 3, 1>, TOp<L, 4, 5>>(q, iv);
    if (is({4, 4, 1}, {1, 2})) return C::template build<TOp<L, 4>, TOp<L, 4, 1>>(q, iv);
    if (is({5, 0, 5, 2}, {1, 2, 1})) return C::template build<TOp<L, 5>, TOp<L, 0, 5>, TOp<L, 2>>(q, iv);
    if (is({1, 0, 3}, {2, 1})) return C::template build<TOp<L, 1, 0>, TOp<L, 3>>(q, iv);
    }
    return "bad-op";
}

#if C20_IN(10)
std::string part::tcat_e0(Line const& l) { return tcat_line<E, 0>(l); }
#endif
#if C20_IN(11)
std::string part::tcat_e1(Line const& l) { return tcat_line<E, 1>(l); }
#endif
#if C20_IN(12)
std::string part::tcat_e2(Line const& l) { return tcat_line<E, 2>(l); }
#endif
#if C20_IN(13)
std::string part::tcat_s0(Line const& l) { return tcat_line<S, 0>(l); }
#endif
#if C20_IN(14)
std::string part::tcat_s1(Line const& l) { return tcat_line<S, 1>(l); }
#endif
#if C20_IN(15)
std::string part::tcat_s2(Line const& l) { return tcat_line<S, 2>(l); }
#endif

// ---------------------------------------------------------------- invoke
template <typename L>
inline std::string invoke_line(Line const& l)
{
    auto const& f = l.str("f");
    auto const& x = l.list("x");
    long long c   = l.i("c");
    g_log.clear();
    long long r = 0;
    if (f == "fn" || f == "fptr" || f == "lam") {
        if (x.size() != 2) return "bad-op";
        if (f == "fn") r = L::invoke(fn1, static_cast<int>(x[0]), static_cast<int>(x[1]));
        else if (f == "fptr") { auto p = &fn2; r = L::invoke(p, static_cast<int>(x[0]), static_cast<int>(x[1])); }
        else { auto lam = [](int a, int b) { return record_v(3, '-', {{'v', a}, {'v', b}}); }; r = L::invoke(lam, static_cast<int>(x[0]), static_cast<int>(x[1])); }
    } else if (f == "fob") {
        auto const& xc = l.list("xc");
        if (xc.size() != x.size() || x.size() > 2) return "bad-op";
        Fob fo{4};
        Trk a0(x.size() > 0 ? static_cast<int>(x[0]) : 0), a1(x.size() > 1 ? static_cast<int>(x[1]) : 0);
        r = with_cat(c, fo, [&](auto&& ff) -> long long {
            if (x.size() == 0) return L::invoke(FWD(ff));
            return with_cat(xc[0], a0, [&](auto&& y0) -> long long {
                if (x.size() == 1) return L::invoke(FWD(ff), FWD(y0));
                return with_cat(xc[1], a1, [&](auto&& y1) -> long long { return L::invoke(FWD(ff), FWD(y0), FWD(y1)); });
            });
        });
    } else if (f == "memfn" || f == "memdata") {
        auto const& o = l.str("o");
        bool md       = f == "memdata";
        if (md ? !x.empty() : x.size() != 1) return "bad-op";
        int xv = md ? 0 : static_cast<int>(x[0]);
        Sc s;
        Dc d;
        s.dm = d.dm = md ? int(l.i("v")) : 0;
        if (o == "obj" || o == "der") {
            auto go = [&](auto& obj) -> long long {
                if (md) return with_cat(c, obj, [&](auto&& e) -> long long { return L::invoke(&Sc::dm, FWD(e)); });
                return with_obj(c, obj, [&](auto pm, auto&& e) -> long long { return L::invoke(pm, FWD(e), xv); });
            };
            r = o == "obj" ? go(s) : go(d);
        } else if (o == "refw") {
            if (c == 0) { auto w = L::ref(s); r = md ? L::invoke(&Sc::dm, w) : L::invoke(static_cast<pmf_l>(&Sc::q), w, xv); }
            else if (c == 1) { auto w = L::cref(s); r = md ? L::invoke(&Sc::dm, w) : L::invoke(static_cast<pmf_c>(&Sc::q), w, xv); }
            else return "bad-op";
        } else if (o == "ptr" || o == "dptr") {
            auto go = [&](auto* p) -> long long {
                using O = std::remove_pointer_t<decltype(p)>;
                if (c == 0) { return md ? L::invoke(&Sc::dm, p) : L::invoke(static_cast<pmf_l>(&Sc::q), p, xv); }
                O const* cp = p;
                return md ? L::invoke(&Sc::dm, cp) : L::invoke(static_cast<pmf_c>(&Sc::q), cp, xv);
            };
            if (c > 1) return "bad-op";
            r = o == "ptr" ? go(&s) : go(&d);
        } else return "bad-op";
        if (md) {
            // the reference returned for an lvalue object must designate the member itself
            if (&L::invoke(&Sc::dm, s) != &s.dm || &L::invoke(&Sc::dm, &d) != &d.dm) return "!addr";
        }
    } else return "bad-op";
    return "r=" + std::to_string(r) + " log=" + fmt_log();
}

// ---------------------------------------------------------------- function_ref / inplace_function argument forwarding
// target of signature long long(Trk, Trk&, Trk const&)
template <bool Etl>
inline std::string fref_line(Line const& l, bool ifn2)
{
    auto const& x  = l.list("x");
    std::string f  = ifn2 ? "fob" : l.str("f");
    long long c    = ifn2 ? 0 : l.i("c");
    bool copy      = !ifn2 && l.str("act") == "copy";
    bool rebind    = !ifn2 && l.str("act") == "rebind";
    bool ne        = !ifn2 && l.i("ne", 0) == 1; // function_ref<R(Args...) noexcept>
    g_log.clear();
    g_copies    = 0;
    long long r = 0;
    if (ifn2 && l.has("f")) {
        // an owning wrapper around a pointer to member: called through INVOKE with the object as first argument
        auto const& ff = l.str("f");
        Sc s;
        if (ff == "memfn") {
            if (x.size() != 1) return "bad-op";
            using Sg = long long(Sc&, int);
            if constexpr (Etl) {
#if C20_HAS_IFN_MEMPTR
                etl::inplace_function<Sg, 32> w{static_cast<pmf_l>(&Sc::q)};
                auto w2 = w;
                r       = w2(s, static_cast<int>(x[0]));
#else
                return "nc"; // does not compile: the invoke thunk calls (*p)(args...) although the constructor accepts INVOKE-able types
#endif
            } else {
                std::function<Sg> w{static_cast<pmf_l>(&Sc::q)};
                auto w2 = w;
                r       = w2(s, static_cast<int>(x[0]));
            }
        } else if (ff == "memdata") {
            if (!x.empty()) return "bad-op";
            s.dm     = static_cast<int>(l.i("v"));
            using Sg = int(Sc&);
            if constexpr (Etl) {
#if C20_HAS_IFN_MEMPTR
                etl::inplace_function<Sg, 32> w{&Sc::dm};
                r = w(s);
#else
                return "nc";
#endif
            } else {
                std::function<Sg> w{&Sc::dm};
                r = w(s);
            }
        } else return "bad-op";
        return "r=" + std::to_string(r) + " log=" + fmt_log() + " cp=" + std::to_string(g_copies);
    }
    if (f == "fob") {
        auto const& xc = l.list("xc");
        if (x.size() != 3 || xc.size() != 1 || c > 1) return "bad-op";
        using Sig = long long(Trk, Trk&, Trk const&);
        Trk a(static_cast<int>(x[0])), b(static_cast<int>(x[1])), d(static_cast<int>(x[2]));
        if (xc[0] < 0 || xc[0] > 3) return "bad-op";
        bool lv = xc[0] != 2; // the by-value parameter is copied from an lvalue and from a const rvalue
        Fob fo{ifn2 ? 8 : 4};
        g_copies = 0;
        auto call = [&](auto& w) -> long long {
            if (xc[0] == 0) return w(a, b, d);
            if (xc[0] == 1) return w(std::as_const(a), b, d);
            if (xc[0] == 3) return w(std::move(std::as_const(a)), b, d);
            return w(std::move(a), b, d);
        };
        if constexpr (Etl) {
            if (ifn2) {
                etl::inplace_function<Sig, 32> w{fo};
                r = call(w);
            } else {
                // w refers to the target; wo refers to another object until `wo = w` rebinds it (act=rebind)
                Fob other{9};
                Fob const cfo{4}, cother{9};
                auto go = [&](auto w, auto wo) -> long long {
                    if (copy) { auto w2 = w; return call(w2); }
                    if (rebind) { wo = w; return call(wo); }
                    return call(w);
                };
                if (!ne) {
                    using FR = etl::function_ref<Sig>;
                    r = c == 0 ? go(FR{fo}, FR{other}) : go(FR{cfo}, FR{cother});
                } else {
                    using FR = etl::function_ref<long long(Trk, Trk&, Trk const&) noexcept>;
                    static_assert(noexcept(std::declval<FR const&>()(std::declval<Trk>(), std::declval<Trk&>(), std::declval<Trk const&>())));
                    r = c == 0 ? go(FR{fo}, FR{other}) : go(FR{cfo}, FR{cother});
                }
            }
        } else {
            if (ifn2) {
                std::function<Sig> w{fo};
                r = call(w);
            } else {
                // oracle: the direct call P0792 prescribes
                Trk p0 = lv ? Trk(std::as_const(a)) : Trk(std::move(a));
                r      = c == 0 ? fo(std::move(p0), b, std::as_const(d)) : std::as_const(fo)(std::move(p0), b, std::as_const(d));
            }
        }
        (void)lv;
    } else {
        if (x.size() != 2) return "bad-op";
        using Sig = long long(int, int);
        auto lam  = [](int p, int q) { return record_v(3, '-', {{'v', p}, {'v', q}}); };
        if constexpr (Etl) {
            auto run = [&](etl::function_ref<Sig> w) -> long long {
                if (copy) { auto w2 = w; return w2(static_cast<int>(x[0]), static_cast<int>(x[1])); }
                return w(static_cast<int>(x[0]), static_cast<int>(x[1]));
            };
            if (f == "fn") { etl::function_ref<Sig> w = fn1; r = run(w); }
            else if (f == "fptr") {
                etl::function_ref<Sig> w = &fn2; // a prvalue function pointer
                auto p = &fn2;
                etl::function_ref w3(p);         // deduction guide, lvalue pointer
                r = run(w);
                g_log.clear();
                r = run(w3);
            } else if (f == "lam") { etl::function_ref<Sig> w{lam}; r = run(w); }
            else return "bad-op";
        } else {
            if (f == "fn") r = fn1(static_cast<int>(x[0]), static_cast<int>(x[1]));
            else if (f == "fptr") r = fn2(static_cast<int>(x[0]), static_cast<int>(x[1]));
            else if (f == "lam") r = lam(static_cast<int>(x[0]), static_cast<int>(x[1]));
            else return "bad-op";
        }
    }
    return "r=" + std::to_string(r) + " log=" + fmt_log() + " cp=" + std::to_string(g_copies);
}

// ---------------------------------------------------------------- reference_wrapper / bind_front / not_fn
template <typename W, typename Args>
inline long long call_fwd(W&& w, std::vector<long long> const& xc, Args& a)
{
    auto& [a0, a1] = a;
    if (xc.size() == 0) return FWD(w)();
    return with_cat(xc[0], a0, [&](auto&& y0) -> long long {
        if (xc.size() == 1) return FWD(w)(FWD(y0));
        return with_cat(xc[1], a1, [&](auto&& y1) -> long long { return FWD(w)(FWD(y0), FWD(y1)); });
    });
}

template <typename L>
inline std::string rw_line(Line const& l)
{
    auto const& x  = l.list("x");
    auto const& xc = l.list("xc");
    auto const& act = l.str("act");
    if (x.size() != xc.size() || x.size() > 2) return "bad-op";
    std::pair<Trk, Trk> a{Trk(x.size() > 0 ? static_cast<int>(x[0]) : 0), Trk(x.size() > 1 ? static_cast<int>(x[1]) : 0)};
    Fob fo{4}, other{9};
    g_log.clear();
    long long r = 0;
    if (l.i("cst") == 0) {
        auto w = L::ref(fo);
        if (&w.get() != &fo) return "!get";
        if (act == "copy") { auto w2 = w; r = call_fwd(w2, xc, a); }
        else if (act == "rebind") { w = L::ref(other); if (&w.get() != &other) return "!get"; r = call_fwd(w, xc, a); }
        else if (act == "reref") {
            auto w2 = L::ref(w); // ref(reference_wrapper<T>) is a reference_wrapper<T> to the same object, not a nested wrapper
            static_assert(std::is_same_v<decltype(w2), decltype(w)>);
            if (&w2.get() != &fo) return "!get";
            r = call_fwd(w2, xc, a);
        }
        else r = call_fwd(w, xc, a);
    } else {
        auto w = L::cref(fo);
        if (&w.get() != &fo) return "!get";
        if (act == "copy") { auto w2 = w; r = call_fwd(w2, xc, a); }
        else if (act == "rebind") { w = L::cref(other); r = call_fwd(w, xc, a); }
        else if (act == "reref") {
            auto w0 = L::ref(fo);
            auto w2 = L::cref(w0); // cref(reference_wrapper<T>) is a reference_wrapper<T const>
            auto w3 = L::cref(w);  // cref(reference_wrapper<T const>) stays a reference_wrapper<T const>
            static_assert(std::is_same_v<decltype(w2), decltype(w)> && std::is_same_v<decltype(w3), decltype(w)>);
            if (&w2.get() != &fo || &w3.get() != &fo) return "!get";
            r = call_fwd(w2, xc, a);
            g_log.clear();
            r = call_fwd(w3, xc, a);
        }
        else r = call_fwd(std::as_const(w), xc, a);
    }
    return "r=" + std::to_string(r) + " log=" + fmt_log();
}

// H: compiled in two halves (translation units): 0 = up to one bound argument, function pointer, pointers to members; 1 = two bound arguments
template <typename L, int H>
inline std::string bf_line(Line const& l)
{
    auto const& f  = l.str("f");
    auto const& b  = l.list("b");
    auto const& x  = l.list("x");
    long long q    = l.i("q");
    bool bl        = l.i("bl") == 1;
    g_log.clear();
    long long r = 0;
    int bcp     = 0;
    if (f == "fob") {
        auto const& xc = l.list("xc");
        if (b.size() > 2 || x.size() > 2 || xc.size() != x.size()) return "bad-op";
        std::pair<Trk, Trk> a{Trk(x.size() > 0 ? static_cast<int>(x[0]) : 0), Trk(x.size() > 1 ? static_cast<int>(x[1]) : 0)};
        Trk b0(b.size() > 0 ? static_cast<int>(b[0]) : 0), b1(b.size() > 1 ? static_cast<int>(b[1]) : 0);
        std::vector<long long> br = l.has("br") ? l.list("br") : std::vector<long long>(b.size(), 0);
        std::string act = l.has("act") ? l.str("act") : std::string("call");
        if (br.size() != b.size() || (act != "call" && act != "copy" && act != "move")) return "bad-op";
        auto go = [&](auto g) -> long long {
            auto run = [&](auto& w) -> long long {
                bcp = g_copies;
                return with_cat(q, w, [&](auto&& gg) -> long long { return call_fwd(FWD(gg), xc, a); });
            };
            if (act == "copy") { auto g2 = g; return run(g2); }
            if (act == "move") { auto g2 = std::move(g); return run(g2); }
            return run(g);
        };
        // a bound argument: the instrumented object as lvalue (bl=1) / rvalue (bl=0), or ref(int object) when br[i]=1
        // (a plain int referent: an implementation that unwraps the reference_wrapper into T& still compiles and is told apart by the log)
        int i0 = b.size() > 0 ? static_cast<int>(b[0]) : 0, i1 = b.size() > 1 ? static_cast<int>(b[1]) : 0;
        auto r0 = br.size() > 0 && br[0] == 1, r1 = br.size() > 1 && br[1] == 1;
        g_copies = 0;
        if constexpr (H == 0) {
            (void)i1; (void)r1;
            if (b.size() == 0) r = go(L::bind_front(Fob{6}));
            else if (b.size() == 1) {
                if (r0) r = go(L::bind_front(Fob{6}, L::ref(i0)));
                else r = bl ? go(L::bind_front(Fob{6}, b0)) : go(L::bind_front(Fob{6}, std::move(b0)));
            } else return "bad-op";
        } else {
            if (b.size() != 2) return "bad-op";
            if (r0 && r1) r = go(L::bind_front(Fob{6}, L::ref(i0), L::ref(i1)));
            else if (r0) r = bl ? go(L::bind_front(Fob{6}, L::ref(i0), b1)) : go(L::bind_front(Fob{6}, L::ref(i0), std::move(b1)));
            else if (r1) r = bl ? go(L::bind_front(Fob{6}, b0, L::ref(i1))) : go(L::bind_front(Fob{6}, std::move(b0), L::ref(i1)));
            else r = bl ? go(L::bind_front(Fob{6}, b0, b1)) : go(L::bind_front(Fob{6}, std::move(b0), std::move(b1)));
        }
    } else if constexpr (H == 1) { return "bad-op"; }
    else if (f == "fn") {
        if (b.size() + x.size() != 2) return "bad-op";
        if (b.size() == 0) r = with_cat(q, *std::make_unique<decltype(L::bind_front(&fn2))>(L::bind_front(&fn2)), [&](auto&& gg) -> long long { return FWD(gg)(static_cast<int>(x[0]), static_cast<int>(x[1])); });
        else if (b.size() == 1) { auto g = L::bind_front(&fn2, static_cast<int>(b[0])); r = with_cat(q, g, [&](auto&& gg) -> long long { return FWD(gg)(static_cast<int>(x[0])); }); }
        else { auto g = L::bind_front(&fn2, static_cast<int>(b[0]), static_cast<int>(b[1])); r = with_cat(q, g, [&](auto&& gg) -> long long { return FWD(gg)(); }); }
    } else if (f == "memfn" || f == "memdata") {
        // bind_front(pointer to member, object): the bound object is handed to INVOKE with the wrapper's qualification
        auto const& o = l.str("o");
        bool md       = f == "memdata";
        if (md ? !x.empty() : x.size() != 1) return "bad-op";
        int xv = md ? 0 : static_cast<int>(x[0]);
        Sc s;
        s.dm          = md ? static_cast<int>(l.i("v")) : 0;
        Sc const* cps = &s;
        // (when the rvalue call of such a wrapper does not compile against the tree under test the line reports "nc" instead of
        // stopping the harness build)
        constexpr bool rv_ok = !L::is_etl || C20_HAS_BF_MEMPTR_RV;
        if (md) {
            auto go = [&](auto g) -> long long {
                if constexpr (rv_ok) return with_cat(q, g, [&](auto&& gg) -> long long { return FWD(gg)(); });
                else return q == 0 ? g() : std::as_const(g)();
            };
            if (!rv_ok && q >= 2) return "nc";
            if (o == "obj") {
                if constexpr (!L::is_etl || C20_HAS_BF_MEMPTR_LV) r = go(L::bind_front(&Sc::dm, s));
                else return "nc";
            }
            else if (o == "ptr") r = go(L::bind_front(&Sc::dm, &s));
            else if (o == "cptr") r = go(L::bind_front(&Sc::dm, cps));
            else if (o == "refw") r = go(L::bind_front(&Sc::dm, L::ref(s)));
            else return "bad-op";
        } else {
            auto go = [&](auto g) -> long long {
                if constexpr (rv_ok) return with_cat(q, g, [&](auto&& gg) -> long long { return FWD(gg)(xv); });
                else return q == 0 ? g(xv) : std::as_const(g)(xv);
            };
            if (!rv_ok && q >= 2) return "nc";
            if (o == "obj") {
                switch (q) {
                case 0:
                    // (a tree whose lvalue call hands the bound object on as an rvalue cannot compile this call: "nc")
                    if constexpr (!L::is_etl || C20_HAS_BF_MEMPTR_LV) { auto g = L::bind_front(static_cast<pmf_l>(&Sc::q), s); r = g(xv); break; }
                    else return "nc";
                case 1: { auto const g = L::bind_front(static_cast<pmf_c>(&Sc::q), s); r = g(xv); break; }
                default:
                    if constexpr (rv_ok) {
                        if (q == 2) { auto g = L::bind_front(static_cast<pmf_r>(&Sc::q), s); r = std::move(g)(xv); }
                        else { auto const g = L::bind_front(static_cast<pmf_k>(&Sc::q), s); r = std::move(g)(xv); }
                    }
                    break;
                }
            } else if (o == "ptr") r = go(L::bind_front(static_cast<pmf_l>(&Sc::q), &s));
            else if (o == "cptr") r = go(L::bind_front(static_cast<pmf_c>(&Sc::q), cps));
            else if (o == "refw") r = go(L::bind_front(static_cast<pmf_l>(&Sc::q), L::ref(s)));
            else return "bad-op";
        }
    } else return "bad-op";
    return "r=" + std::to_string(r) + " log=" + fmt_log() + " bcp=" + std::to_string(bcp);
}

// nf f=memfn c=C q=Q p=P x=[v] | nf f=memdata c=C q=Q v=N: not_fn around a pointer to member; the object is the first call argument
template <typename L>
inline std::string nf_memptr(Line const& l)
{
    auto const& f = l.str("f");
    long long c = l.i("c"), q = l.i("q");
    g_log.clear();
    Sc s;
    bool r = false;
    if (f == "memfn") {
        auto const& x = l.list("x");
        if (x.size() != 1) return "bad-op";
        int xv = static_cast<int>(x[0]);
        s.pf   = l.i("p") == 1;
        auto go = [&](auto pm, auto&& obj) -> bool {
            auto g = L::not_fn(pm);
            return with_cat(q, g, [&](auto&& gg) -> bool { return FWD(gg)(FWD(obj), xv); });
        };
        switch (c) {
        case 0: r = go(static_cast<ppf_l>(&Sc::pq), s); break;
        case 1: r = go(static_cast<ppf_c>(&Sc::pq), std::as_const(s)); break;
        case 2: r = go(static_cast<ppf_r>(&Sc::pq), std::move(s)); break;
        default: r = go(static_cast<ppf_k>(&Sc::pq), std::move(std::as_const(s))); break;
        }
    } else if (f == "memdata") {
        s.dm   = static_cast<int>(l.i("v"));
        auto g = L::not_fn(&Sc::dm);
        r      = with_cat(q, g, [&](auto&& gg) -> bool { return with_cat(c, s, [&](auto&& obj) -> bool { return FWD(gg)(FWD(obj)); }); });
    } else return "bad-op";
    return "r=" + proto::fmt_bool(r) + " log=" + fmt_log();
}

// nfc f=fn p=P x=[a,b] | f=memfn c=C p=P x=[v] | f=memdata c=C v=N: the stateless not_fn<ConstFn>() (C++26; libstdc++ 12 does not
// have it: the reference is !INVOKE(ConstFn, args...))
// (g++-12 does not accept `&f != nullptr` as a constant expression for an inline, i.e. weak, function: the targets of
// not_fn<ConstFn>() therefore have internal linkage)
namespace {
struct ScN {
    int dm = 0;
    bool pf = false;
    bool pq(int x) & { record_v(11, 'l', {{'v', x}}); return pf; }
    bool pq(int x) const& { record_v(11, 'c', {{'v', x}}); return pf; }
    bool pq(int x) && { record_v(11, 'r', {{'v', x}}); return pf; }
    bool pq(int x) const&& { record_v(11, 'k', {{'v', x}}); return pf; }
};
[[maybe_unused]] bool npfn0(int a, int b) { record_v(12, '-', {{'v', a}, {'v', b}}); return false; }
[[maybe_unused]] bool npfn1(int a, int b) { record_v(12, '-', {{'v', a}, {'v', b}}); return true; }
using npf_l = bool (ScN::*)(int) &;
using npf_c = bool (ScN::*)(int) const&;
using npf_r = bool (ScN::*)(int) &&;
using npf_k = bool (ScN::*)(int) const&&;
} // namespace
template <bool Etl>
inline std::string nfc_line(Line const& l)
{
    auto const& f = l.str("f");
    g_log.clear();
    ScN s;
    bool r = false;
    auto neg = [&]<auto Fn>(auto&&... args) -> bool {
        if constexpr (Etl) {
            auto g = etl::not_fn<Fn>();
            static_assert(std::is_empty_v<decltype(g)>);
            return g(FWD(args)...);
        } else return !std::invoke(Fn, FWD(args)...);
    };
    if (f == "fn") {
        auto const& x = l.list("x");
        if (x.size() != 2) return "bad-op";
        int a = static_cast<int>(x[0]), b = static_cast<int>(x[1]);
        r = l.i("p") == 1 ? neg.template operator()<&npfn1>(a, b) : neg.template operator()<&npfn0>(a, b);
    } else if (f == "memfn") {
        auto const& x = l.list("x");
        if (x.size() != 1) return "bad-op";
        int xv = static_cast<int>(x[0]);
        s.pf   = l.i("p") == 1;
        switch (l.i("c")) {
        case 0: r = neg.template operator()<static_cast<npf_l>(&ScN::pq)>(s, xv); break;
        case 1: r = neg.template operator()<static_cast<npf_c>(&ScN::pq)>(std::as_const(s), xv); break;
        case 2: r = neg.template operator()<static_cast<npf_r>(&ScN::pq)>(std::move(s), xv); break;
        default: r = neg.template operator()<static_cast<npf_k>(&ScN::pq)>(std::move(std::as_const(s)), xv); break;
        }
    } else if (f == "memdata") {
        s.dm = static_cast<int>(l.i("v"));
        r    = with_cat(l.i("c"), s, [&](auto&& obj) -> bool { return neg.template operator()<&ScN::dm>(FWD(obj)); });
    } else return "bad-op";
    return "r=" + proto::fmt_bool(r) + " log=" + fmt_log();
}

template <typename L>
inline std::string nf_line(Line const& l)
{
    if (l.has("f")) return nf_memptr<L>(l);
    auto const& x  = l.list("x");
    auto const& xc = l.list("xc");
    if (x.size() != xc.size() || x.size() > 2) return "bad-op";
    std::pair<Trk, Trk> a{Trk(x.size() > 0 ? static_cast<int>(x[0]) : 0), Trk(x.size() > 1 ? static_cast<int>(x[1]) : 0)};
    g_log.clear();
    std::string act = l.has("act") ? l.str("act") : std::string("call");
    if (act != "call" && act != "copy" && act != "move") return "bad-op";
    auto g0 = L::not_fn(Pred{4, l.i("p") == 1});
    auto g1 = g0;            // a copy calls an equivalent target
    auto g  = act == "copy" ? g1 : (act == "move" ? decltype(g0)(std::move(g0)) : g0);
    bool r = with_cat(l.i("q"), g, [&](auto&& gg) -> bool {
        auto& [a0, a1] = a;
        if (xc.size() == 0) return FWD(gg)();
        return with_cat(xc[0], a0, [&](auto&& y0) -> bool {
            if (xc.size() == 1) return FWD(gg)(FWD(y0));
            return with_cat(xc[1], a1, [&](auto&& y1) -> bool { return FWD(gg)(FWD(y0), FWD(y1)); });
        });
    });
    return "r=" + proto::fmt_bool(r) + " log=" + fmt_log();
}

// ---------------------------------------------------------------- type-level facts reported at run time
// (only facts that are known to differ or that guard them; the obligations that hold are static_asserts below)
template <typename T>
concept has_std_tuple_size = requires { sizeof(std::tuple_size<T>); };
template <typename T>
concept has_get_by_type = requires(T& t) { get<long>(t); };

template <typename L>
inline std::string typeq_line(Line const& l)
{
    auto const& q = l.str("q");
    int x = 1, y = 2;
    (void)x; (void)y;
    using TI  = typename L::template tuple<int, long>;
    auto yes = [](bool b) { return proto::fmt_bool(b); };
    if (q == "make_pair_unwraps_refwrap")
        return yes(std::is_same_v<decltype(L::make_pair(L::ref(x), 1)), typename L::template pair<int&, int>>);
    if (q == "make_tuple_unwraps_refwrap")
        return yes(std::is_same_v<decltype(L::make_tuple(L::ref(x), 1)), typename L::template tuple<int&, int>>);
    if (q == "tuple_cat_value_types")
        return yes(std::is_same_v<decltype(L::tuple_cat(std::declval<TI>(), std::declval<typename L::template tuple<Mo>>())),
                                  typename L::template tuple<int, long, Mo>>);
    if (q == "tuple_cat_keeps_ref")
        return yes(std::is_same_v<decltype(L::tuple_cat(std::declval<typename L::template tuple<int&>>())), typename L::template tuple<int&>>);
    if (q == "tuple_cat_no_args") {
        if constexpr (L::is_etl && !C20_HAS_TCAT0) return "nc";
        else return yes(std::is_same_v<decltype(L::tuple_cat()), typename L::template tuple<>>);
    }
    if (q == "tuple_cat_pair_elements")
        return yes(std::is_same_v<decltype(L::tuple_cat(std::declval<typename L::template pair<int&, Mo>>(), std::declval<typename L::template tuple<int const> const&>())),
                                  typename L::template tuple<int&, Mo, int const>>);
    if (q == "tuple_cat_keeps_nested")
        return yes(std::is_same_v<decltype(L::tuple_cat(std::declval<typename L::template tuple<typename L::template tuple<int>>>())),
                                  typename L::template tuple<typename L::template tuple<int>>>);
    if (q == "tuple_copy_assignable") return yes(std::is_copy_assignable_v<TI>);
    if (q == "tuple_move_assignable") return yes(std::is_move_assignable_v<TI>);
    if (q == "tuple_get_by_type") return yes(has_get_by_type<TI>);
    if (q == "tuple_structured_binding") return yes(has_std_tuple_size<TI>);
    if (q == "pair_get_by_type") return yes(has_get_by_type<typename L::template pair<int, long>>);
    if (q == "tuple_converting_ctor")
        return yes(std::is_constructible_v<typename L::template tuple<long, long>, typename L::template tuple<int, int> const&>
                   && std::is_constructible_v<TI, typename L::template pair<int, long> const&>);
    if (q == "pair_ref_copy_assignable") return yes(std::is_copy_assignable_v<typename L::template pair<int&, int>>);
    return "bad-op";
}

template <typename L, bool Etl>
inline std::string calls_line(Line const& l)
{
    if (l.op == "invoke") return invoke_line<L>(l);
    if (l.op == "fref") return fref_line<Etl>(l, false);
    if (l.op == "ifn2") return fref_line<Etl>(l, true);
    if (l.op == "rw") return rw_line<L>(l);
    if (l.op == "nf") return nf_line<L>(l);
    if (l.op == "nfc") return nfc_line<Etl>(l);
    if (l.op == "typeq") return typeq_line<L>(l);
    return "bad-op";
}
#if C20_IN(16)
std::string part::calls_e(Line const& l) { return calls_line<E, true>(l); }
#endif
#if C20_IN(17)
std::string part::calls_s(Line const& l) { return calls_line<S, false>(l); }
#endif
#if C20_IN(18)
std::string part::bf_e0(Line const& l) { return bf_line<E, 0>(l); }
#endif
#if C20_IN(19)
std::string part::bf_e1(Line const& l) { return bf_line<E, 1>(l); }
#endif
#if C20_IN(20)
std::string part::bf_s0(Line const& l) { return bf_line<S, 0>(l); }
#endif
#if C20_IN(21)
std::string part::bf_s1(Line const& l) { return bf_line<S, 1>(l); }
#endif

// ---------------------------------------------------------------- inplace_function histories
// Closures: Size bytes, trivially copyable or not.  Non-trivial ones are tracked in a registry of
// live addresses so that a read of a destroyed closure / a construction over a live one is seen.
template <int Side>
struct Reg {
    static inline std::set<void const*> live;
    static inline std::string violation;
    static void born(void const* p) { if (!live.insert(p).second) violation = "!lifetime(construction-over-live-object)"; }
    static void dead(void const* p) { if (live.erase(p) == 0) violation = "!lifetime(destruction-of-dead-object)"; }
    static void used(void const* p) { if (live.count(p) == 0) violation = "!lifetime(use-of-destroyed-object)"; }
};
template <int N> struct Pad { char pad[N]; };
template <> struct Pad<0> { };

template <int Side, int Size, bool NonTrivial>
struct Clo;
template <int Side, int Size>
struct Clo<Side, Size, false> : Pad<Size - 8> {
    int id;
    int n;
    explicit Clo(int i) : Pad<Size - 8>{}, id(i), n(0) { }
    template <typename A>
    long long operator()(A&& x)
    {
        Entry e{id, 'l', {{'v', n}, {cat_of<A>(), static_cast<long long>(x)}}};
        g_log.push_back(e);
        ++n;
        return result_of(id, e.args);
    }
};
template <int Side, int Size>
struct Clo<Side, Size, true> : Pad<Size - 8> {
    int id;
    int n;
    explicit Clo(int i) : Pad<Size - 8>{}, id(i), n(0) { Reg<Side>::born(this); }
    Clo(Clo const& o) : Pad<Size - 8>{}, id(0), n(0) { Reg<Side>::used(&o); Reg<Side>::born(this); id = o.id; n = o.n; }
    Clo(Clo&& o) noexcept : Pad<Size - 8>{}, id(0), n(0) { Reg<Side>::used(&o); Reg<Side>::born(this); id = o.id; n = o.n; }
    Clo& operator=(Clo const& o) { Reg<Side>::used(&o); Reg<Side>::used(this); id = o.id; n = o.n; return *this; }
    ~Clo() { Reg<Side>::dead(this); }
    template <typename A>
    long long operator()(A&& x)
    {
        Reg<Side>::used(this);
        Entry e{id, 'l', {{'v', n}, {cat_of<A>(), static_cast<long long>(x)}}};
        g_log.push_back(e);
        ++n;
        return result_of(id, e.args);
    }
};
static_assert(sizeof(Clo<0, 8, false>) == 8 && sizeof(Clo<0, 12, true>) == 12 && sizeof(Clo<0, 32, true>) == 32);
static_assert(std::is_trivially_copyable_v<Clo<0, 16, false>> && !std::is_trivially_copyable_v<Clo<0, 16, true>>);

using Sig1 = long long(int);
// The named objects of a history belong to three specialisations (class 0: objects 0..2, class 1: objects 3..4, class 2:
// object 5).  Construction / assignment across classes goes through the converting constructors; it compiles when the
// destination's capacity and alignment accept the source's (is_valid_inplace_destination): class 0 from class 1 or 2.
struct EtlSide {
    static constexpr int side = 0;
    template <int Cls>
    using F = std::conditional_t<Cls == 0, etl::inplace_function<Sig1, 32>,
              std::conditional_t<Cls == 1, etl::inplace_function<Sig1, 16>, etl::inplace_function<Sig1, 24, 8>>>;
};
static_assert(!std::is_same_v<EtlSide::F<0>, EtlSide::F<1>> && !std::is_same_v<EtlSide::F<0>, EtlSide::F<2>> && !std::is_same_v<EtlSide::F<1>, EtlSide::F<2>>);
static_assert(EtlSide::F<0>::capacity::value == 32 && EtlSide::F<1>::capacity::value == 16 && EtlSide::F<2>::capacity::value == 24);
static_assert(EtlSide::F<0>::alignment::value % EtlSide::F<1>::alignment::value == 0 && EtlSide::F<0>::alignment::value % 8 == 0 && EtlSide::F<2>::alignment::value == 8);
struct StdSide {
    static constexpr int side = 1;
    template <int Cls> using F = std::function<Sig1>;
};
constexpr int cap_of_class(int cls) { return cls == 0 ? 32 : cls == 1 ? 16 : 24; }
constexpr bool from_ok(int dst, int src) { return dst == src || dst == 0; }

template <typename Sd>
struct Hist {
    template <int Cls> using F = typename Sd::template F<Cls>;
    template <int Cls> struct Slot { static constexpr int cls = Cls; std::optional<F<Cls>> f; };
    using R = Reg<Sd::side>;
    static constexpr int n_obj = 6;
    Slot<0> o0, o1, o2;
    Slot<1> s3, s4;
    Slot<2> a5;

    template <typename G>
    auto with(long long i, G&& g)
    {
        switch (i) {
        case 0: return g(o0);
        case 1: return g(o1);
        case 2: return g(o2);
        case 3: return g(s3);
        case 4: return g(s4);
        default: return g(a5);
        }
    }
    std::string fresh()
    {
        for (int i = 0; i < n_obj; ++i) with(i, [](auto& x) { x.f.reset(); return 0; });
        std::string leak = R::live.empty() ? "" : " !leak(" + std::to_string(R::live.size()) + ")";
        R::live.clear();
        R::violation.clear();
        for (int i = 0; i < n_obj; ++i) with(i, [](auto& x) { x.f.emplace(); return 0; });
        g_log.clear();
        return "ok" + state() + leak;
    }
    std::string state()
    {
        std::vector<long long> e;
        for (int i = 0; i < n_obj; ++i) e.push_back(with(i, [](auto& x) { return static_cast<bool>(*x.f) ? 1 : 0; }));
        std::string r = " e=" + proto::fmt_list(e) + " live=" + std::to_string(R::live.size()) + " log=" + fmt_log();
        if (!R::violation.empty()) { r += " " + R::violation; }
        return r;
    }
    // construct / assign a closure of run-time type ty = 2*sizeIndex + nontrivial; sizes 8, 12, 16, 24, 32 up to the capacity
    template <int Cap, typename G>
    static bool with_clo(long long ty, int id, G&& g)
    {
        auto one = [&](auto tag) { typename decltype(tag)::type c(id); g(c); return true; };
        constexpr int sd = Sd::side;
        switch (ty) {
        case 0: return one(std::type_identity<Clo<sd, 8, false>>{});
        case 1: return one(std::type_identity<Clo<sd, 8, true>>{});
        case 2: return one(std::type_identity<Clo<sd, 12, false>>{});
        case 3: return one(std::type_identity<Clo<sd, 12, true>>{});
        case 4: return one(std::type_identity<Clo<sd, 16, false>>{});
        case 5: return one(std::type_identity<Clo<sd, 16, true>>{});
        }
        if constexpr (Cap >= 24) {
        switch (ty) {
        case 6: return one(std::type_identity<Clo<sd, 24, false>>{});
        case 7: return one(std::type_identity<Clo<sd, 24, true>>{});
        }
        }
        if constexpr (Cap >= 32) {
        switch (ty) {
        case 8: return one(std::type_identity<Clo<sd, 32, false>>{});
        case 9: return one(std::type_identity<Clo<sd, 32, true>>{});
        }
        }
        return false;
    }
    template <int Cap, typename Fn>
    bool set_clo(std::optional<Fn>& dst, long long ty, int id, bool assign)
    {
        return with_clo<Cap>(ty, id, [&](auto& c) {
            bool rvalue = id % 2 == 1;
            if (assign) { if (rvalue) *dst = std::move(c); else *dst = c; }
            else { dst.reset(); if (rvalue) dst.emplace(std::move(c)); else dst.emplace(c); }
        });
    }
    // object d is constructed (assign = false) or assigned from object src handed over as an expression of category q
    template <typename D, typename S>
    static void from(D& d, S& src, long long q, bool assign)
    {
        if (assign) {
            switch (q) {
            case 0: *d.f = *src.f; break;
            case 1: *d.f = std::as_const(*src.f); break;
            case 2: *d.f = std::move(*src.f); break;
            default: *d.f = std::move(std::as_const(*src.f)); break;
            }
        } else {
            d.f.reset();
            switch (q) {
            case 0: d.f.emplace(*src.f); break;
            case 1: d.f.emplace(std::as_const(*src.f)); break;
            case 2: d.f.emplace(std::move(*src.f)); break;
            default: d.f.emplace(std::move(std::as_const(*src.f))); break;
            }
        }
    }
    std::string step(Line const& l)
    {
        auto const& op = l.str("op");
        long long i    = l.i("i");
        long long j    = l.i("j", -1);
        if (i < 0 || i >= n_obj || j >= n_obj) return "bad-op";
        g_log.clear();
        std::string r = "ok";
        std::string const bad = "bad-op";
        if (op == "ctor_empty") with(i, [](auto& d) { d.f.reset(); d.f.emplace(); return 0; });
        else if (op == "ctor_null") with(i, [](auto& d) { d.f.reset(); d.f.emplace(nullptr); return 0; });
        else if (op == "ctor_fn" || op == "assign_fn") {
            bool as = op == "assign_fn";
            bool ok = with(i, [&](auto& d) { return set_clo<cap_of_class(std::remove_reference_t<decltype(d)>::cls)>(d.f, l.i("ty"), int(l.i("id")), as); });
            if (!ok) return bad;
        } else if (op == "ctor_copy" || op == "ctor_move" || op == "ctor_from" || op == "assign" || op == "massign" || op == "assign_from") {
            // ctor_copy / assign: const lvalue source; ctor_move / massign: rvalue source; *_from: category q
            bool as     = op == "assign" || op == "massign" || op == "assign_from";
            long long q = (op == "ctor_copy" || op == "assign") ? 1 : (op == "ctor_move" || op == "massign") ? 2 : l.i("q", -1);
            if (j < 0 || q < 0 || q > 3 || (!as && i == j)) return bad;
            bool ok = with(i, [&](auto& d) {
                return with(j, [&](auto& src) {
                    using D = std::remove_reference_t<decltype(d)>;
                    using S = std::remove_reference_t<decltype(src)>;
                    if constexpr (from_ok(D::cls, S::cls)) { from(d, src, q, as); return true; }
                    else return false;
                });
            });
            if (!ok) return bad;
        } else if (op == "assign_null") with(i, [](auto& d) { *d.f = nullptr; return 0; });
        else if (op == "swap" || op == "fswap") {
            if (j < 0) return bad;
            bool fr = op == "fswap";
            bool ok = with(i, [&](auto& d) {
                return with(j, [&](auto& src) {
                    using D = std::remove_reference_t<decltype(d)>;
                    using S = std::remove_reference_t<decltype(src)>;
                    if constexpr (D::cls == S::cls) {
                        if (fr) { using std::swap; using etl::swap; swap(*d.f, *src.f); } else d.f->swap(*src.f);
                        return true;
                    } else return false;
                });
            });
            if (!ok) return bad;
        } else if (op == "call") {
            int x = int(l.i("x"));
            try {
                long long v = with(i, [&](auto& d) { return (*d.f)(x); });
                r           = "r=" + std::to_string(v);
            } catch (harness_raise const&) { r = "bad_function_call"; }
            catch (std::bad_function_call const&) { r = "bad_function_call"; }
        } else if (op == "bool") { r = std::string("b=") + (with(i, [](auto& d) { return static_cast<bool>(*d.f); }) ? "1" : "0"); }
        else if (op == "eqnull" || op == "nenull") {
            // f == nullptr / f != nullptr; the mirrored forms nullptr == f / nullptr != f must agree
            int code = with(i, [&](auto& d) {
                bool e1 = *d.f == nullptr, e2 = nullptr == *d.f, n1 = *d.f != nullptr, n2 = nullptr != *d.f;
                if (e1 != e2 || n1 != n2) return -1;
                return (op == "eqnull" ? e1 : n1) ? 1 : 0;
            });
            if (code < 0) return "!eqnull";
            r = std::string("b=") + (code ? "1" : "0");
        } else return bad;
        return r + state();
    }
};

#if C20_IN(22)
namespace {
Hist<EtlSide>& hist_e() { static Hist<EtlSide> h; return h; }
Hist<StdSide>& hist_s() { static Hist<StdSide> h; return h; }
bool g_started = false;
} // namespace
std::string part::ifn_new() { g_started = true; auto a = hist_e().fresh(); return a + "\t" + hist_s().fresh(); }
std::string part::ifn_step(Line const& l)
{
    if (!g_started) { hist_e().fresh(); hist_s().fresh(); g_started = true; }
    auto a = hist_e().step(l);
    return a + "\t" + hist_s().step(l);
}
#endif

#if C20_IN(23)
// ---------------------------------------------------------------- make_from_tuple: target types that tell T(x...) from T{x...}
// Every target records which of its constructors ran and what it received: 'c' a constructor with one parameter per argument
// (aggregate: the members), 'l' the initializer_list constructor.
namespace mft {
struct Built {
    char how;
    std::vector<long long> v;
};
#define C20_MFT_CTORS(T, X, P)                                                                                         \
    X T() : b{'c', {}} { }                                                                                             \
    X T(P x) : b{'c', {x}} { }                                                                                         \
    X T(P x, P y) : b{'c', {x, y}} { }                                                                                 \
    X T(P x, P y, P z) : b{'c', {x, y, z}} { }
struct Plain { Built b; C20_MFT_CTORS(Plain, , int) };
struct IL { Built b; C20_MFT_CTORS(IL, , int) IL(std::initializer_list<int> l) : b{'l', {l.begin(), l.end()}} { } };
struct ILW { Built b; C20_MFT_CTORS(ILW, , int) ILW(std::initializer_list<long> l) : b{'l', {l.begin(), l.end()}} { } };
struct Tag { explicit Tag(char const*) { } };
struct ILO { Built b; C20_MFT_CTORS(ILO, , int) ILO(std::initializer_list<Tag> l) : b{'l', {static_cast<long long>(l.size())}} { } };
struct Agg { int a; int b; int c; };
struct Expl { Built b; C20_MFT_CTORS(Expl, explicit, int) };
struct Nar { Built b; C20_MFT_CTORS(Nar, , short) };
static_assert(std::is_aggregate_v<Agg> && !std::is_aggregate_v<Plain>);
template <typename T> Built built(T const& t) { return t.b; }
inline Built built(Agg const& t) { return Built{'c', {t.a, t.b, t.c}}; }
inline std::string fmt(Built const& b) { return std::string("r=") + b.how + proto::fmt_list(b.v); }

template <typename L, typename E, std::size_t... I>
auto make_src(std::vector<long long> const& a, bool as_pair, std::index_sequence<I...>)
{
    (void)a;
    (void)as_pair;
    return typename L::template tuple<std::conditional_t<true, E, std::integral_constant<std::size_t, I>>...>(static_cast<E>(a[I])...);
}
// T from a tuple (or a pair) of N elements of type E, handed over with category q
template <typename L, typename T, typename E, std::size_t N>
std::string run(long long q, std::vector<long long> const& a, bool as_pair, bool brace)
{
    if (brace) {
        // the direct-list-initialisation T{e...} itself, compiled here (no library code): "-" when it is ill-formed
        auto t = make_src<S, E>(a, false, std::make_index_sequence<N>{});
        return [&]<std::size_t... I>(std::index_sequence<I...>) -> std::string {
            if constexpr (requires { T{std::get<I>(t)...}; }) return fmt(built(T{std::get<I>(t)...}));
            else return "r=-";
        }(std::make_index_sequence<N>{});
    }
    auto go = [&](auto& t) { return with_cat(q, t, [](auto&& x) { return fmt(built(L::template make_from_tuple<T>(FWD(x)))); }); };
    if constexpr (N == 2) {
        if (as_pair) {
            typename L::template pair<E, E> p(static_cast<E>(a[0]), static_cast<E>(a[1]));
            return go(p);
        }
    }
    auto t = make_src<L, E>(a, false, std::make_index_sequence<N>{});
    return go(t);
}
template <typename L, typename T, typename E>
std::string arity(long long q, std::vector<long long> const& a, bool as_pair, bool brace)
{
    switch (a.size()) {
    case 0: return run<L, T, E, 0>(q, a, as_pair, brace);
    case 1: return run<L, T, E, 1>(q, a, as_pair, brace);
    case 2: return run<L, T, E, 2>(q, a, as_pair, brace);
    case 3: return run<L, T, E, 3>(q, a, as_pair, brace);
    }
    return "bad-op";
}
template <typename L>
std::string line(Line const& l)
{
    long long q    = l.i("q");
    auto const& a  = l.list("a");
    bool as_pair   = l.has("src") && l.str("src") == "pair";
    bool brace     = l.has("form") && l.str("form") == "brace";
    if (q < 0 || q > 3 || a.size() > 3 || (as_pair && a.size() != 2)) return "bad-op";
    switch (l.i("tg")) {
    case 0: return arity<L, Plain, int>(q, a, as_pair, brace);
    case 1: return arity<L, IL, int>(q, a, as_pair, brace);
    case 2: return arity<L, ILW, int>(q, a, as_pair, brace);
    case 3: return arity<L, ILO, int>(q, a, as_pair, brace);
    case 4: return arity<L, Agg, int>(q, a, as_pair, brace);
    case 5: return arity<L, Expl, int>(q, a, as_pair, brace);
    // narrowing parameters: T(e...) is fine, T{e...} ill-formed; when the tree under test cannot compile these calls
    // (C20_HAS_MFT_NARROW = 0, from a compile probe) the line answers `nc`
    case 6:
        if constexpr (L::is_etl && !C20_HAS_MFT_NARROW) return brace ? arity<S, Agg, long>(q, a, as_pair, brace) : "nc";
        else return arity<L, Agg, long>(q, a, as_pair, brace);
    case 7:
        if constexpr (L::is_etl && !C20_HAS_MFT_NARROW) return brace ? arity<S, Nar, int>(q, a, as_pair, brace) : "nc";
        else return arity<L, Nar, int>(q, a, as_pair, brace);
    }
    return "bad-op";
}
} // namespace mft
std::string part::mft_line(Line const& l)
{
    auto a = mft::line<E>(l);
    return a + "\t" + mft::line<S>(l);
}

// ---------------------------------------------------------------- compile-time matrix: value categories (decltype)
// Every obligation is "the etl expression has exactly the type of the std expression".  A failing
// obligation is a compile error of this harness, which check.py reports as a machinery error.
namespace matrix {
template <typename... T> struct tl { };
using kinds = tl<int, Mo, Co, int&, int const, int&&, Trk>;
template <typename T, int Q> using qual_t = std::conditional_t<Q == 0, T&, std::conditional_t<Q == 1, T const&, std::conditional_t<Q == 2, T&&, T const&&>>>;

template <typename A, typename B, int Q>
constexpr bool pair_get()
{
    using EP = qual_t<etl::pair<A, B>, Q>;
    using SP = qual_t<std::pair<A, B>, Q>;
    return std::is_same_v<decltype(etl::get<0>(std::declval<EP>())), decltype(std::get<0>(std::declval<SP>()))>
        && std::is_same_v<decltype(etl::get<1>(std::declval<EP>())), decltype(std::get<1>(std::declval<SP>()))>;
}
template <typename A, typename B, int Q>
constexpr bool tuple_get()
{
    using ET = qual_t<etl::tuple<A, B, A>, Q>;
    using ST = qual_t<std::tuple<A, B, A>, Q>;
    return std::is_same_v<decltype(etl::get<0>(std::declval<ET>())), decltype(std::get<0>(std::declval<ST>()))>
        && std::is_same_v<decltype(etl::get<1>(std::declval<ET>())), decltype(std::get<1>(std::declval<ST>()))>
        && std::is_same_v<decltype(etl::get<2>(std::declval<ET>())), decltype(std::get<2>(std::declval<ST>()))>
        && std::is_same_v<etl::tuple_element_t<1, etl::tuple<A, B, A>>, std::tuple_element_t<1, std::tuple<A, B, A>>>
        && etl::tuple_size_v<etl::tuple<A, B, A>> == 3;
}
template <typename A, typename B>
constexpr bool pair_traits()
{
    using EP = etl::pair<A, B>;
    using SP = std::pair<A, B>;
    return std::is_copy_constructible_v<EP> == std::is_copy_constructible_v<SP>
        && std::is_move_constructible_v<EP> == std::is_move_constructible_v<SP>
        && std::is_copy_assignable_v<EP> == std::is_copy_assignable_v<SP>
        && std::is_move_assignable_v<EP> == std::is_move_assignable_v<SP>
        && std::is_same_v<etl::tuple_element_t<0, EP>, A> && std::is_same_v<etl::tuple_element_t<1, EP>, B>
        && etl::tuple_size_v<EP> == 2;
}
template <typename A, typename B>
constexpr bool cell()
{
    return pair_get<A, B, 0>() && pair_get<A, B, 1>() && pair_get<A, B, 2>() && pair_get<A, B, 3>()
        && tuple_get<A, B, 0>() && tuple_get<A, B, 1>() && tuple_get<A, B, 2>() && tuple_get<A, B, 3>()
        && pair_traits<A, B>();
}
template <typename A, typename... B> constexpr bool row(tl<B...>) { return (cell<A, B>() && ...); }
template <typename... A> constexpr bool all(tl<A...> k) { return (row<A>(k) && ...); }
static_assert(all(kinds{}), "get<I> on pair/tuple: value category or element type differs from std");

// forward / forward_like (reference implementation of std::forward_like from P2445)
template <typename T, typename U>
using fl_t = decltype(etl::forward_like<T>(std::declval<U>()));
template <typename T, typename U>
constexpr bool fl_ok()
{
    using UR = std::remove_reference_t<U>;
    using C  = std::conditional_t<std::is_const_v<std::remove_reference_t<T>>, UR const, UR>;
    using X  = std::conditional_t<std::is_lvalue_reference_v<T&&>, C&, C&&>;
    return std::is_same_v<fl_t<T, U>, X>;
}
template <typename T> constexpr bool fl_row() { return fl_ok<T, int&>() && fl_ok<T, int const&>() && fl_ok<T, int>() && fl_ok<T, int const>(); }
static_assert(fl_row<int&>() && fl_row<int const&>() && fl_row<int>() && fl_row<int const>() && fl_row<int&&>() && fl_row<int const&&>());
static_assert(std::is_same_v<decltype(etl::forward<int>(std::declval<int&>())), int&&>);
static_assert(std::is_same_v<decltype(etl::forward<int&>(std::declval<int&>())), int&>);
static_assert(std::is_same_v<decltype(etl::forward<int const&>(std::declval<int&>())), int const&>);
static_assert(std::is_same_v<decltype(etl::forward<int>(std::declval<int>())), int&&>);
static_assert(std::is_same_v<decltype(etl::forward<Mo const>(std::declval<Mo const&>())), Mo const&&>);

// invoke / apply / wrappers: result types
struct Md { int dm; int& rf() & ; int&& rr() &&; };
template <typename F, typename... A>
constexpr bool inv_ok = std::is_same_v<decltype(etl::invoke(std::declval<F>(), std::declval<A>()...)), decltype(std::invoke(std::declval<F>(), std::declval<A>()...))>;
static_assert(inv_ok<int Md::*, Md&> && inv_ok<int Md::*, Md const&> && inv_ok<int Md::*, Md> && inv_ok<int Md::*, Md const>);
static_assert(inv_ok<int Md::*, Md*> && inv_ok<int Md::*, Md const*>);
static_assert(inv_ok<int& (Md::*)() &, Md&> && inv_ok<int && (Md::*)() &&, Md> && inv_ok<int& (Md::*)() &, Md*>);
static_assert(inv_ok<int& (*)(int&), int&> && inv_ok<Mo && (*)(Mo&&), Mo>);
static_assert(std::is_same_v<decltype(etl::invoke(std::declval<int Md::*>(), std::declval<etl::reference_wrapper<Md>>())), int&>);
static_assert(std::is_same_v<decltype(etl::invoke(std::declval<int Md::*>(), std::declval<etl::reference_wrapper<Md const>>())), int const&>);
struct RetRef { int& operator()(int& x) const { return x; } Mo&& operator()(Mo&& m) const { return std::move(m); } Mo operator()(Mo& m, int) const { return std::move(m); } };
static_assert(std::is_same_v<decltype(etl::apply(RetRef{}, std::declval<etl::tuple<int&>>())), int&>);
static_assert(std::is_same_v<decltype(etl::apply(RetRef{}, std::declval<etl::tuple<Mo>>())), Mo&&>);
static_assert(std::is_same_v<decltype(etl::apply(RetRef{}, std::declval<etl::tuple<Mo, int>&>())), Mo>);
static_assert(std::is_same_v<decltype(etl::apply(RetRef{}, std::declval<etl::pair<Mo, int>&>())), Mo>);
static_assert(std::is_same_v<decltype(etl::ref(std::declval<RetRef&>())(std::declval<int&>())), int&>);
static_assert(std::is_same_v<decltype(etl::bind_front(RetRef{})(std::declval<int&>())), int&>);
static_assert(std::is_same_v<decltype(etl::bind_front(RetRef{})(std::declval<Mo>())), Mo&&>);
static_assert(std::is_same_v<decltype(etl::not_fn(RetRef{})(std::declval<int&>())), bool>);
static_assert(std::is_same_v<decltype(etl::make_from_tuple<Mo>(std::declval<etl::tuple<int>>())), Mo>);
static_assert(std::is_same_v<decltype(etl::forward_as_tuple(std::declval<int&>(), std::declval<Mo>(), std::declval<Co const&>())), etl::tuple<int&, Mo&&, Co const&>>);
static_assert(std::is_same_v<decltype(etl::tie(std::declval<int&>(), std::declval<Mo const&>())), etl::tuple<int&, Mo const&>>);
static_assert(std::is_same_v<decltype(etl::make_tuple(std::declval<int&>(), std::declval<Mo>(), std::declval<Co const&>())), etl::tuple<int, Mo, Co>>);
static_assert(std::is_same_v<decltype(etl::make_pair(std::declval<int const&>(), std::declval<Mo>())), etl::pair<int, Mo>>);
static_assert(std::is_same_v<decltype(etl::tuple_cat(std::declval<etl::tuple<int, Mo>>(), std::declval<etl::tuple<Co>&>())), etl::tuple<int, Mo, Co>>);
// get<T> on tuple and pair: the same types as std::get<T>, through the four reference qualifications
template <typename T, typename ET, typename ST>
constexpr bool get_t_ok = std::is_same_v<decltype(etl::get<T>(std::declval<ET&>())), decltype(std::get<T>(std::declval<ST&>()))>
    && std::is_same_v<decltype(etl::get<T>(std::declval<ET const&>())), decltype(std::get<T>(std::declval<ST const&>()))>
    && std::is_same_v<decltype(etl::get<T>(std::declval<ET&&>())), decltype(std::get<T>(std::declval<ST&&>()))>
    && std::is_same_v<decltype(etl::get<T>(std::declval<ET const&&>())), decltype(std::get<T>(std::declval<ST const&&>()))>;
static_assert(get_t_ok<int, etl::tuple<int, long>, std::tuple<int, long>> && get_t_ok<long, etl::tuple<int, long>, std::tuple<int, long>>);
static_assert(get_t_ok<int&, etl::tuple<int&, Mo>, std::tuple<int&, Mo>> && get_t_ok<Mo, etl::tuple<int&, Mo>, std::tuple<int&, Mo>>);
static_assert(get_t_ok<int const, etl::tuple<long, int const, Co>, std::tuple<long, int const, Co>> && get_t_ok<int&&, etl::tuple<long, int&&>, std::tuple<long, int&&>>);
static_assert(get_t_ok<int, etl::pair<int, long>, std::pair<int, long>> && get_t_ok<long, etl::pair<int, long>, std::pair<int, long>>);
static_assert(get_t_ok<int&, etl::pair<int&, Mo>, std::pair<int&, Mo>> && get_t_ok<Mo, etl::pair<int&, Mo>, std::pair<int&, Mo>>);
static_assert(get_t_ok<int const, etl::pair<long, int const>, std::pair<long, int const>>);
// structured bindings: std::tuple_size / std::tuple_element of an etl::tuple
static_assert(std::tuple_size_v<etl::tuple<int, Mo, int&>> == 3 && std::tuple_size_v<etl::tuple<int> const> == 1);
static_assert(std::is_same_v<std::tuple_element_t<2, etl::tuple<int, Mo, int&>>, int&> && std::is_same_v<std::tuple_element_t<0, etl::tuple<int, Mo> const>, int const>);
// ref / cref of a reference_wrapper do not nest
static_assert(std::is_same_v<decltype(etl::ref(std::declval<etl::reference_wrapper<int>&>())), etl::reference_wrapper<int>>);
static_assert(std::is_same_v<decltype(etl::cref(std::declval<etl::reference_wrapper<int>&>())), etl::reference_wrapper<int const>>);
// the free swap of tuples is the member swap
static_assert(noexcept(swap(std::declval<etl::tuple<int, long>&>(), std::declval<etl::tuple<int, long>&>())));
} // namespace matrix

#endif

// ---------------------------------------------------------------- main
#if C20_IN(-1)
int main(int argc, char** argv)
{
    return proto::run(argc, argv, [&](Line const& l) -> std::string {
        auto both = [&](std::string a, std::string b) { return a + "\t" + b; };
        if (l.op == "pair") { auto a = part::pair_e(l); return both(a, part::pair_s(l)); }
        using fn_t = std::string (*)(Line const&);
        if (l.op == "tuple") {
            static constexpr fn_t fe[4] = {part::tuple_e0, part::tuple_e1, part::tuple_e2, part::tuple_e3};
            static constexpr fn_t fs[4] = {part::tuple_s0, part::tuple_s1, part::tuple_s2, part::tuple_s3};
            int g  = tuple_line_group(l);
            auto a = fe[g](l);
            return both(a, fs[g](l));
        }
        if (l.op == "tcat") {
            static constexpr fn_t fe[3] = {part::tcat_e0, part::tcat_e1, part::tcat_e2};
            static constexpr fn_t fs[3] = {part::tcat_s0, part::tcat_s1, part::tcat_s2};
            int g  = tcat_group(l);
            auto a = fe[g](l);
            return both(a, fs[g](l));
        }
        if (l.op == "invoke" || l.op == "fref" || l.op == "ifn2" || l.op == "rw" || l.op == "nf" || l.op == "nfc" || l.op == "typeq") {
            auto a = part::calls_e(l);
            return both(a, part::calls_s(l));
        }
        if (l.op == "bf") {
            bool h = l.str("f") == "fob" && l.list("b").size() == 2;
            auto a = h ? part::bf_e1(l) : part::bf_e0(l);
            return both(a, h ? part::bf_s1(l) : part::bf_s0(l));
        }
        if (l.op == "mft") return part::mft_line(l);
        if (l.op == "new") return part::ifn_new();
        if (l.op == "ifn") return part::ifn_step(l);
        return "bad-op\tbad-op";
    });
}
#endif
