// C17 harness: etl::bitset<N> / etl::basic_bitset<N, Word> vs std::bitset<N> on the same case lines.
// A case is a history: `new N=<bits> w=<bs|8|16|32|64>` creates four default-constructed objects of
// the implementation type and four std::bitset<N>; the following lines operate on `o=0..3`.
// Every mutating line prints the observable state of its target: bits N-1..0, count, all/any/none.
#include "proto.hpp"

#include <etl/bitset.hpp>
#include <etl/string_view.hpp>

#include <bitset>
#include <memory>
#include <stdexcept>
#include <string>
#include <utility>

using proto::Line;

struct Box {
    virtual ~Box()                             = default;
    virtual std::string step(Line const& l)    = 0;
    virtual std::string dump_both(std::size_t) = 0;
};

static std::string out(std::string const& a, std::string const& b) { return a + "\t" + b; }

template <std::size_t N, typename Word> // Word = void: etl::bitset<N>
struct BoxT final : Box {
    static constexpr bool is_bs = std::is_void_v<Word>;
    using E = std::conditional_t<is_bs, etl::bitset<N>, etl::basic_bitset<N, std::conditional_t<is_bs, std::size_t, Word>>>;
    using S = std::bitset<N>;

    E e[4]{};
    S s[4]{};

    static std::string tail(std::string bits, std::size_t count, bool all, bool any, bool none)
    {
        return "s=" + bits + " c=" + std::to_string(count) + " f=" + proto::fmt_bool(all) + proto::fmt_bool(any)
             + proto::fmt_bool(none);
    }
    static std::string dump_e(E const& b)
    {
        std::string bits;
        for (std::size_t i = N; i-- > 0;) {
            if constexpr (is_bs) bits += b.test(i) ? '1' : '0';
            else bits += b[i] ? '1' : '0';
        }
        return tail(bits, b.count(), b.all(), b.any(), b.none());
    }
    static std::string dump_s(S const& b)
    {
        std::string bits;
        for (std::size_t i = N; i-- > 0;) bits += b.test(i) ? '1' : '0';
        return tail(bits, b.count(), b.all(), b.any(), b.none());
    }
    std::string dump_both(std::size_t o) override { return out(dump_e(e[o]), dump_s(s[o])); }

    std::string mutated(std::size_t o) { return out("ok " + dump_e(e[o]), "ok " + dump_s(s[o])); }

    std::string step(Line const& l) override
    {
        auto const& op = l.op;
        auto idx       = [&](char const* k) -> std::size_t {
            auto v = static_cast<std::size_t>(l.i(k));
            if (v >= 4) { std::fprintf(stderr, "object index out of range\n"); std::exit(2); }
            return v;
        };
        auto const o = l.has("o") ? idx("o") : 0;
        E& eo        = e[o];
        S& so        = s[o];

        if (op == "set_all") { eo.set(); so.set(); return mutated(o); }
        if (op == "reset_all") { eo.reset(); so.reset(); return mutated(o); }
        if (op == "flip_all") { eo.flip(); so.flip(); return mutated(o); }
        if (op == "set") {
            auto pos = static_cast<std::size_t>(l.i("pos"));
            bool v   = l.i("v") != 0;
            if constexpr (is_bs) eo.set(pos, v);
            else eo.unchecked_set(pos, v);
            so.set(pos, v);
            return mutated(o);
        }
        if (op == "reset") {
            auto pos = static_cast<std::size_t>(l.i("pos"));
            if constexpr (is_bs) eo.reset(pos);
            else eo.unchecked_reset(pos);
            so.reset(pos);
            return mutated(o);
        }
        if (op == "flip") {
            auto pos = static_cast<std::size_t>(l.i("pos"));
            if constexpr (is_bs) eo.flip(pos);
            else eo.unchecked_flip(pos);
            so.flip(pos);
            return mutated(o);
        }
        if (op == "ref_assign") {
            auto pos = static_cast<std::size_t>(l.i("pos"));
            bool v   = l.i("v") != 0;
            eo[pos]  = v;
            so[pos]  = v;
            return mutated(o);
        }
        if (op == "ref_flip") {
            auto pos = static_cast<std::size_t>(l.i("pos"));
            eo[pos].flip();
            so[pos].flip();
            return mutated(o);
        }
        if (op == "ref_copy") {
            auto pos  = static_cast<std::size_t>(l.i("pos"));
            auto spos = static_cast<std::size_t>(l.i("spos"));
            auto src  = idx("src");
            eo[pos]   = e[src][spos];
            so[pos]   = s[src][spos];
            return mutated(o);
        }
        if (op == "and") { auto r = idx("rhs"); eo &= e[r]; so &= s[r]; return mutated(o); }
        if (op == "or") { auto r = idx("rhs"); eo |= e[r]; so |= s[r]; return mutated(o); }
        if (op == "xor") { auto r = idx("rhs"); eo ^= e[r]; so ^= s[r]; return mutated(o); }
        if (op == "band") { auto a = idx("a"), b = idx("b"); eo = e[a] & e[b]; so = s[a] & s[b]; return mutated(o); }
        if (op == "bor") { auto a = idx("a"), b = idx("b"); eo = e[a] | e[b]; so = s[a] | s[b]; return mutated(o); }
        if (op == "bxor") { auto a = idx("a"), b = idx("b"); eo = e[a] ^ e[b]; so = s[a] ^ s[b]; return mutated(o); }
        if (op == "assign") { auto r = idx("src"); eo = e[r]; so = s[r]; return mutated(o); }
        if (op == "not") {
            if constexpr (is_bs) {
                auto r = idx("src");
                eo     = ~e[r];
                so     = ~s[r];
                return mutated(o);
            } else {
                return "bad-op\tbad-op";
            }
        }
        if (op == "from_ull") {
            auto v = (static_cast<unsigned long long>(l.i("hi")) << 32) | static_cast<unsigned long long>(l.i("lo"));
            eo     = E(v);
            so     = S(v);
            return mutated(o);
        }
        if (op == "from_str") {
            if constexpr (is_bs) {
                auto const& units = l.list("s");
                char zero         = static_cast<char>(l.i("zero", '0'));
                char one          = static_cast<char>(l.i("one", '1'));
                std::string ov    = l.has("ov") ? l.str("ov") : "sv";
                std::string str;
                for (auto u : units) str.push_back(static_cast<char>(u));
                bool deflt = !l.has("zero") && !l.has("one");
                if (ov == "sv") {
                    proto::heap_buf<char> hb(units); // exact size, no terminator
                    etl::string_view sv(hb.p, hb.n);
                    auto pos = l.pos("pos");
                    auto ne  = l.pos("n", etl::string_view::npos);
                    auto ns  = l.pos("n", std::string::npos);
                    if (deflt && l.at("n").kind == proto::Val::Npos && pos == 0) eo = E(sv); // all arguments defaulted
                    else if (deflt) eo = E(sv, pos, ne);
                    else eo = E(sv, pos, ne, zero, one);
                    try {
                        so = deflt ? S(str, pos, ns) : S(str, pos, ns, zero, one);
                    } catch (std::exception const&) {
                        return out("ok " + dump_e(eo), "throw");
                    }
                } else if (ov == "cstr") {
                    std::vector<long long> z(units);
                    z.push_back(0);
                    proto::heap_buf<char> hb(z); // exact size with terminator
                    auto ne = l.pos("n", etl::string_view::npos);
                    auto ns = l.pos("n", std::string::npos);
                    if (deflt && l.at("n").kind == proto::Val::Npos) eo = E(static_cast<char const*>(hb.p));
                    else if (deflt) eo = E(static_cast<char const*>(hb.p), ne);
                    else eo = E(static_cast<char const*>(hb.p), ne, zero, one);
                    try {
                        so = deflt ? S(hb.p, ns) : S(hb.p, ns, zero, one);
                    } catch (std::exception const&) {
                        return out("ok " + dump_e(eo), "throw");
                    }
                } else {
                    return "bad-op\tbad-op";
                }
                return mutated(o);
            } else {
                return "bad-op\tbad-op";
            }
        }
        if (op == "probe") {
            auto pos       = static_cast<std::size_t>(l.i("pos"));
            E const& ce    = eo;
            S const& cs    = so;
            std::string re = "", rs = "";
            if constexpr (is_bs) re += proto::fmt_bool(ce.test(pos));
            else re += proto::fmt_bool(ce.unchecked_test(pos));
            re += proto::fmt_bool(ce[pos]);
            re += proto::fmt_bool(static_cast<bool>(eo[pos]));
            re += proto::fmt_bool(~eo[pos]);
            rs += proto::fmt_bool(cs.test(pos));
            rs += proto::fmt_bool(cs[pos]);
            rs += proto::fmt_bool(static_cast<bool>(so[pos]));
            rs += proto::fmt_bool(~so[pos]);
            return out(re, rs);
        }
        if (op == "eq") {
            auto r = idx("rhs");
            return out(proto::fmt_bool(eo == e[r]), proto::fmt_bool(so == s[r]));
        }
        if (op == "to_ullong" || op == "to_ulong") {
            if constexpr (is_bs) {
                std::string re, rs;
                if (op == "to_ullong") {
                    if constexpr (requires(E const& x) { x.to_ullong(); }) re = std::to_string(std::as_const(eo).to_ullong());
                    else re = "absent";
                    try { rs = std::to_string(so.to_ullong()); } catch (std::overflow_error const&) { rs = "overflow"; }
                } else {
                    if constexpr (requires(E const& x) { x.to_ulong(); }) re = std::to_string(std::as_const(eo).to_ulong());
                    else re = "absent";
                    try { rs = std::to_string(so.to_ulong()); } catch (std::overflow_error const&) { rs = "overflow"; }
                }
                return out(re, rs);
            } else {
                return "bad-op\tbad-op";
            }
        }
        if (op == "to_string") {
            if constexpr (is_bs) {
                auto cap   = static_cast<std::size_t>(l.i("cap"));
                bool deflt = !l.has("zero") && !l.has("one");
                char zero  = static_cast<char>(l.i("zero", '0'));
                char one   = static_cast<char>(l.i("one", '1'));
                std::vector<long long> re, rs;
                auto units = [](auto const& str) {
                    std::vector<long long> r;
                    for (auto c : str) r.push_back(static_cast<unsigned char>(c));
                    return r;
                };
                E const& ce = eo;
                if (cap == N) re = deflt ? units(ce.template to_string<N>()) : units(ce.template to_string<N>(zero, one));
                else if (cap == N + 5) re = deflt ? units(ce.template to_string<N + 5>()) : units(ce.template to_string<N + 5>(zero, one));
                else return "bad-op\tbad-op";
                rs = deflt ? units(so.to_string()) : units(so.to_string(zero, one));
                return out(proto::fmt_list(re), proto::fmt_list(rs));
            } else {
                return "bad-op\tbad-op";
            }
        }
        return "bad-op\tbad-op";
    }
};

template <std::size_t N>
static std::unique_ptr<Box> make_w(std::string const& w)
{
    if (w == "bs") return std::make_unique<BoxT<N, void>>();
    if (w == "8") return std::make_unique<BoxT<N, std::uint8_t>>();
    if (w == "16") return std::make_unique<BoxT<N, std::uint16_t>>();
    if (w == "32") return std::make_unique<BoxT<N, std::uint32_t>>();
    if (w == "64") return std::make_unique<BoxT<N, std::uint64_t>>();
    return nullptr;
}

static std::unique_ptr<Box> make(long long n, std::string const& w)
{
    switch (n) {
#define W(K) case K: return make_w<K>(w);
        W(1) W(7) W(8) W(9) W(31) W(32) W(33) W(63) W(64) W(65) W(127) W(128) W(129)
#ifdef C17_MORE_WIDTHS
        W(2) W(3) W(15) W(16) W(17) W(100) W(191) W(192) W(193) W(200)
#endif
#undef W
        default: return nullptr;
    }
}

int main(int argc, char** argv)
{
    std::unique_ptr<Box> box;
    return proto::run(argc, argv, [&](Line const& l) -> std::string {
        if (l.op == "new") {
            box = make(l.i("N"), l.str("w"));
            if (!box) return "bad-op\tbad-op";
            return box->dump_both(0);
        }
        if (!box) return "bad-op\tbad-op";
        return box->step(l);
    });
}
