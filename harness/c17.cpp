// C17 harness: etl::bitset<N> / etl::basic_bitset<N, Word> vs std::bitset<N> on the same case lines.
// A case is a history: `new N=<bits> w=<bs|8|16|32|64>` creates four default-constructed objects of
// the implementation type and four std::bitset<N>; the following lines operate on `o=0..3`.
// Every mutating line prints the observable state of its target: bits N-1..0, count, all/any/none.
//
// Built WITH contract checks: every TETL_PRECONDITION of the members is live.  The generator produces only
// calls that satisfy the documented preconditions, with one exception: to_ulong / to_ullong are called on
// every state; when their contract ("the value fits") fails, the handler below returns control to the call
// site, which prints `overflow` (std::bitset: overflow_error).  A contract failure anywhere else aborts
// (reported as a crash on that line).
#define TETL_ENABLE_CONTRACT_CHECKS 1
#define TETL_ENABLE_CUSTOM_ASSERT_HANDLER 1
#include "proto.hpp"

#include <etl/bitset.hpp>
#include <etl/string_view.hpp>

#include <bitset>
#include <csetjmp>
#include <memory>
#include <stdexcept>
#include <string>
#include <utility>

using proto::Line;

static std::jmp_buf g_jmp;
static bool g_armed = false;

namespace etl {
template <typename Assertion>
[[noreturn]] auto assert_handler(Assertion const& msg) -> void
{
    if (g_armed) { std::longjmp(g_jmp, 1); }
    std::fprintf(stderr, "unexpected contract failure: %s:%d %s\n", msg.file ? msg.file : "?", msg.line,
                 msg.expression ? msg.expression : "");
    std::abort();
}
} // namespace etl

// Runs f() with the "value fits" contract armed: f's result, or `overflow` when the contract fails.
// (The jump leaves only frames without non-trivial destructors: to_unsigned_type, test, the handler.)
template <typename F>
[[gnu::noinline]] static std::string guarded(F f)
{
    unsigned long long volatile v = 0;
    if (setjmp(g_jmp) == 0) {
        g_armed = true;
        v       = f();
        g_armed = false;
        return std::to_string(v);
    }
    g_armed = false;
    return "overflow";
}

// character types of the string constructors / to_string: `ct=c|w|u8|u16|u32`
template <typename C>
using ustr = std::basic_string<C>;

struct Box {
    virtual ~Box()                             = default;
    virtual std::string step(Line const& l)    = 0;
    virtual std::string dump_both(std::size_t) = 0;
};

static std::string out(std::string const& a, std::string const& b) { return a + "\t" + b; }

template <std::size_t N, typename Word> // Word = void: etl::bitset<N>
struct BoxT final : Box {
    static constexpr bool is_bs = std::is_void_v<Word>;
    using E = std::conditional_t<is_bs, etl::bitset<N>, etl::basic_bitset<N, std::conditional_t<is_bs, std::size_t, Word>>>;
    using S = std::bitset<N>;

    // the character types other than char are instantiated at these widths only (compile time): the
    // character type and the width are independent in the code (one template, `CharT` only compared and copied)
    static constexpr bool wide_chars = N == 0 || N == 1 || N == 9 || N == 64 || N == 65 || N == 129;

    E e[4]{};
    S s[4]{};

    static std::string tail(std::string bits, std::size_t count, bool all, bool any, bool none)
    {
        return "s=" + bits + " c=" + std::to_string(count) + " f=" + proto::fmt_bool(all) + proto::fmt_bool(any)
             + proto::fmt_bool(none);
    }
    static std::string dump_e(E const& b)
    {
        std::string bits;
        for (std::size_t i = N; i-- > 0;) {
            if constexpr (is_bs) bits += b.test(i) ? '1' : '0';
            else bits += b[i] ? '1' : '0';
        }
        return tail(bits, b.count(), b.all(), b.any(), b.none());
    }
    static std::string dump_s(S const& b)
    {
        std::string bits;
        for (std::size_t i = N; i-- > 0;) bits += b.test(i) ? '1' : '0';
        return tail(bits, b.count(), b.all(), b.any(), b.none());
    }
    std::string dump_both(std::size_t o) override { return out(dump_e(e[o]), dump_s(s[o])); }

    std::string mutated(std::size_t o) { return out("ok " + dump_e(e[o]), "ok " + dump_s(s[o])); }

    // An absent key is an argument that is NOT passed: the overload is called with exactly the arguments
    // present on the line (trailing ones only), for tetl and for std alike.
    template <typename C>
    std::string from_str_t(Line const& l, std::size_t o)
    {
        E& eo             = e[o];
        S& so             = s[o];
        auto const& units = l.list("s");
        std::string ov    = l.has("ov") ? l.str("ov") : "sv";
        bool hp = l.has("pos"), hn = l.has("n"), hz = l.has("zero"), h1 = l.has("one");
        C zero = static_cast<C>(l.i("zero", '0'));
        C one  = static_cast<C>(l.i("one", '1'));
        ustr<C> str;
        for (auto u : units) str.push_back(static_cast<C>(u));
        using SV = etl::basic_string_view<C>;
        if (ov == "sv") {
            if ((hn && !hp) || (hz && !hn) || (h1 && !hz)) return "bad-op\tbad-op";
            proto::heap_buf<C> hb(units); // exact size, no terminator
            SV sv(hb.p, hb.n);
            auto pos = hp ? l.pos("pos") : 0;
            auto ne  = hn ? l.pos("n", SV::npos) : SV::npos;
            auto ns  = hn ? l.pos("n", ustr<C>::npos) : ustr<C>::npos;
            if (h1) eo = E(sv, pos, ne, zero, one);
            else if (hz) eo = E(sv, pos, ne, zero);
            else if (hn) eo = E(sv, pos, ne);
            else if (hp) eo = E(sv, pos);
            else eo = E(sv);
            try {
                if (h1) so = S(str, pos, ns, zero, one);
                else if (hz) so = S(str, pos, ns, zero);
                else if (hn) so = S(str, pos, ns);
                else if (hp) so = S(str, pos);
                else so = S(str);
            } catch (std::exception const&) {
                return out("ok " + dump_e(eo), "throw");
            }
        } else if (ov == "cstr") {
            if (hp || (hz && !hn) || (h1 && !hz)) return "bad-op\tbad-op";
            // `s` is the WHOLE allocation the pointer points at: an exact-size heap buffer with nothing appended.
            // With an explicit n the generator sends n or more units and NO terminator (a read of unit n + k
            // beyond the list lands in the ASan red zone; null characters among the units are digits of an
            // alphabet that contains CharT(0)); only the npos form carries a terminator (sent by the generator).
            auto ne = hn ? l.pos("n", SV::npos) : SV::npos;
            auto ns = hn ? l.pos("n", ustr<C>::npos) : ustr<C>::npos;
            bool terminated = false;
            for (auto u : units) terminated = terminated || static_cast<C>(u) == C(0);
            if (ne == SV::npos ? !terminated : ne > units.size()) return "bad-op\tbad-op"; // precondition of both
            proto::heap_buf<C> hb(units);
            C const* cp = hb.p;
            if (h1) eo = E(cp, ne, zero, one);
            else if (hz) eo = E(cp, ne, zero);
            else if (hn) eo = E(cp, ne);
            else eo = E(cp);
            try {
                if (h1) so = S(cp, ns, zero, one);
                else if (hz) so = S(cp, ns, zero);
                else if (hn) so = S(cp, ns);
                else so = S(cp);
            } catch (std::exception const&) {
                return out("ok " + dump_e(eo), "throw");
            }
        } else {
            return "bad-op\tbad-op";
        }
        return mutated(o);
    }

    template <typename C>
    std::string to_string_t(Line const& l, std::size_t o)
    {
        E const& ce = e[o];
        S const& cs = s[o];
        auto cap    = static_cast<std::size_t>(l.i("cap"));
        bool hz = l.has("zero"), h1 = l.has("one");
        if (h1 && !hz) return "bad-op\tbad-op";
        C zero = static_cast<C>(l.i("zero", '0'));
        C one  = static_cast<C>(l.i("one", '1'));
        std::vector<long long> re, rs;
        // the result is an inplace string of capacity Cap (cap == N: exactly the digits): its size, its
        // characters and the terminator behind them (`c_str()[size()]`, reported as -1 when it is not CharT(0))
        auto units = [](auto const& str) {
            std::vector<long long> r;
            for (auto c : str) r.push_back(static_cast<long long>(static_cast<std::make_unsigned_t<
                std::conditional_t<std::is_same_v<C, char8_t> || std::is_same_v<C, char16_t> || std::is_same_v<C, char32_t>,
                    std::conditional_t<sizeof(C) == 1, unsigned char, std::conditional_t<sizeof(C) == 2, unsigned short, unsigned>>,
                    C>>>(c)));
            if constexpr (requires { str.c_str(); str.capacity(); }) {
                if (str.size() > str.capacity() || str.c_str()[str.size()] != C(0)) r.push_back(-1);
            }
            return r;
        };
        auto call = [&]<std::size_t Cap>() {
            if (h1) return units(ce.template to_string<Cap, C>(zero, one));
            if (hz) return units(ce.template to_string<Cap, C>(zero));
            return units(ce.template to_string<Cap, C>());
        };
        if (cap == N) re = call.template operator()<N>();
        else if (cap == N + 5) re = call.template operator()<N + 5>();
        else return "bad-op\tbad-op";
        if (h1) rs = units(cs.template to_string<C>(zero, one));
        else if (hz) rs = units(cs.template to_string<C>(zero));
        else rs = units(cs.template to_string<C>());
        return out(proto::fmt_list(re), proto::fmt_list(rs));
    }

    std::string step(Line const& l) override
    {
        auto const& op = l.op;
        auto idx       = [&](char const* k) -> std::size_t {
            auto v = static_cast<std::size_t>(l.i(k));
            if (v >= 4) { std::fprintf(stderr, "object index out of range\n"); std::exit(2); }
            return v;
        };
        auto const o = l.has("o") ? idx("o") : 0;
        E& eo        = e[o];
        S& so        = s[o];

        if (op == "set_all") { eo.set(); so.set(); return mutated(o); }
        if (op == "reset_all") { eo.reset(); so.reset(); return mutated(o); }
        if (op == "flip_all") { eo.flip(); so.flip(); return mutated(o); }
        if (op == "set") {
            auto pos = static_cast<std::size_t>(l.i("pos"));
            if (!l.has("v")) { // `value` left to its default
                if constexpr (is_bs) eo.set(pos);
                else eo.unchecked_set(pos);
                so.set(pos);
                return mutated(o);
            }
            bool v = l.i("v") != 0;
            if constexpr (is_bs) eo.set(pos, v);
            else eo.unchecked_set(pos, v);
            so.set(pos, v);
            return mutated(o);
        }
        if (op == "reset") {
            auto pos = static_cast<std::size_t>(l.i("pos"));
            if constexpr (is_bs) eo.reset(pos);
            else eo.unchecked_reset(pos);
            so.reset(pos);
            return mutated(o);
        }
        if (op == "flip") {
            auto pos = static_cast<std::size_t>(l.i("pos"));
            if constexpr (is_bs) eo.flip(pos);
            else eo.unchecked_flip(pos);
            so.flip(pos);
            return mutated(o);
        }
        if (op == "ref_assign") {
            auto pos = static_cast<std::size_t>(l.i("pos"));
            bool v   = l.i("v") != 0;
            eo[pos]  = v;
            so[pos]  = v;
            return mutated(o);
        }
        if (op == "ref_flip") {
            auto pos = static_cast<std::size_t>(l.i("pos"));
            eo[pos].flip();
            so[pos].flip();
            return mutated(o);
        }
        if (op == "ref_copy") {
            auto pos  = static_cast<std::size_t>(l.i("pos"));
            auto spos = static_cast<std::size_t>(l.i("spos"));
            auto src  = idx("src");
            eo[pos]   = e[src][spos];
            so[pos]   = s[src][spos];
            return mutated(o);
        }
        if (op == "and") { auto r = idx("rhs"); eo &= e[r]; so &= s[r]; return mutated(o); }
        if (op == "or") { auto r = idx("rhs"); eo |= e[r]; so |= s[r]; return mutated(o); }
        if (op == "xor") { auto r = idx("rhs"); eo ^= e[r]; so ^= s[r]; return mutated(o); }
        if (op == "band") { auto a = idx("a"), b = idx("b"); eo = e[a] & e[b]; so = s[a] & s[b]; return mutated(o); }
        if (op == "bor") { auto a = idx("a"), b = idx("b"); eo = e[a] | e[b]; so = s[a] | s[b]; return mutated(o); }
        if (op == "bxor") { auto a = idx("a"), b = idx("b"); eo = e[a] ^ e[b]; so = s[a] ^ s[b]; return mutated(o); }
        if (op == "assign") { auto r = idx("src"); eo = e[r]; so = s[r]; return mutated(o); }
        if (op == "not") {
            if constexpr (is_bs) {
                auto r = idx("src");
                eo     = ~e[r];
                so     = ~s[r];
                return mutated(o);
            } else {
                return "bad-op\tbad-op";
            }
        }
        if (op == "from_ull") {
            auto v = (static_cast<unsigned long long>(l.i("hi")) << 32) | static_cast<unsigned long long>(l.i("lo"));
            eo     = E(v);
            so     = S(v);
            return mutated(o);
        }
        if (op == "from_str") {
            if constexpr (is_bs) {
                std::string ct = l.has("ct") ? l.str("ct") : "c";
                if (ct == "c") return from_str_t<char>(l, o);
                if constexpr (wide_chars) {
                    if (ct == "w") return from_str_t<wchar_t>(l, o);
                    if (ct == "u8") return from_str_t<char8_t>(l, o);
                    if (ct == "u16") return from_str_t<char16_t>(l, o);
                    if (ct == "u32") return from_str_t<char32_t>(l, o);
                }
                return "bad-op\tbad-op";
            } else {
                return "bad-op\tbad-op";
            }
        }
        if (op == "probe") {
            auto pos       = static_cast<std::size_t>(l.i("pos"));
            E const& ce    = eo;
            S const& cs    = so;
            std::string re = "", rs = "";
            if constexpr (is_bs) re += proto::fmt_bool(ce.test(pos));
            else re += proto::fmt_bool(ce.unchecked_test(pos));
            re += proto::fmt_bool(ce[pos]);
            re += proto::fmt_bool(static_cast<bool>(eo[pos]));
            re += proto::fmt_bool(~eo[pos]);
            rs += proto::fmt_bool(cs.test(pos));
            rs += proto::fmt_bool(cs[pos]);
            rs += proto::fmt_bool(static_cast<bool>(so[pos]));
            rs += proto::fmt_bool(~so[pos]);
            return out(re, rs);
        }
        if (op == "eq") {
            auto r = idx("rhs");
            return out(proto::fmt_bool(eo == e[r]), proto::fmt_bool(so == s[r]));
        }
        if (op == "to_ullong" || op == "to_ulong") {
            if constexpr (is_bs) {
                std::string re, rs;
                E const& ce = eo;
                if (op == "to_ullong") {
                    re = guarded([&] { return static_cast<unsigned long long>(ce.to_ullong()); });
                    try { rs = std::to_string(so.to_ullong()); } catch (std::overflow_error const&) { rs = "overflow"; }
                } else {
                    re = guarded([&] { return static_cast<unsigned long long>(ce.to_ulong()); });
                    try { rs = std::to_string(so.to_ulong()); } catch (std::overflow_error const&) { rs = "overflow"; }
                }
                return out(re, rs);
            } else {
                return "bad-op\tbad-op";
            }
        }
        if (op == "to_string") {
            if constexpr (is_bs) {
                std::string ct = l.has("ct") ? l.str("ct") : "c";
                if (ct == "c") return to_string_t<char>(l, o);
                if constexpr (wide_chars) {
                    if (ct == "w") return to_string_t<wchar_t>(l, o);
                    if (ct == "u8") return to_string_t<char8_t>(l, o);
                    if (ct == "u16") return to_string_t<char16_t>(l, o);
                    if (ct == "u32") return to_string_t<char32_t>(l, o);
                }
                return "bad-op\tbad-op";
            } else {
                return "bad-op\tbad-op";
            }
        }
        return "bad-op\tbad-op";
    }
};

template <std::size_t N>
static std::unique_ptr<Box> make_w(std::string const& w)
{
    if (w == "bs") return std::make_unique<BoxT<N, void>>();
    if (w == "8") return std::make_unique<BoxT<N, std::uint8_t>>();
    if (w == "16") return std::make_unique<BoxT<N, std::uint16_t>>();
    if (w == "32") return std::make_unique<BoxT<N, std::uint32_t>>();
    if (w == "64") return std::make_unique<BoxT<N, std::uint64_t>>();
    return nullptr;
}

static std::unique_ptr<Box> make(long long n, std::string const& w)
{
    switch (n) {
#define W(K) case K: return make_w<K>(w);
        W(0) W(1) W(7) W(8) W(9) W(31) W(32) W(33) W(63) W(64) W(65) W(127) W(128) W(129)
#ifdef C17_MORE_WIDTHS
        W(2) W(3) W(15) W(16) W(17) W(100) W(191) W(192) W(193) W(200)
#endif
#undef W
        default: return nullptr;
    }
}

int main(int argc, char** argv)
{
    std::unique_ptr<Box> box;
    return proto::run(argc, argv, [&](Line const& l) -> std::string {
        if (l.op == "new") {
            box = make(l.i("N"), l.str("w"));
            if (!box) return "bad-op\tbad-op";
            return box->dump_both(0);
        }
        if (!box) return "bad-op\tbad-op";
        return box->step(l);
    });
}
