// C02 harness — "valid use never leaves the caller's memory, never allocates, never hits UB".
//
// One line = one valid operation (or one step of a valid history) on the real tetl type and on the
// libstdc++/glibc counterpart: `<impl result> \t <std result>`.  What this harness adds to the
// harnesses of the owning properties (C01, C04, C06, C08, C09, C10, C11, C14, C17, C18, C19) are the
// observers no model carries (c02_guard.hpp): every library object on an exact-size heap chunk,
// every caller range on an exact-size heap chunk without terminator or slack, allocation counting
// while a library call is on the stack (` alloc=<n>` in the impl column), default- as well as
// value-initialised objects over poisoned storage (the whole harness is built with
// -ftrivial-auto-var-init=pattern, so automatic objects are poisoned too), and capacities
// 0/1/15/16/255/256.  ASan/UBSan (-fno-sanitize-recover) turn an out-of-range access, a signed
// overflow, an invalid shift … into `ub(<kind>)` for the line.
//
// The operations are split over three files by clause of the property:
//   c02_containers.inc   vec.* set.* bits.*         containers (histories; `<x>.new` starts one)
//   c02_strings.inc      str.* sv.*                 inplace_string (histories), string_view
//   c02_ranges.inc       alg.* span.*               algorithms, spans / mdspan
//   c02_text.inc         cc.* cs.* num.* chr.*      character conversion, C strings, bit/numeric helpers, calendar kernels
//
// Build: one translation unit (no -DC02_PART; used by checks/c02_try.py), or five objects compiled in
// parallel by checks/props/c02.py: -DC02_PART=0 (main + dispatch + the allocation hooks) and
// -DC02_PART=1..4 (one part each).
#if defined(C02_PART) && C02_PART != 0
#define C02_GUARD_NO_DEFS // the hook and the operator new family are defined once, in part 0
#endif
#include "c02_guard.hpp"

using proto::Line;

#if !defined(C02_PART)
// each returns true when the operation belongs to it; `out` = "impl\tstd"
static bool step_containers(Line const& l, std::string& out);
static bool step_strings(Line const& l, std::string& out);
static bool step_ranges(Line const& l, std::string& out);
static bool step_text(Line const& l, std::string& out);
#include "c02_containers.inc"
#include "c02_strings.inc"
#include "c02_ranges.inc"
#include "c02_text.inc"
#define C02_CALL(part) step_##part(l, out)
#elif C02_PART == 0
bool c02_step_containers(Line const& l, std::string& out);
bool c02_step_strings(Line const& l, std::string& out);
bool c02_step_ranges(Line const& l, std::string& out);
bool c02_step_text(Line const& l, std::string& out);
#define C02_CALL(part) c02_step_##part(l, out)
#elif C02_PART == 1
static bool step_containers(Line const& l, std::string& out);
#include "c02_containers.inc"
bool c02_step_containers(Line const& l, std::string& out) { return step_containers(l, out); }
#elif C02_PART == 2
static bool step_strings(Line const& l, std::string& out);
#include "c02_strings.inc"
bool c02_step_strings(Line const& l, std::string& out) { return step_strings(l, out); }
#elif C02_PART == 3
static bool step_ranges(Line const& l, std::string& out);
#include "c02_ranges.inc"
bool c02_step_ranges(Line const& l, std::string& out) { return step_ranges(l, out); }
#elif C02_PART == 4
static bool step_text(Line const& l, std::string& out);
#include "c02_text.inc"
bool c02_step_text(Line const& l, std::string& out) { return step_text(l, out); }
#endif

#if !defined(C02_PART) || C02_PART == 0
static std::string step(Line const& l)
{
    std::string out;
    if (C02_CALL(containers) || C02_CALL(strings) || C02_CALL(ranges) || C02_CALL(text)) return out;
    return "bad-op\tbad-op";
}

int main(int argc, char** argv)
{
    std::atexit(c02::write_stats);
    return proto::run(argc, argv, c02::observed(step));
}
#endif
