// C16 sweep: etl vs glibc libm over very many inputs, in C++ only (no line protocol, no sanitizers, -O2, threads).
// Prints at most MAXREP mismatching inputs per function and type as ordinary C16 case lines
// (`u t=32 f=ceil x=...`, `b t=64 f=fmod x=... y=...`) — checks/props/c16.py feeds them through the four-sided
// comparison — and one final line `STATS ...` with the number of inputs per family.
//
//   c16_sweep quick|thorough <seed>
//     f32 unary : quick = 2^24 stratified patterns (every sign x exponent x {boundary mantissas, seeded random});
//                 thorough = all 2^32 patterns
//     f64 unary : every sign x exponent x {boundary mantissas, seeded random}
//     binary    : boundary grid x boundary grid, plus seeded random pairs (uniform bits / nearby exponents)
#include <etl/cmath.hpp>

#include <atomic>
#include <cmath>
#include <cstdint>
#include <cstdio>
#include <cstring>
#include <mutex>
#include <string>
#include <thread>
#include <vector>

template <typename T> struct bits_of;
template <> struct bits_of<float> { using type = std::uint32_t; };
template <> struct bits_of<double> { using type = std::uint64_t; };
template <typename T> using bits_t = typename bits_of<T>::type;
template <typename T> static auto fromb(bits_t<T> b) -> T { return __builtin_bit_cast(T, b); }
template <typename T> static auto tob(T x) -> bits_t<T> { return __builtin_bit_cast(bits_t<T>, x); }

static constexpr int MAXREP = 6;
static std::mutex g_mu;
static std::vector<std::string> g_lines;
static std::atomic<long> g_rep[2][32];
static std::atomic<long long> g_count_u32{0}, g_count_u64{0}, g_count_b32{0}, g_count_b64{0}, g_mismatch{0};

static char const* UN[] = {"floor", "ceil", "trunc", "round", "rint", "lrint", "llrint", "fabs", "abs", "signbit",
    "isnan", "isinf", "isfinite"};
static char const* BN[] = {"copysign", "fmin", "fmax", "fdim", "fmod", "remainder", "nextafter"};

// NaN results: the payload is never compared; `same_sign` (fabs, abs, copysign) compares the sign bit of a NaN result too
template <typename T> static bool same(T a, T b) { return (a != a && b != b) || tob(a) == tob(b); }
template <typename T> static bool same_sign(T a, T b)
{
    bits_t<T> const sign = bits_t<T>(1) << (sizeof(T) * 8 - 1);
    return (a != a && b != b && ((tob(a) ^ tob(b)) & sign) == 0) || tob(a) == tob(b);
}
static bool same(long a, long b) { return a == b; }
static bool same(long long a, long long b) { return a == b; }
static bool same(bool a, bool b) { return a == b; }

template <typename T> static long long sgn64(bits_t<T> b) { return static_cast<long long>(static_cast<std::uint64_t>(b)); }

template <typename T> static void report_u(int fi, bits_t<T> xb)
{
    g_mismatch++;
    int ti = sizeof(T) == 4 ? 0 : 1;
    if (g_rep[ti][fi]++ >= MAXREP) return;
    char buf[160];
    std::snprintf(buf, sizeof buf, "u t=%d f=%s x=%lld", sizeof(T) == 4 ? 32 : 64, UN[fi], sgn64<T>(xb));
    std::lock_guard<std::mutex> lk(g_mu);
    g_lines.emplace_back(buf);
}
template <typename T> static void report_b(int fi, bits_t<T> xb, bits_t<T> yb)
{
    g_mismatch++;
    int ti = sizeof(T) == 4 ? 0 : 1;
    if (g_rep[ti][16 + fi]++ >= MAXREP) return;
    char buf[200];
    std::snprintf(buf, sizeof buf, "b t=%d f=%s x=%lld y=%lld", sizeof(T) == 4 ? 32 : 64, BN[fi], sgn64<T>(xb), sgn64<T>(yb));
    std::lock_guard<std::mutex> lk(g_mu);
    g_lines.emplace_back(buf);
}

template <typename T> static void check_unary(bits_t<T> xb)
{
    T x = fromb<T>(xb);
    if (!same(etl::floor(x), std::floor(x))) report_u<T>(0, xb);
    if (!same(etl::ceil(x), std::ceil(x))) report_u<T>(1, xb);
    if (!same(etl::trunc(x), std::trunc(x))) report_u<T>(2, xb);
    if (!same(etl::round(x), std::round(x))) report_u<T>(3, xb);
    if (!same(etl::rint(x), std::rint(x))) report_u<T>(4, xb);
    if (!same(etl::lrint(x), std::lrint(x))) report_u<T>(5, xb);
    if (!same(etl::llrint(x), std::llrint(x))) report_u<T>(6, xb);
    if (!same_sign(etl::fabs(x), std::fabs(x))) report_u<T>(7, xb);
    if (!same_sign(etl::abs(x), std::abs(x))) report_u<T>(8, xb);
    if (!same(etl::signbit(x), std::signbit(x))) report_u<T>(9, xb);
    if (!same(etl::isnan(x), std::isnan(x))) report_u<T>(10, xb);
    if (!same(etl::isinf(x), std::isinf(x))) report_u<T>(11, xb);
    if (!same(etl::isfinite(x), std::isfinite(x))) report_u<T>(12, xb);
}

template <typename T> static void check_binary(bits_t<T> xb, bits_t<T> yb)
{
    T x = fromb<T>(xb), y = fromb<T>(yb);
    if (!same_sign(etl::copysign(x, y), std::copysign(x, y))) report_b<T>(0, xb, yb);
    // C leaves open: the sign of fmin/fmax of two zeros of opposite sign, and signaling NaNs (C17 F.2.1)
    bool const zeros = x == 0 && y == 0 && std::signbit(x) != std::signbit(y);
    bits_t<T> const quiet = bits_t<T>(1) << (sizeof(T) == 4 ? 22 : 51);
    bool const snan = (x != x && !(xb & quiet)) || (y != y && !(yb & quiet));
    if (!zeros && !snan && !same(etl::fmin(x, y), std::fmin(x, y))) report_b<T>(1, xb, yb);
    if (!zeros && !snan && !same(etl::fmax(x, y), std::fmax(x, y))) report_b<T>(2, xb, yb);
    if (!same(etl::fdim(x, y), std::fdim(x, y))) report_b<T>(3, xb, yb);
    if (!same(etl::fmod(x, y), std::fmod(x, y))) report_b<T>(4, xb, yb);
    if (!same(etl::remainder(x, y), std::remainder(x, y))) report_b<T>(5, xb, yb);
    if (!same(etl::nextafter(x, y), std::nextafter(x, y))) report_b<T>(6, xb, yb);
}

struct Rng { // splitmix64
    std::uint64_t s;
    auto next() -> std::uint64_t
    {
        std::uint64_t z = (s += 0x9E3779B97F4A7C15ull);
        z               = (z ^ (z >> 30)) * 0xBF58476D1CE4E5B9ull;
        z               = (z ^ (z >> 27)) * 0x94D049BB133111EBull;
        return z ^ (z >> 31);
    }
};

template <typename U> static auto boundary_mantissas(int mbits) -> std::vector<U>
{
    std::vector<U> v;
    U const top = (U(1) << mbits) - 1;
    for (U k = 0; k < 48; ++k) { v.push_back(k); v.push_back(top - k); }
    for (int k = 0; k < mbits; ++k) {
        U p = U(1) << k;
        v.push_back(p);
        v.push_back(p - 1);
        v.push_back((p + 1) & top);
        v.push_back(top ^ p);             // all ones except one bit
        v.push_back((top << k) & top);    // k trailing zeros
        v.push_back(((top << k) & top) | (p >> 1)); // exact .5 pattern at position k
    }
    return v;
}

template <typename T> static auto grid() -> std::vector<bits_t<T>>
{
    using U         = bits_t<T>;
    int const mbits = sizeof(T) == 4 ? 23 : 52;
    int const ebits = sizeof(T) == 4 ? 8 : 11;
    U const sign    = U(1) << (mbits + ebits);
    int const bias  = (1 << (ebits - 1)) - 1;
    std::vector<U> pos;
    auto mk = [&](int e, U m) { pos.push_back((U(e) << mbits) | m); };
    U const top = (U(1) << mbits) - 1;
    for (int e : {0, 1, 2, bias - mbits - 1, bias - mbits, bias - 2, bias - 1, bias, bias + 1, bias + 2, bias + mbits - 1,
             bias + mbits, bias + mbits + 1, bias + 30, bias + 31, bias + 62, bias + 63, bias + 64, (1 << ebits) - 2}) {
        for (U m : {U(0), U(1), top, top - 1, U(1) << (mbits - 1), (U(1) << (mbits - 1)) + 1, (U(1) << (mbits - 1)) - 1,
                 U(1) << (mbits - 2), U(3) << (mbits - 2)})
            mk(e, m);
    }
    mk((1 << ebits) - 1, 0);                     // inf
    mk((1 << ebits) - 1, U(1) << (mbits - 1));   // qNaN
    mk((1 << ebits) - 1, 1);                     // sNaN
    std::vector<U> all;
    for (U p : pos) { all.push_back(p); all.push_back(p | sign); }
    return all;
}

template <typename F> static void parallel(unsigned n, F f)
{
    std::vector<std::thread> th;
    for (unsigned k = 0; k < n; ++k) th.emplace_back([=] { f(k, n); });
    for (auto& t : th) t.join();
}

int main(int argc, char** argv)
{
    bool const thorough = argc > 1 && std::string(argv[1]) == "thorough";
    std::uint64_t const seed = argc > 2 ? std::strtoull(argv[2], nullptr, 10) : 1;
    unsigned nt = std::thread::hardware_concurrency();
    if (nt == 0) nt = 4;

    // ---- f32 unary
    if (thorough) {
        parallel(nt, [&](unsigned k, unsigned n) {
            std::uint64_t lo = (std::uint64_t(1) << 32) * k / n, hi = (std::uint64_t(1) << 32) * (k + 1) / n;
            for (std::uint64_t b = lo; b < hi; ++b) check_unary<float>(static_cast<std::uint32_t>(b));
            g_count_u32 += static_cast<long long>(hi - lo);
        });
    } else {
        auto const bm = boundary_mantissas<std::uint32_t>(23);
        parallel(nt, [&](unsigned k, unsigned n) {
            long long cnt = 0;
            for (unsigned se = k; se < 512; se += n) {
                std::uint32_t base = static_cast<std::uint32_t>(se) << 23;
                Rng r{seed * 1000003ull + se};
                for (auto m : bm) { check_unary<float>(base | m); ++cnt; }
                for (std::size_t i = bm.size(); i < 32768; ++i) { check_unary<float>(base | (r.next() & 0x7FFFFFu)); ++cnt; }
            }
            g_count_u32 += cnt;
        });
    }
    // ---- f64 unary
    {
        auto const bm        = boundary_mantissas<std::uint64_t>(52);
        std::size_t const nr = thorough ? 60000 : 3000;
        parallel(nt, [&](unsigned k, unsigned n) {
            long long cnt = 0;
            for (unsigned se = k; se < 4096; se += n) {
                std::uint64_t base = static_cast<std::uint64_t>(se) << 52;
                Rng r{seed * 7000003ull + se};
                for (auto m : bm) { check_unary<double>(base | m); ++cnt; }
                for (std::size_t i = 0; i < nr; ++i) { check_unary<double>(base | (r.next() & 0xFFFFFFFFFFFFFull)); ++cnt; }
            }
            g_count_u64 += cnt;
        });
    }
    // ---- binary
    auto const g32 = grid<float>();
    auto const g64 = grid<double>();
    parallel(nt, [&](unsigned k, unsigned n) {
        long long c32 = 0, c64 = 0;
        for (std::size_t i = k; i < g32.size(); i += n)
            for (auto y : g32) { check_binary<float>(g32[i], y); ++c32; }
        for (std::size_t i = k; i < g64.size(); i += n)
            for (auto y : g64) { check_binary<double>(g64[i], y); ++c64; }
        Rng r{seed * 31337ull + k};
        long long const nr = (thorough ? 60000000ll : 3000000ll) / n;
        for (long long i = 0; i < nr; ++i) {
            std::uint64_t a = r.next(), b = r.next(), c = r.next();
            // f32: uniform bits, or y = x with the exponent lowered by 0..40 and a fresh mantissa, or a grid value
            std::uint32_t x32 = static_cast<std::uint32_t>(a), y32 = static_cast<std::uint32_t>(b);
            switch (c & 3) {
            case 1: {
                int ex = static_cast<int>((x32 >> 23) & 0xFF) - static_cast<int>((c >> 8) % 41);
                if (ex < 0) ex = 0;
                y32 = (y32 & 0x807FFFFFu) | (static_cast<std::uint32_t>(ex) << 23);
                break;
            }
            case 2: y32 = g32[(c >> 8) % g32.size()]; break;
            case 3: x32 = g32[(c >> 8) % g32.size()]; break;
            default: break;
            }
            check_binary<float>(x32, y32);
            ++c32;
            std::uint64_t x64 = r.next(), y64 = r.next();
            switch ((c >> 2) & 3) {
            case 1: {
                int ex = static_cast<int>((x64 >> 52) & 0x7FF) - static_cast<int>((c >> 16) % 80);
                if (ex < 0) ex = 0;
                y64 = (y64 & 0x800FFFFFFFFFFFFFull) | (static_cast<std::uint64_t>(ex) << 52);
                break;
            }
            case 2: y64 = g64[(c >> 16) % g64.size()]; break;
            case 3: x64 = g64[(c >> 16) % g64.size()]; break;
            default: break;
            }
            check_binary<double>(x64, y64);
            ++c64;
        }
        g_count_b32 += c32;
        g_count_b64 += c64;
    });

    for (auto const& l : g_lines) std::puts(l.c_str());
    std::printf("STATS unary32=%lld unary64=%lld binary32=%lld binary64=%lld unary_functions=13 binary_functions=7 mismatches=%lld threads=%u\n",
        g_count_u32.load(), g_count_u64.load(), g_count_b32.load(), g_count_b64.load(), g_mismatch.load(), nt);
    return 0;
}
