// C02 compile-time leg (DESIGN §4 C02): the same kernels evaluated inside static_assert.
//
// GCC's constant evaluator is the observer: it rejects a read of an indeterminate value (a
// default-initialised member without initializer), any access outside an object (one past a
// `constexpr` array of exactly the needed size, one past an inline buffer), signed overflow, an
// invalid shift, a division by zero and every call of an allocation function that is not undone.
// Each case is ONE line `CT(<id>, <constant expression of type bool>)`; this file is compiled with
// `g++ -std=c++20 -fsyntax-only` by checks/props/c02.py, every diagnostic is mapped back to the
// case on its line, and a failing case is a violation of C02 with the diagnostic as the witness
// (or a known finding when its id is listed in known_findings.d/C02.json).
// Objects are DEFAULT-initialised (`T v;`) wherever the type allows.
#include <etl/algorithm.hpp>
#include <etl/array.hpp>
#include <etl/bit.hpp>
#include <etl/bitset.hpp>
#include <etl/charconv.hpp>
#include <etl/chrono.hpp>
#include <etl/cstring.hpp>
#include <etl/flat_set.hpp>
#include <etl/inplace_vector.hpp>
#include <etl/numeric.hpp>
#include <etl/set.hpp>
#include <etl/span.hpp>
#include <etl/string.hpp>
#include <etl/string_view.hpp>
#include <etl/utility.hpp>
#include <etl/vector.hpp>

#define CT(id, ...) static_assert((__VA_ARGS__), #id);

namespace ct {

// ------------------------------------------------------------------ containers
template <typename V>
constexpr auto vec_default() -> bool
{
    V v; // default-initialisation
    return v.size() == 0 && v.empty() && v.begin() == v.end();
}

template <typename V>
constexpr auto vec_fill_cycle() -> bool
{
    V v;
    auto const cap = v.capacity();
    for (etl::size_t i = 0; i < cap; ++i) v.push_back(static_cast<int>(i));
    if (v.size() != cap || !v.full()) return false;
    long sum = 0;
    for (auto x : v) sum += x;
    if (cap > 0) {
        v.pop_back();
        v.insert(v.begin(), 7);      // exact fit again: rotate over the whole buffer
        v.erase(v.begin(), v.end()); // whole range
    }
    v.resize(cap);
    v.clear();
    return v.empty() && sum == static_cast<long>(cap) * static_cast<long>(cap > 0 ? cap - 1 : 0) / 2;
}

template <typename V>
constexpr auto ipv_fill_cycle() -> bool
{
    V v{}; // value-initialised: the default-initialised form is case ipv_default_*
    auto const cap = v.capacity();
    for (etl::size_t i = 0; i < cap; ++i) {
        if (i % 2 == 0) v.unchecked_push_back(static_cast<int>(i));
        else if (v.try_emplace_back(static_cast<int>(i)) == nullptr) return false;
    }
    if (v.size() != cap) return false;
    if (v.try_push_back(1) != nullptr) return false; // full: must not write
    while (!v.empty()) v.pop_back();
    return v.size() == 0;
}

template <typename S>
constexpr auto str_default() -> bool
{
    S s;
    return s.size() == 0 && s.empty() && *s.c_str() == '\0' && s.begin() == s.end();
}

template <typename S>
constexpr auto str_fill_cycle() -> bool
{
    S s;
    auto const cap = s.capacity();
    for (etl::size_t i = 0; i < cap; ++i) s.push_back(static_cast<char>('a' + i % 26));
    if (s.size() != cap || s.c_str()[cap] != '\0') return false;
    s.append(4, 'x'); // clamped: nothing fits
    s.append("xy", 2); // clamped: nothing fits
    s += 'z';
    if (s.size() != cap || s.c_str()[cap] != '\0') return false;
    auto const last = cap > 0 ? s.find(s[cap - 1], cap - 1) : S::npos;
    if (cap > 0 && last != cap - 1) return false;
    if (s.find('#', cap) != S::npos || s.find_last_of("a", S::npos) == cap) return false;
    if (cap > 0) {
        s.pop_back();
        s.insert(0, 1, 'z'); // exact fit
        s.erase(0, S::npos);
    }
    s.resize(cap, 'q');
    auto sub = s.substr(cap, S::npos);
    s.clear();
    return s.empty() && sub.empty() && *s.c_str() == '\0';
}

template <typename Set>
constexpr auto set_cycle() -> bool
{
    Set s;
    auto const cap = s.max_size();
    if (!s.empty() || s.contains(1)) return false;
    for (etl::size_t i = 0; i < cap; ++i) s.insert(static_cast<int>(cap - i));
    if (s.size() != cap) return false;
    if (cap > 0 && (!s.contains(1) || s.contains(0) || *s.begin() != 1)) return false;
    if (cap > 0) {
        s.insert(1); // present key while full
        s.erase(static_cast<int>(cap));
        s.erase(12345); // absent key
    }
    return s.size() == (cap > 0 ? cap - 1 : 0) && s.lower_bound(0) == s.begin();
}

template <etl::size_t N>
constexpr auto bitset_cycle() -> bool
{
    etl::bitset<N> b;
    if (b.any() || b.count() != 0) return false;
    b.set(0).set(N - 1).flip(N / 2);
    auto c = b.count();
    b.flip();
    if (b.count() != N - c) return false;
    b.set();
    if (!b.all() || b.count() != N) return false;
    b.reset(N - 1);
    return !b.test(N - 1) && b.count() == N - 1;
}

// ------------------------------------------------------------------ views on arrays of exactly the needed size (no terminator)
inline constexpr char abc[3]  = {'a', 'b', 'c'};
inline constexpr char bc[2]   = {'b', 'c'};
inline constexpr char cd[2]   = {'c', 'd'};
inline constexpr char abcd[4] = {'a', 'b', 'c', 'd'};
using sv                      = etl::string_view;
inline constexpr sv H{abc, 3};
inline constexpr sv E{abc, 0}; // empty view
inline constexpr auto np = sv::npos;

constexpr auto sv_copy_exact() -> bool
{
    char d[2]{};
    auto n = H.copy(d, np, 1); // exactly 2 units fit
    char z[1]{};
    auto k = H.copy(z, 5, 3); // pos == size(): nothing copied
    return n == 2 && d[0] == 'b' && d[1] == 'c' && k == 0;
}

// ------------------------------------------------------------------ algorithms on exact-size arrays
constexpr auto alg_cycle() -> bool
{
    etl::array<int, 6> a{5, 1, 4, 1, 3, 2};
    etl::array<int, 6> out{};
    etl::copy(a.begin(), a.end(), out.begin()); // exact fit
    etl::sort(a.begin(), a.end());
    auto u = etl::unique(a.begin(), a.end());
    etl::rotate(a.begin(), a.begin() + 1, u);
    etl::reverse(a.begin(), a.end());
    auto r = etl::remove(out.begin(), out.end(), 1);
    etl::fill_n(out.begin(), 6, 9); // exactly to the end
    etl::copy_backward(a.begin(), a.begin() + 3, a.end());
    auto e = etl::search(a.begin(), a.end(), out.begin(), out.begin()); // empty needle
    auto f = etl::find_end(a.begin(), a.end(), out.begin(), out.end());
    auto l = etl::lower_bound(out.begin(), out.end(), 100);
    auto m = etl::mismatch(a.begin(), a.end(), out.begin(), out.end());
    etl::array<int, 0> z{};
    etl::sort(z.begin(), z.end());
    etl::reverse(z.begin(), z.end());
    return r == out.begin() + 4 && e == a.begin() && f == a.end() && l == out.end() && m.first == a.begin()
        && etl::find(z.begin(), z.end(), 1) == z.end();
}

constexpr auto alg_shift_merge() -> bool
{
    etl::array<int, 5> a{1, 2, 3, 4, 5};
    etl::shift_left(a.begin(), a.end(), 5);  // n == size: nothing moves
    etl::shift_right(a.begin(), a.end(), 4); // one element survives
    etl::array<int, 3> x{1, 3, 5};
    etl::array<int, 2> y{2, 4};
    etl::array<int, 5> o{};
    etl::merge(x.begin(), x.end(), y.begin(), y.end(), o.begin()); // exact fit
    etl::array<int, 5> w{1, 3, 5, 2, 4};
    etl::inplace_merge(w.begin(), w.begin() + 3, w.end());
    etl::nth_element(w.begin(), w.begin() + 4, w.end());
    etl::partial_sort(w.begin(), w.end(), w.end());
    return a[4] == 1 && o == etl::array<int, 5>{1, 2, 3, 4, 5} && w == o && etl::is_sorted(w.begin(), w.end());
}

// ------------------------------------------------------------------ character conversion into exact-fit buffers
template <typename T, int Len>
constexpr auto to_chars_len(T v, int base) -> int // returns the number of characters written, -1 on value_too_large
{
    if constexpr (Len == 0) {
        char one[1]{};
        auto r = etl::to_chars(one + 1, one + 1, v, base); // empty range at the end of an object: any write is outside
        return r.ec != etl::errc{} ? -1 : static_cast<int>(r.ptr - (one + 1));
    } else {
        char buf[Len]{};
        auto r = etl::to_chars(buf, buf + Len, v, base);
        if (r.ec != etl::errc{}) return -1;
        return static_cast<int>(r.ptr - buf);
    }
}

constexpr auto from_chars_unterminated() -> bool
{
    char const d[3] = {'1', '2', '7'}; // digits up to the very end of the array
    signed char v   = 0;
    auto r          = etl::from_chars(d, d + 3, v);
    char const m[1] = {'-'};
    int w           = 5;
    auto q          = etl::from_chars(m, m + 1, w);
    auto e          = etl::from_chars(m, m, w); // empty input
    return r.ptr == d + 3 && v == 127 && q.ptr == m && w == 5 && e.ptr == m;
}

// ------------------------------------------------------------------ C strings in arrays of exactly strlen+1
constexpr auto cstr_cycle() -> bool
{
    char const s[4] = {'a', 'b', 'c', '\0'};
    char const t[1] = {'\0'};
    char d[4]{};
    etl::strcpy(d, s); // exact fit
    char e[3]{'x', 'y', 'z'};
    etl::strncpy(e, s, 3); // no terminator written, none needed
    char f[6]{'a', 'b', '\0', 'q', 'q', 'q'};
    etl::strcat(f, s); // exactly strlen(f)+strlen(s)+1 = 6
    return etl::strlen(s) == 3 && etl::strlen(t) == 0 && etl::strcmp(d, s) == 0 && etl::strcmp(t, s) < 0 && e[2] == 'c'
        && etl::strchr(s, 'c') == s + 2 && etl::strchr(s, 0) == s + 3 && etl::strrchr(s, 'z') == nullptr
        && etl::strstr(s, "c") == s + 2 && etl::strstr(s, t) == s && etl::strspn(s, "ab") == 2 && etl::strcspn(s, t) == 3
        && etl::strpbrk(s, "xc") == s + 2 && etl::strncmp(s, "abd", 2) == 0 && etl::strlen(f) == 5;
}

// ------------------------------------------------------------------ bit / numeric helpers at the limits
template <typename T>
constexpr auto num_limits() -> bool
{
    constexpr auto lo = etl::numeric_limits<T>::min();
    constexpr auto hi = etl::numeric_limits<T>::max();
    auto ok           = etl::midpoint(lo, hi) <= 0 && etl::midpoint(hi, lo) >= -1 && etl::midpoint(hi, hi) == hi
           && etl::midpoint(lo, lo) == lo;
    ok = ok && etl::add_sat(hi, hi) == hi && etl::add_sat(lo, lo) == lo && etl::add_sat(lo, hi) == T(-1);
    ok = ok && etl::div_sat(lo, T(-1)) == hi && etl::div_sat(hi, T(-1)) == T(lo + 1) && etl::saturate_cast<T>(etl::numeric_limits<unsigned long long>::max()) == hi;
    ok = ok && etl::gcd(hi, hi) == hi && etl::gcd(T(lo + 1), hi) == hi && etl::lcm(hi, T(1)) == hi && etl::lcm(T(0), T(0)) == 0;
    ok = ok && etl::cmp_less(lo, 0U) && !etl::cmp_less(0U, lo) && etl::in_range<T>(hi) && etl::abs(T(lo + 1)) == hi;
    return ok;
}

template <typename U>
constexpr auto bit_limits() -> bool
{
    constexpr int w  = etl::numeric_limits<U>::digits;
    constexpr U top  = U(U(1) << (w - 1));
    constexpr U ones = U(~U(0));
    auto ok          = etl::rotl(top, 1) == 1 && etl::rotr(U(1), 1) == top && etl::rotl(ones, w) == ones && etl::rotl(U(1), -1) == top;
    ok               = ok && etl::rotl(U(1), etl::numeric_limits<int>::min()) == U(1) && etl::rotr(U(1), etl::numeric_limits<int>::max()) == U(2);
    ok = ok && etl::countl_zero(U(0)) == w && etl::countr_zero(U(0)) == w && etl::countl_one(ones) == w && etl::popcount(ones) == w;
    ok = ok && etl::bit_width(ones) == w && etl::bit_floor(ones) == top && etl::bit_ceil(top) == top && etl::bit_ceil(U(0)) == 1;
    ok = ok && etl::has_single_bit(top) && !etl::has_single_bit(U(0));
    return ok;
}

// ------------------------------------------------------------------ calendar kernels at the limits of the supported range
constexpr auto chrono_limits() -> bool
{
    using namespace etl::chrono;
    auto lo  = year_month_day{sys_days{days{-12687428}}}; // -32767-01-01
    auto hi  = year_month_day{sys_days{days{11248737}}};  // 32767-12-31
    auto ok  = int(lo.year()) == -32767 && unsigned(lo.month()) == 1 && unsigned(lo.day()) == 1;
    ok       = ok && int(hi.year()) == 32767 && unsigned(hi.month()) == 12 && unsigned(hi.day()) == 31;
    ok       = ok && sys_days{hi}.time_since_epoch().count() == 11248737 && sys_days{lo}.time_since_epoch().count() == -12687428;
    auto wd  = weekday{sys_days{days{-12687428}}};
    auto w2  = weekday{6} + days{etl::numeric_limits<int>::max()};
    auto w3  = weekday{0} - days{etl::numeric_limits<int>::min() + 1};
    auto m2  = month{12} + months{etl::numeric_limits<int>::max()};
    auto m3  = month{1} - months{etl::numeric_limits<int>::max()};
    auto ym  = year_month{year{2020}, month{12}} + months{1};
    auto l29 = year_month_day_last{year{2000}, month_day_last{month{2}}}.day();
    auto l31 = year_month_day_last{year{1999}, month_day_last{month{12}}}.day();
    return ok && wd.ok() && w2.ok() && w3.ok() && m2.ok() && m3.ok() && int(ym.year()) == 2021 && unsigned(l29) == 29
        && unsigned(l31) == 31 && !year_month_day{year{2021}, month{13}, day{1}}.ok() && year{-32768}.is_leap();
}

} // namespace ct

// ================================================================== the cases, one per line
// ---- containers: default-initialised objects at the layout boundaries
CT(sv_default_0, ct::vec_default<etl::static_vector<int, 0>>())
CT(sv_default_1, ct::vec_default<etl::static_vector<int, 1>>())
CT(sv_default_15, ct::vec_default<etl::static_vector<int, 15>>())
CT(sv_default_16, ct::vec_default<etl::static_vector<int, 16>>())
CT(sv_default_255, ct::vec_default<etl::static_vector<int, 255>>())
CT(sv_default_256, ct::vec_default<etl::static_vector<int, 256>>())
CT(sv_cycle_0, ct::vec_fill_cycle<etl::static_vector<int, 0>>())
CT(sv_cycle_1, ct::vec_fill_cycle<etl::static_vector<int, 1>>())
CT(sv_cycle_15, ct::vec_fill_cycle<etl::static_vector<int, 15>>())
CT(sv_cycle_16, ct::vec_fill_cycle<etl::static_vector<int, 16>>())
CT(sv_cycle_255, ct::vec_fill_cycle<etl::static_vector<int, 255>>())
CT(sv_cycle_256, ct::vec_fill_cycle<etl::static_vector<int, 256>>())
CT(ipv_default_0, ct::vec_default<etl::inplace_vector<int, 0>>())
CT(ipv_default_1, ct::vec_default<etl::inplace_vector<int, 1>>())
CT(ipv_default_16, ct::vec_default<etl::inplace_vector<int, 16>>())
CT(ipv_default_256, ct::vec_default<etl::inplace_vector<int, 256>>())
CT(ipv_cycle_0, ct::ipv_fill_cycle<etl::inplace_vector<int, 0>>())
CT(ipv_cycle_1, ct::ipv_fill_cycle<etl::inplace_vector<int, 1>>())
CT(ipv_cycle_16, ct::ipv_fill_cycle<etl::inplace_vector<int, 16>>())
CT(ipv_cycle_255, ct::ipv_fill_cycle<etl::inplace_vector<int, 255>>())
CT(ipv_cycle_256, ct::ipv_fill_cycle<etl::inplace_vector<int, 256>>())
CT(str_default_1, ct::str_default<etl::inplace_string<1>>())
CT(str_default_15, ct::str_default<etl::inplace_string<15>>())
CT(str_default_16, ct::str_default<etl::inplace_string<16>>())
CT(str_default_255, ct::str_default<etl::inplace_string<255>>())
CT(str_default_256, ct::str_default<etl::inplace_string<256>>())
CT(str_cycle_1, ct::str_fill_cycle<etl::inplace_string<1>>())
CT(str_cycle_15, ct::str_fill_cycle<etl::inplace_string<15>>())
CT(str_cycle_16, ct::str_fill_cycle<etl::inplace_string<16>>())
CT(str_cycle_255, ct::str_fill_cycle<etl::inplace_string<255>>())
CT(str_cycle_256, ct::str_fill_cycle<etl::inplace_string<256>>())
CT(sset_cycle_0, ct::set_cycle<etl::static_set<int, 0>>())
CT(sset_cycle_1, ct::set_cycle<etl::static_set<int, 1>>())
CT(sset_cycle_16, ct::set_cycle<etl::static_set<int, 16>>())
CT(fset_cycle_0, ct::set_cycle<etl::flat_set<int, etl::static_vector<int, 0>>>())
CT(fset_cycle_1, ct::set_cycle<etl::flat_set<int, etl::static_vector<int, 1>>>())
CT(fset_cycle_16, ct::set_cycle<etl::flat_set<int, etl::static_vector<int, 16>>>())
CT(bitset_cycle_1, ct::bitset_cycle<1>())
CT(bitset_cycle_8, ct::bitset_cycle<8>())
CT(bitset_cycle_63, ct::bitset_cycle<63>())
CT(bitset_cycle_64, ct::bitset_cycle<64>())
CT(bitset_cycle_65, ct::bitset_cycle<65>())
CT(bitset_cycle_256, ct::bitset_cycle<256>())
// ---- views without terminator: a read one past the array is not a constant expression
CT(sv_find_end, ct::H.find(ct::sv{ct::bc, 2}, 0) == 1 && ct::H.find(ct::sv{ct::bc, 2}, 2) == ct::np)
CT(sv_find_straddle, ct::H.find(ct::sv{ct::cd, 2}, 0) == ct::np && ct::H.find(ct::sv{ct::abcd, 4}, 0) == ct::np)
CT(sv_find_empty_needle, ct::H.find(ct::E, 3) == 3 && ct::H.find(ct::E, 4) == ct::np && ct::E.find(ct::E, 0) == 0)
CT(sv_find_char, ct::H.find('c', 2) == 2 && ct::H.find('c', 3) == ct::np && ct::E.find('a', 0) == ct::np)
CT(sv_rfind, ct::H.rfind(ct::sv{ct::bc, 2}, ct::np) == 1 && ct::H.rfind(ct::E, ct::np) == 3 && ct::E.rfind('a', ct::np) == ct::np)
CT(sv_rfind_long_needle, ct::H.rfind(ct::sv{ct::abcd, 4}, ct::np) == ct::np && ct::E.rfind(ct::H, 0) == ct::np)
CT(sv_find_first_of, ct::H.find_first_of(ct::sv{ct::cd, 2}, 0) == 2 && ct::H.find_first_of(ct::E, 0) == ct::np && ct::H.find_first_of(ct::H, 3) == ct::np)
CT(sv_find_last_of, ct::H.find_last_of(ct::sv{ct::cd, 2}, ct::np) == 2 && ct::E.find_last_of(ct::H, ct::np) == ct::np && ct::H.find_last_of(ct::H, 0) == 0)
CT(sv_find_first_not_of, ct::H.find_first_not_of(ct::H, 0) == ct::np && ct::H.find_first_not_of(ct::E, 2) == 2 && ct::H.find_first_not_of(ct::E, 3) == ct::np)
CT(sv_find_last_not_of, ct::H.find_last_not_of(ct::sv{ct::bc, 2}, ct::np) == 0 && ct::E.find_last_not_of(ct::H, ct::np) == ct::np && ct::H.find_last_not_of(ct::E, 9) == 2)
CT(sv_compare, ct::H.compare(ct::sv{ct::abcd, 4}) < 0 && ct::H.compare(1, ct::np, ct::sv{ct::bc, 2}) == 0 && ct::H.compare(3, 5, ct::E) == 0 && ct::E.compare(ct::E) == 0)
CT(sv_affix, ct::H.starts_with(ct::E) && ct::H.ends_with(ct::sv{ct::bc, 2}) && !ct::H.ends_with(ct::sv{ct::abcd, 4}) && !ct::E.starts_with('a') && !ct::E.ends_with('a') && ct::H.contains(ct::sv{ct::bc, 2}))
CT(sv_substr, ct::H.substr(3, ct::np).empty() && ct::H.substr(1, 9).size() == 2 && ct::H.substr(0, 0).empty())
CT(sv_copy, ct::sv_copy_exact())
// ---- algorithms
CT(alg_cycle, ct::alg_cycle())
CT(alg_shift_merge, ct::alg_shift_merge())
// ---- character conversion: zero-length, one short, exact fit
CT(to_chars_len0, ct::to_chars_len<int, 0>(0, 10) == -1 && ct::to_chars_len<int, 0>(-1, 10) == -1)
CT(to_chars_short, ct::to_chars_len<int, 2>(123, 10) == -1 && ct::to_chars_len<int, 3>(-123, 10) == -1 && ct::to_chars_len<int, 1>(-1, 10) == -1)
CT(to_chars_exact, ct::to_chars_len<int, 3>(123, 10) == 3 && ct::to_chars_len<int, 4>(-123, 10) == 4 && ct::to_chars_len<int, 1>(0, 10) == 1)
CT(to_chars_min_base2, ct::to_chars_len<signed char, 9>(-128, 2) == 9 && ct::to_chars_len<signed char, 8>(-128, 2) == -1)
CT(to_chars_i64_min, ct::to_chars_len<long long, 20>(etl::numeric_limits<long long>::min(), 10) == 20 && ct::to_chars_len<long long, 19>(etl::numeric_limits<long long>::min(), 10) == -1)
CT(to_chars_u64_max_base36, ct::to_chars_len<unsigned long long, 13>(etl::numeric_limits<unsigned long long>::max(), 36) == 13 && ct::to_chars_len<unsigned long long, 64>(etl::numeric_limits<unsigned long long>::max(), 2) == 64)
CT(from_chars_unterminated, ct::from_chars_unterminated())
// ---- C strings
CT(cstr_cycle, ct::cstr_cycle())
// ---- bit / numeric helpers
CT(num_limits_i8, ct::num_limits<signed char>())
CT(num_limits_i16, ct::num_limits<short>())
CT(num_limits_i32, ct::num_limits<int>())
CT(num_limits_i64, ct::num_limits<long long>())
CT(bit_limits_u8, ct::bit_limits<unsigned char>())
CT(bit_limits_u16, ct::bit_limits<unsigned short>())
CT(bit_limits_u32, ct::bit_limits<unsigned>())
CT(bit_limits_u64, ct::bit_limits<unsigned long long>())
// ---- calendar kernels
CT(chrono_limits, ct::chrono_limits())
