// C15 — type traits, concepts, numeric_limits and ratio agree with the language and std.
//
// This translation unit is compiled once per generated part (`-DC15_INC="<file>"`), against
// $VERIF_REPO/include.  The generated include file (written by checks/props/c15.py from the type zoo
// that the Lean driver enumerates) consists of row macros:
//
//   urow<T, mflags, sflags>(id);        structural unary traits of T       (modelled in Lean, part (c))
//   brow<T1, T2>(id);                   is_same / same_as                  (modelled, part (c))
//   drow<T>(id);                        intrinsic-backed unary traits      (etl vs std only, part (d))
//   dbrow<T1, T2, types>(id);           relational traits of (T1, T2)      (etl vs std only, part (d))
//   lrow<T>(id);                        numeric_limits<T>                  (part (b))
//   rnrow<n, d>(id);                    ratio<n,d> normalisation           (part (a))
//   rarow<n1,d1,n2,d2, mops, sops>(id); ratio arithmetic and comparison    (part (a))
//   mrow(id);                           conjunction / disjunction / negation, integral_constant (fixed row)
//   irow<F, TL<A...>, TL<B...>>(id);    INVOKE: is_invocable(_r), invoke_result, invocable, regular_invocable, predicate
//                                       of etl for <F, A...> and of std for <F, B...> (A and B differ in the namespace
//                                       of reference_wrapper only); modelled in Lean (Tetl/C15/Invoke.lean)
//   xrow(id);                           plain etl-vs-std items: aligned_storage/aligned_union, conditional, enable_if,
//                                       void_t, unwrap_reference/unwrap_ref_decay, predicate/relation/..., <cstdint>
//
// Every row prints `id <TAB> etl-result <TAB> std-result`; a result is a blank-separated list of
// `name=value`.  Type-valued results are printed in the prefix encoding of Tetl/C15/Model.lean
// (`CType.enc`) by the partial specialisations of `Enc` below, which are independent of both libraries.
// Everything is evaluated at compile time (constexpr tables); the run time only prints.
#include <etl/concepts.hpp>
#include <etl/cstddef.hpp>
#include <etl/cstdint.hpp>
#include <etl/_functional/reference_wrapper.hpp>
#include <etl/limits.hpp>
#include <etl/ratio.hpp>
#include <etl/type_traits.hpp>

#include <concepts>
#include <cstddef>
#include <cstdint>
#include <cstdio>
#include <cstring>
#include <functional>
#include <limits>
#include <ratio>
#include <string>
#include <type_traits>

// ------------------------------------------------------------------ leaf types of the structural zoo
struct Cls {
    int m;
    void f();
};
union Uni {
    int i;
    float f;
};
enum EU { eu0, eu1 };
enum EUF : short { euf0 };
enum class ES { a, b };
enum class ESC : unsigned char { a };
enum ESS : signed char { ess0 };
enum class EUS : unsigned short { a };
enum class EL : long { a };
enum EULL : unsigned long long { eull0 };

using nullptr_t = decltype(nullptr);
using schar     = signed char;
using uchar     = unsigned char;
using ushort    = unsigned short;
using uint      = unsigned int;
using ulong     = unsigned long;
using llong     = long long;
using ullong    = unsigned long long;
using ldouble   = long double;

// ------------------------------------------------------------------ class zoo of part (d)
struct Empty { };
struct EmptyFinal final { };
struct Agg {
    int a;
    double b;
};
struct AggArr {
    int a[3];
};
struct WithCtor {
    WithCtor(int);
    int x;
};
struct ExplicitCtor {
    explicit ExplicitCtor(int);
};
struct NonTrivialDefault {
    NonTrivialDefault() { }
    int x;
};
struct ThrowingDefault {
    ThrowingDefault() noexcept(false);
};
struct NonTrivialCopy {
    NonTrivialCopy() = default;
    NonTrivialCopy(NonTrivialCopy const&) { }
    NonTrivialCopy& operator=(NonTrivialCopy const&) { return *this; }
    int x;
};
struct NothrowCopyThrowingMove {
    NothrowCopyThrowingMove() = default;
    NothrowCopyThrowingMove(NothrowCopyThrowingMove const&) noexcept;
    NothrowCopyThrowingMove(NothrowCopyThrowingMove&&) noexcept(false);
    NothrowCopyThrowingMove& operator=(NothrowCopyThrowingMove const&) noexcept;
    NothrowCopyThrowingMove& operator=(NothrowCopyThrowingMove&&) noexcept(false);
};
struct DeletedCopy {
    DeletedCopy() = default;
    DeletedCopy(DeletedCopy const&) = delete;
    DeletedCopy& operator=(DeletedCopy const&) = delete;
};
struct MoveOnly {
    MoveOnly() = default;
    MoveOnly(MoveOnly&&) = default;
    MoveOnly& operator=(MoveOnly&&) = default;
};
struct DeletedDefault {
    DeletedDefault() = delete;
    int x;
};
struct DeletedDtor {
    ~DeletedDtor() = delete;
};
struct ThrowingDtor {
    ~ThrowingDtor() noexcept(false);
};
struct NonTrivialDtor {
    ~NonTrivialDtor() { }
};
struct VirtualDtor {
    virtual ~VirtualDtor();
};
struct Polymorphic {
    virtual void f();
};
struct Abstract {
    virtual void f() = 0;
};
struct AbstractProtDtor {
    virtual void f() = 0;

protected:
    ~AbstractProtDtor() = default;
};
struct PrivateDtor {
private:
    ~PrivateDtor() = default;
};
struct Base {
    int b;
};
struct Derived : Base { };
struct DerivedPriv : private Base { };
struct DerivedVirt : virtual Base { };
struct PolyFinal final : Polymorphic {
    void f() override;
};
struct NonStdLayout {
    int a;

private:
    int b;
};
struct Padded {
    char c;
    int i;
};
struct WithRef {
    int& r;
};
struct WithConst {
    int const c = 0;
};
struct ConvToInt {
    operator int() const noexcept;
};
struct ConvToIntThrow {
    operator int() const;
};
struct ExplicitConv {
    explicit operator int() const;
};
struct FromCls {
    FromCls(Cls const&) noexcept;
};
struct Callable {
    int operator()(int) const noexcept;
};
struct CallableRef {
    void operator()(int&);
};
struct EqComparable {
    friend bool operator==(EqComparable const&, EqComparable const&) = default;
    int x;
};
struct Assignable {
    Assignable& operator=(int);
};
struct CopyAssignConstOnly {
    CopyAssignConstOnly const& operator=(CopyAssignConstOnly const&) const;
};
struct Swappable {
    friend void swap(Swappable&, Swappable&) noexcept(false);
};
struct Incomplete;
union UnionNonTrivial {
    NonTrivialCopy m;
    int i;
    UnionNonTrivial();
    ~UnionNonTrivial();
};
struct BitField {
    int a : 3;
    int b : 5;
};
struct Lambdaish {
    int operator()() { return 0; }
};
// copying from a non-const lvalue is noexcept, copying from a const one may throw: tells X<T&, T&> from X<T&, T const&>
// and X<T, T&> from X<T, T const&> (mutants/C15/nothrow_copy_assignable_drops_const)
struct CopyNonConstNothrow {
    CopyNonConstNothrow() = default;
    CopyNonConstNothrow(CopyNonConstNothrow&) noexcept;
    CopyNonConstNothrow(CopyNonConstNothrow const&) noexcept(false);
    CopyNonConstNothrow& operator=(CopyNonConstNothrow&) noexcept;
    CopyNonConstNothrow& operator=(CopyNonConstNothrow const&) noexcept(false);
};
// move construction is noexcept, move assignment may throw, copies are deleted
struct MoveCtorOnlyNothrowAssignThrows {
    MoveCtorOnlyNothrowAssignThrows(MoveCtorOnlyNothrowAssignThrows&&) noexcept;
    MoveCtorOnlyNothrowAssignThrows& operator=(MoveCtorOnlyNothrowAssignThrows&&) noexcept(false);
};

// ------------------------------------------------------------------ compositional spelling of the zoo types
template <typename T> using C1 = T const;
template <typename T> using C2 = T volatile;
template <typename T> using C3 = T const volatile;
template <typename T> using P  = T*;
template <typename T> using M  = T Cls::*;
template <typename T> using L  = T&;
template <typename T> using R  = T&&;
template <typename T, std::size_t N> using A = T[N];
template <typename T> using UA = T[];

// function types  F<args><cv><ref><noexcept><Ret>
#define C15_FN_ARGS0
#define C15_FN_ARGS1 int
#define C15_FN_ARGS2 Cls&, ...
#define C15_CVQ0
#define C15_CVQ1 const
#define C15_CVQ2 volatile
#define C15_CVQ3 const volatile
#define C15_RQ0
#define C15_RQ1 &
#define C15_RQ2 &&
#define C15_NE0
#define C15_NE1 noexcept

// primary template: a type outside the grammar (class zoo of part (d)) is printed by its compiler name
template <typename T>
struct Enc {
    static auto s() -> std::string
    {
        std::string f = __PRETTY_FUNCTION__;
        auto b        = f.find("T = ");
        auto e        = f.find_first_of(";]", b);
        auto n        = f.substr(b + 4, e - b - 4);
        for (auto& ch : n) { if (ch == ' ') { ch = '_'; } }
        return "b<" + n + ">;";
    }
};

template <typename T>
inline auto enc() -> std::string
{
    return Enc<T>::s();
}

#define C15_FN(a, c, r, n)                                                                                             \
    template <typename Ret>                                                                                            \
    using F##a##c##r##n = Ret(C15_FN_ARGS##a) C15_CVQ##c C15_RQ##r C15_NE##n;                                          \
    template <typename Ret>                                                                                            \
    struct Enc<Ret(C15_FN_ARGS##a) C15_CVQ##c C15_RQ##r C15_NE##n> {                                                   \
        static auto s() -> std::string { return "F" #a #c #r #n + enc<Ret>(); }                                        \
    };
#define C15_FN_N(a, c, r) C15_FN(a, c, r, 0) C15_FN(a, c, r, 1)
#define C15_FN_R(a, c)    C15_FN_N(a, c, 0) C15_FN_N(a, c, 1) C15_FN_N(a, c, 2)
#define C15_FN_C(a)       C15_FN_R(a, 0) C15_FN_R(a, 1) C15_FN_R(a, 2) C15_FN_R(a, 3)
C15_FN_C(0)
C15_FN_C(1)
C15_FN_C(2)

// ------------------------------------------------------------------ the encoder
#define C15_LEAF(T, name)                                                                                              \
    template <>                                                                                                        \
    struct Enc<T> {                                                                                                    \
        static auto s() -> std::string { return "b" name ";"; }                                                        \
    };
C15_LEAF(void, "void")
C15_LEAF(decltype(nullptr), "nullptr")
C15_LEAF(bool, "bool")
C15_LEAF(char, "char")
C15_LEAF(signed char, "schar")
C15_LEAF(unsigned char, "uchar")
C15_LEAF(wchar_t, "wchar")
C15_LEAF(char8_t, "char8")
C15_LEAF(char16_t, "char16")
C15_LEAF(char32_t, "char32")
C15_LEAF(short, "short")
C15_LEAF(unsigned short, "ushort")
C15_LEAF(int, "int")
C15_LEAF(unsigned int, "uint")
C15_LEAF(long, "long")
C15_LEAF(unsigned long, "ulong")
C15_LEAF(long long, "llong")
C15_LEAF(unsigned long long, "ullong")
C15_LEAF(float, "float")
C15_LEAF(double, "double")
C15_LEAF(long double, "ldouble")
C15_LEAF(EU, "EU")
C15_LEAF(EUF, "EUF")
C15_LEAF(ES, "ES")
C15_LEAF(ESC, "ESC")
C15_LEAF(ESS, "ESS")
C15_LEAF(EUS, "EUS")
C15_LEAF(EL, "EL")
C15_LEAF(EULL, "EULL")
C15_LEAF(Cls, "Cls")
C15_LEAF(Uni, "Uni")

template <typename T> struct Enc<T const> { static auto s() -> std::string { return "K1" + enc<T>(); } };
template <typename T> struct Enc<T volatile> { static auto s() -> std::string { return "K2" + enc<T>(); } };
template <typename T> struct Enc<T const volatile> { static auto s() -> std::string { return "K3" + enc<T>(); } };
template <typename T> struct Enc<T*> { static auto s() -> std::string { return "P" + enc<T>(); } };
template <typename T> struct Enc<T Cls::*> { static auto s() -> std::string { return "M" + enc<T>(); } };
template <typename T> struct Enc<T&> { static auto s() -> std::string { return "L" + enc<T>(); } };
template <typename T> struct Enc<T&&> { static auto s() -> std::string { return "R" + enc<T>(); } };
// an array of cv T is itself cv-qualified: these are more specialised than both `T const` and `T[N]`
#define C15_ARR(Q)                                                                                                     \
    template <typename T, std::size_t N>                                                                               \
    struct Enc<T Q[N]> {                                                                                               \
        static auto s() -> std::string { return "A" + std::to_string(N) + ";" + enc<T Q>(); }                          \
    };                                                                                                                 \
    template <typename T>                                                                                              \
    struct Enc<T Q[]> {                                                                                                \
        static auto s() -> std::string { return "U" + enc<T Q>(); }                                                    \
    };
C15_ARR()
C15_ARR(const)
C15_ARR(volatile)
C15_ARR(const volatile)

// ------------------------------------------------------------------ printing
using EncFn = std::string (*)();

static void put_bools(char const* const* names, bool const* vals, int n)
{
    for (int i = 0; i < n; ++i) { std::printf("%s%s=%d", i ? " " : "", names[i], vals[i] ? 1 : 0); }
}

// ---- (c) structural unary traits ------------------------------------------------------------------
#define C15_UBOOL(X)                                                                                                   \
    X(is_void) X(is_null_pointer) X(is_integral) X(is_floating_point) X(is_array) X(is_enum) X(is_union) X(is_class)   \
    X(is_function) X(is_pointer) X(is_lvalue_reference) X(is_rvalue_reference) X(is_member_object_pointer)             \
    X(is_member_function_pointer) X(is_fundamental) X(is_arithmetic) X(is_scalar) X(is_object) X(is_compound)          \
    X(is_reference) X(is_member_pointer) X(is_const) X(is_volatile) X(is_signed) X(is_unsigned) X(is_bounded_array)    \
    X(is_unbounded_array) X(is_scoped_enum)
#define C15_UCONCEPT(X) X(integral) X(signed_integral) X(unsigned_integral) X(floating_point)
#define C15_UTYPE(X)                                                                                                   \
    X(remove_const) X(remove_volatile) X(remove_cv) X(add_const) X(add_volatile) X(add_cv) X(remove_reference)         \
    X(add_lvalue_reference) X(add_rvalue_reference) X(remove_pointer) X(add_pointer) X(remove_extent)                  \
    X(remove_all_extents) X(decay) X(remove_cvref) X(type_identity)

#define C15_NAME(t)  #t,
#define C15_ETL_V(t) etl::t##_v<T>,
#define C15_STD_V(t) std::t##_v<T>,
#define C15_ETL_C(t) etl::t<T>,
#define C15_STD_C(t) std::t<T>,
#define C15_ETL_T(t) &enc<etl::t##_t<T>>,
#define C15_STD_T(t) &enc<std::t##_t<T>>,
// the class-template forms `X<T>::value` / `typename X<T>::type`: many `_v` variables are written out independently of
// their class template, so both forms are instantiated and printed (as `X::value` / `X::type`)
#define C15_SNAME(t)  #t "::value",
#define C15_TNAME(t)  #t "::type",
#define C15_ETL_SV(t) etl::t<T>::value,
#define C15_STD_SV(t) std::t<T>::value,
#define C15_ETL_ST(t) &enc<typename etl::t<T>::type>,
#define C15_STD_ST(t) &enc<typename std::t<T>::type>,

static char const* const ubool_names[] = {C15_UBOOL(C15_NAME) C15_UCONCEPT(C15_NAME)};
static char const* const utype_names[] = {C15_UTYPE(C15_NAME)};
static char const* const ubool_snames[] = {C15_UBOOL(C15_SNAME)};
static char const* const utype_snames[] = {C15_UTYPE(C15_TNAME)};

template <typename T>
struct URow {
    static constexpr bool e[] = {C15_UBOOL(C15_ETL_V) C15_UCONCEPT(C15_ETL_C)};
    static constexpr bool s[] = {C15_UBOOL(C15_STD_V) C15_UCONCEPT(C15_STD_C)};
    static constexpr unsigned long en[] = {etl::rank_v<T>, etl::extent_v<T>, etl::extent_v<T, 1>};
    static constexpr unsigned long sn[] = {std::rank_v<T>, std::extent_v<T>, std::extent_v<T, 1>};
    static constexpr EncFn et[] = {C15_UTYPE(C15_ETL_T)};
    static constexpr EncFn st[] = {C15_UTYPE(C15_STD_T)};
    static constexpr bool es[] = {C15_UBOOL(C15_ETL_SV)};
    static constexpr bool ss[] = {C15_UBOOL(C15_STD_SV)};
    static constexpr unsigned long ens[] = {etl::rank<T>::value, etl::extent<T>::value, etl::extent<T, 1>::value};
    static constexpr unsigned long sns[] = {std::rank<T>::value, std::extent<T>::value, std::extent<T, 1>::value};
    static constexpr EncFn ets[] = {C15_UTYPE(C15_ETL_ST)};
    static constexpr EncFn sts[] = {C15_UTYPE(C15_STD_ST)};
};

template <template <typename> class Tr, typename T>
inline auto member_type_or_none() -> std::string
{
    if constexpr (requires { typename Tr<T>::type; }) {
        return enc<typename Tr<T>::type>();
    } else {
        return "none";
    }
}

// flags: bit 0 = make_signed<T> is well-formed, bit 1 = make_unsigned<T> is well-formed (decided by the Lean
// model for the etl column and by the Lean spec for the std column: an ill-formed instantiation is a hard error)
template <template <typename> class MS, template <typename> class MU, template <typename> class UT, typename T, int Flags>
static void put_restricted()
{
    if constexpr ((Flags & 1) != 0) {
        std::printf(" make_signed=%s", enc<typename MS<T>::type>().c_str());
    } else {
        std::printf(" make_signed=ill-formed");
    }
    if constexpr ((Flags & 2) != 0) {
        std::printf(" make_unsigned=%s", enc<typename MU<T>::type>().c_str());
    } else {
        std::printf(" make_unsigned=ill-formed");
    }
    std::printf(" underlying_type=%s", member_type_or_none<UT, T>().c_str());
}

template <typename T, int MFlags, int SFlags>
static void urow(int id)
{
    using Rw        = URow<T>;
    constexpr int nb = sizeof(Rw::e) / sizeof(bool);
    constexpr int nt = sizeof(Rw::et) / sizeof(EncFn);
    static char const* const nn[] = {"rank", "extent0", "extent1"};
    static char const* const nns[] = {"rank::value", "extent0::value", "extent1::value"};
    constexpr int nbs = sizeof(Rw::es) / sizeof(bool);
    std::printf("%d\t", id);
    put_bools(ubool_names, Rw::e, nb);
    for (int i = 0; i < 3; ++i) { std::printf(" %s=%lu", nn[i], Rw::en[i]); }
    for (int i = 0; i < nt; ++i) { std::printf(" %s=%s", utype_names[i], Rw::et[i]().c_str()); }
    put_restricted<etl::make_signed, etl::make_unsigned, etl::underlying_type, T, MFlags>();
    std::printf(" ");
    put_bools(ubool_snames, Rw::es, nbs);
    for (int i = 0; i < 3; ++i) { std::printf(" %s=%lu", nns[i], Rw::ens[i]); }
    for (int i = 0; i < nt; ++i) { std::printf(" %s=%s", utype_snames[i], Rw::ets[i]().c_str()); }
    std::printf("\t");
    put_bools(ubool_names, Rw::s, nb);
    for (int i = 0; i < 3; ++i) { std::printf(" %s=%lu", nn[i], Rw::sn[i]); }
    for (int i = 0; i < nt; ++i) { std::printf(" %s=%s", utype_names[i], Rw::st[i]().c_str()); }
    put_restricted<std::make_signed, std::make_unsigned, std::underlying_type, T, SFlags>();
    std::printf(" ");
    put_bools(ubool_snames, Rw::ss, nbs);
    for (int i = 0; i < 3; ++i) { std::printf(" %s=%lu", nns[i], Rw::sns[i]); }
    for (int i = 0; i < nt; ++i) { std::printf(" %s=%s", utype_snames[i], Rw::sts[i]().c_str()); }
    std::printf("\n");
}

template <typename T1, typename T2>
static void brow(int id)
{
    std::printf("%d\tis_same=%d same_as=%d is_same::value=%d\tis_same=%d same_as=%d is_same::value=%d\n", id,
        etl::is_same_v<T1, T2> ? 1 : 0, etl::same_as<T1, T2> ? 1 : 0, etl::is_same<T1, T2>::value ? 1 : 0,
        std::is_same_v<T1, T2> ? 1 : 0, std::same_as<T1, T2> ? 1 : 0, std::is_same<T1, T2>::value ? 1 : 0);
}

// ---- (d) intrinsic-backed traits: etl vs std only -------------------------------------------------
#define C15_DBOOL(X)                                                                                                   \
    X(is_trivial) X(is_trivially_copyable) X(is_standard_layout) X(is_empty) X(is_polymorphic) X(is_abstract)          \
    X(is_final) X(is_aggregate) X(has_virtual_destructor) X(is_default_constructible)                                  \
    X(is_trivially_default_constructible) X(is_nothrow_default_constructible) X(is_copy_constructible)                 \
    X(is_trivially_copy_constructible) X(is_nothrow_copy_constructible) X(is_move_constructible)                       \
    X(is_trivially_move_constructible) X(is_nothrow_move_constructible) X(is_copy_assignable)                          \
    X(is_trivially_copy_assignable) X(is_nothrow_copy_assignable) X(is_move_assignable)                                \
    X(is_trivially_move_assignable) X(is_nothrow_move_assignable) X(is_destructible) X(is_trivially_destructible)      \
    X(is_nothrow_destructible) X(is_swappable) X(is_nothrow_swappable)
#define C15_DCONCEPT(X)                                                                                                \
    X(destructible) X(default_initializable) X(move_constructible) X(copy_constructible) X(movable) X(copyable)        \
    X(semiregular) X(regular) X(equality_comparable) X(swappable)

// T&, T const&, T&& formed through the std transformations (void and qualified function types have none)
template <typename T> using LR  = std::add_lvalue_reference_t<T>;
template <typename T> using CLR = std::add_lvalue_reference_t<T const>;
template <typename T> using RR  = std::add_rvalue_reference_t<T>;
#define C15_D2(X)                                                                                                      \
    X(is_constructible, T, int) X(is_constructible, T, LR<T>) X(is_constructible, T, CLR<T>)                           \
    X(is_trivially_constructible, T, CLR<T>) X(is_trivially_constructible, T, RR<T>)                                   \
    X(is_trivially_constructible, T, int) X(is_nothrow_constructible, T, CLR<T>)                                       \
    X(is_nothrow_constructible, T, RR<T>) X(is_nothrow_constructible, T, int) X(is_assignable, LR<T>, int)             \
    X(is_assignable, T, T) X(is_trivially_assignable, LR<T>, CLR<T>) X(is_nothrow_assignable, LR<T>, RR<T>)            \
    X(is_convertible, T, int) X(is_convertible, int, T) X(is_invocable, T, int)

#define C15_D2NAME(t, a, b) #t "<" #a "," #b ">",
#define C15_D2ETL(t, a, b)  etl::t##_v<a, b>,
#define C15_D2STD(t, a, b)  std::t##_v<a, b>,
#define C15_D2SNAME(t, a, b) #t "<" #a "," #b ">::value",
#define C15_D2SETL(t, a, b)  etl::t<a, b>::value,
#define C15_D2SSTD(t, a, b)  std::t<a, b>::value,

static char const* const dbool_names[] = {C15_DBOOL(C15_NAME) C15_DCONCEPT(C15_NAME) C15_D2(C15_D2NAME)};
static char const* const dbool_snames[] = {C15_DBOOL(C15_SNAME) C15_D2(C15_D2SNAME)};

template <typename T>
struct DRow {
    static constexpr bool e[] = {C15_DBOOL(C15_ETL_V) C15_DCONCEPT(C15_ETL_C) C15_D2(C15_D2ETL)};
    static constexpr bool s[] = {C15_DBOOL(C15_STD_V) C15_DCONCEPT(C15_STD_C) C15_D2(C15_D2STD)};
    static constexpr bool es[] = {C15_DBOOL(C15_ETL_SV) C15_D2(C15_D2SETL)};          // class-template forms
    static constexpr bool ss[] = {C15_DBOOL(C15_STD_SV) C15_D2(C15_D2SSTD)};
};

template <typename T>
static void drow(int id)
{
    using Rw        = DRow<T>;
    constexpr int nb = sizeof(Rw::e) / sizeof(bool);
    std::printf("%d\t", id);
    constexpr int nbs = sizeof(Rw::es) / sizeof(bool);
    put_bools(dbool_names, Rw::e, nb);
    std::printf(" ");
    put_bools(dbool_snames, Rw::es, nbs);
    if constexpr (requires { alignof(T); }) {
        std::printf(" alignment_of=%lu alignment_of::value=%lu", static_cast<unsigned long>(etl::alignment_of_v<T>),
            static_cast<unsigned long>(etl::alignment_of<T>::value));
    }
    if constexpr (std::is_trivially_copyable_v<T> && requires { sizeof(T); }) {
        std::printf(" has_unique_object_representations=%d has_unique_object_representations::value=%d",
            etl::has_unique_object_representations_v<T> ? 1 : 0, etl::has_unique_object_representations<T>::value ? 1 : 0);
    }
    std::printf("\t");
    put_bools(dbool_names, Rw::s, nb);
    std::printf(" ");
    put_bools(dbool_snames, Rw::ss, nbs);
    if constexpr (requires { alignof(T); }) {
        std::printf(" alignment_of=%lu alignment_of::value=%lu", static_cast<unsigned long>(std::alignment_of_v<T>),
            static_cast<unsigned long>(std::alignment_of<T>::value));
    }
    if constexpr (std::is_trivially_copyable_v<T> && requires { sizeof(T); }) {
        std::printf(" has_unique_object_representations=%d has_unique_object_representations::value=%d",
            std::has_unique_object_representations_v<T> ? 1 : 0, std::has_unique_object_representations<T>::value ? 1 : 0);
    }
    std::printf("\n");
}

#define C15_DB(X)                                                                                                      \
    X(is_convertible) X(is_nothrow_convertible) X(is_base_of) X(is_assignable) X(is_trivially_assignable)              \
    X(is_nothrow_assignable) X(is_constructible) X(is_trivially_constructible) X(is_nothrow_constructible)             \
    X(is_swappable_with) X(is_nothrow_swappable_with) X(is_invocable)
#define C15_DBCONCEPT(X)                                                                                               \
    X(convertible_to) X(derived_from) X(assignable_from) X(constructible_from) X(common_with)                          \
    X(common_reference_with) X(invocable)
#define C15_ETL_V2(t) etl::t##_v<T1, T2>,
#define C15_STD_V2(t) std::t##_v<T1, T2>,
#define C15_ETL_C2(t) etl::t<T1, T2>,
#define C15_STD_C2(t) std::t<T1, T2>,
#define C15_ETL_S2(t) etl::t<T1, T2>::value,
#define C15_STD_S2(t) std::t<T1, T2>::value,
static char const* const db_names[] = {C15_DB(C15_NAME) C15_DBCONCEPT(C15_NAME)};
static char const* const db_snames[] = {C15_DB(C15_SNAME)};

template <template <typename...> class Tr, typename... Ts>
inline auto nary_type_or_none() -> std::string
{
    if constexpr (requires { typename Tr<Ts...>::type; }) {
        return enc<typename Tr<Ts...>::type>();
    } else {
        return "none";
    }
}

template <typename T1, typename T2>
struct DBRow {
    static constexpr bool e[] = {C15_DB(C15_ETL_V2) C15_DBCONCEPT(C15_ETL_C2)};
    static constexpr bool s[] = {C15_DB(C15_STD_V2) C15_DBCONCEPT(C15_STD_C2)};
    static constexpr bool es[] = {C15_DB(C15_ETL_S2)};          // class-template forms
    static constexpr bool ss[] = {C15_DB(C15_STD_S2)};
};

template <typename T1, typename T2, bool WithTypes>
static void dbrow(int id)
{
    using Rw        = DBRow<T1, T2>;
    constexpr int nb = sizeof(Rw::e) / sizeof(bool);
    std::printf("%d\t", id);
    constexpr int nbs = sizeof(Rw::es) / sizeof(bool);
    put_bools(db_names, Rw::e, nb);
    std::printf(" ");
    put_bools(db_snames, Rw::es, nbs);
    // reference item for the class of F-C15-is-trivially-constructible-ignores-args (the answer for empty Args)
    std::printf(" is_trivially_default_constructible<T1>=%d", etl::is_trivially_default_constructible_v<T1> ? 1 : 0);
    if constexpr (WithTypes) {
        // common_type of one, two and three types ([meta.trans.other]/4: unary = common_type<T, T>, n-ary folds left)
        std::printf(" common_type1=%s", nary_type_or_none<etl::common_type, T1>().c_str());
        std::printf(" common_type3=%s", nary_type_or_none<etl::common_type, T1, T2, T1>().c_str());
        std::printf(" common_type3i=%s", nary_type_or_none<etl::common_type, T1, int, T2>().c_str());
        std::printf(" common_type=%s", nary_type_or_none<etl::common_type, T1, T2>().c_str());
        std::printf(" common_reference=%s", nary_type_or_none<etl::common_reference, T1, T2>().c_str());
        std::printf(" invoke_result=%s", nary_type_or_none<etl::invoke_result, T1, T2>().c_str());
    }
    std::printf("\t");
    put_bools(db_names, Rw::s, nb);
    std::printf(" ");
    put_bools(db_snames, Rw::ss, nbs);
    std::printf(" is_trivially_default_constructible<T1>=%d", std::is_trivially_default_constructible_v<T1> ? 1 : 0);
    if constexpr (WithTypes) {
        std::printf(" common_type1=%s", nary_type_or_none<std::common_type, T1>().c_str());
        std::printf(" common_type3=%s", nary_type_or_none<std::common_type, T1, T2, T1>().c_str());
        std::printf(" common_type3i=%s", nary_type_or_none<std::common_type, T1, int, T2>().c_str());
        std::printf(" common_type=%s", nary_type_or_none<std::common_type, T1, T2>().c_str());
        std::printf(" common_reference=%s", nary_type_or_none<std::common_reference, T1, T2>().c_str());
        std::printf(" invoke_result=%s", nary_type_or_none<std::invoke_result, T1, T2>().c_str());
    }
    std::printf("\n");
}


// ---- INVOKE ([func.require]) ------------------------------------------------------------------------
// the named zoo of Tetl/C15/Invoke.lean (`callableOf`, `abaseOf`): every member function has its own return type, so
// that invoke_result tells which one was selected
namespace inv {
struct S {
    int x;
    int const cx = 0;
    short f0();
    int fl() &;
    long fr() &&;
    char fc() const;
    unsigned fcl() const&;
    unsigned long fcr() const&&;
    float fn() noexcept;
    bool fcn() const noexcept;
    double fa(int);
    void fv();
    long long fvl() const volatile&;
    long long frn() && noexcept;
};
struct D : S { };
struct U { };
using pm_f0  = decltype(&S::f0);
using pm_fl  = decltype(&S::fl);
using pm_fr  = decltype(&S::fr);
using pm_fc  = decltype(&S::fc);
using pm_fcl = decltype(&S::fcl);
using pm_fcr = decltype(&S::fcr);
using pm_fn  = decltype(&S::fn);
using pm_fcn = decltype(&S::fcn);
using pm_fa  = decltype(&S::fa);
using pm_fv  = decltype(&S::fv);
using pm_fvl = decltype(&S::fvl);
using pm_frn = decltype(&S::frn);
using pd_x   = int S::*;
using pd_cx  = int const S::*;
struct FoP { short operator()(int); };
struct FoC { int operator()(int) const; };
struct FoL { long operator()(int) &; };
struct FoR { char operator()(int) &&; };
struct FoCL { unsigned operator()(int) const&; };
struct FoCR { unsigned long operator()(int) const&&; };
struct FoOv {
    float operator()(int) &;
    double operator()(int) &&;
    int operator()(int) const&;
};
struct FoOv2 {
    short operator()(int);
    bool operator()(int) const;
};
struct FoN { bool operator()(int) const noexcept; };
struct FoV { void operator()(int) const; };
struct FoCVL { long long operator()(int) const volatile&; };
struct FoBin { bool operator()(int, int) const; };          // relation / equivalence_relation / strict_weak_order
struct FoBinS { bool operator()(S const&, S const&) const; };
using fn_t   = int(int);
using fn_p   = int (*)(int);
using fn_r   = int (&)(int);
using fn_pn  = int (*)(int) noexcept;
using nc_int = int;
using nc_U   = U;
struct smC { S& operator*() const; };
struct smK { S const& operator*() const; };
struct smN { S& operator*(); };
struct smL { S& operator*() &; };
struct smR { S& operator*() &&; };
template <typename... Ts> struct TL { };
template <typename T> using Q0 = T;
template <typename T> using Q1 = T&;
template <typename T> using Q2 = T&&;
template <typename T> using Q3 = T const;
template <typename T> using Q4 = T const&;
template <typename T> using Q5 = T const&&;
} // namespace inv

#define C15_INV_SIDE(ns)                                                                                               \
    template <typename F, typename... A>                                                                               \
    static void put_inv_##ns(inv::TL<A...>)                                                                            \
    {                                                                                                                  \
        std::printf("is_invocable=%d is_invocable::value=%d", ns::is_invocable_v<F, A...> ? 1 : 0,                    \
            ns::is_invocable<F, A...>::value ? 1 : 0);                                                                 \
        std::printf(" is_invocable_r<void>=%d is_invocable_r<void>::value=%d", ns::is_invocable_r_v<void, F, A...> ? 1 : 0, \
            ns::is_invocable_r<void, F, A...>::value ? 1 : 0);                                                         \
        std::printf(" is_invocable_r<int>=%d is_invocable_r<int>::value=%d", ns::is_invocable_r_v<int, F, A...> ? 1 : 0, \
            ns::is_invocable_r<int, F, A...>::value ? 1 : 0);                                                          \
        std::printf(" is_invocable_r<int&>=%d is_invocable_r<int&>::value=%d", ns::is_invocable_r_v<int&, F, A...> ? 1 : 0, \
            ns::is_invocable_r<int&, F, A...>::value ? 1 : 0);                                                         \
        std::printf(" is_invocable_r<int&&>=%d is_invocable_r<int&&>::value=%d", ns::is_invocable_r_v<int&&, F, A...> ? 1 : 0, \
            ns::is_invocable_r<int&&, F, A...>::value ? 1 : 0);                                                        \
        std::printf(" is_invocable_r<int_const&>=%d is_invocable_r<int_const&>::value=%d",                             \
            ns::is_invocable_r_v<int const&, F, A...> ? 1 : 0, ns::is_invocable_r<int const&, F, A...>::value ? 1 : 0); \
        if constexpr (requires { typename ns::invoke_result_t<F, A...>; }) {                                           \
            std::printf(" invoke_result=%s", enc<ns::invoke_result_t<F, A...>>().c_str());                             \
        } else {                                                                                                       \
            std::printf(" invoke_result=none");                                                                        \
        }                                                                                                              \
        std::printf(" invoke_result::type=%s", nary_type_or_none<ns::invoke_result, F, A...>().c_str());               \
        std::printf(" invocable=%d regular_invocable=%d predicate=%d", ns::invocable<F, A...> ? 1 : 0,                 \
            ns::regular_invocable<F, A...> ? 1 : 0, ns::predicate<F, A...> ? 1 : 0);                                   \
    }
C15_INV_SIDE(etl)
C15_INV_SIDE(std)

template <typename F, typename EtlArgs, typename StdArgs>
static void irow(int id)
{
    std::printf("%d\t", id);
    put_inv_etl<F>(EtlArgs{});
    std::printf("\t");
    put_inv_std<F>(StdArgs{});
    std::printf("\n");
}

// ---- (b) numeric_limits --------------------------------------------------------------------------
#define C15_LIM_CONST(X)                                                                                               \
    X(is_specialized) X(digits) X(digits10) X(max_digits10) X(is_signed) X(is_integer) X(is_exact) X(radix)            \
    X(min_exponent) X(min_exponent10) X(max_exponent) X(max_exponent10) X(has_infinity) X(has_quiet_NaN)               \
    X(has_signaling_NaN) X(has_denorm) X(has_denorm_loss) X(is_iec559) X(is_bounded) X(is_modulo) X(traps)             \
    X(tinyness_before) X(round_style)
#define C15_LIM_FN(X) X(min) X(max) X(lowest) X(epsilon) X(round_error) X(infinity) X(quiet_NaN) X(signaling_NaN) X(denorm_min)

template <typename V>
static void put_value(char const* name, V v)
{
    using U = std::remove_cv_t<V>;
    if constexpr (std::is_floating_point_v<U>) {
        unsigned char raw[sizeof(U)] = {};
        std::memcpy(raw, &v, sizeof(U));
        constexpr unsigned n = std::is_same_v<U, long double> ? 10U : static_cast<unsigned>(sizeof(U));   // x87: 80 value bits
        std::printf(" %s=0x", name);
        for (unsigned i = n; i-- > 0;) { std::printf("%02x", raw[i]); }
    } else if constexpr (std::is_signed_v<U>) {
        std::printf(" %s=%lld", name, static_cast<long long>(v));
    } else {
        std::printf(" %s=%llu", name, static_cast<unsigned long long>(v));
    }
}

template <typename Lim, typename T>
static void put_limits()
{
#define C15_PUT_CONST(m) std::printf(" " #m "=%d", static_cast<int>(Lim::m));
#define C15_PUT_FN(m)                                                                                                  \
    static_assert(std::is_same_v<std::remove_cv_t<decltype(Lim::m())>, std::remove_cv_t<T>>, #m " has the wrong type"); \
    static_assert(noexcept(Lim::m()), #m " must be noexcept");                                                         \
    put_value(#m, Lim::m());
    C15_LIM_CONST(C15_PUT_CONST)
    C15_LIM_FN(C15_PUT_FN)
}

template <typename T>
static void lrow(int id)
{
    std::printf("%d\tsizeof=%lu", id, static_cast<unsigned long>(sizeof(T)));
    put_limits<etl::numeric_limits<T>, T>();
    std::printf("\tsizeof=%lu", static_cast<unsigned long>(sizeof(T)));
    put_limits<std::numeric_limits<T>, T>();
    std::printf("\n");
}

// ---- (a) ratio -----------------------------------------------------------------------------------
template <typename Rt>
static void put_ratio(char const* name)
{
    std::printf(" %s=%lld/%lld", name, static_cast<long long>(Rt::num), static_cast<long long>(Rt::den));
}

// canonical<Rt>: the alias names the reduced specialisation ratio<num,den> itself ([ratio.arithmetic])
template <template <long, long> class Rat, typename Rt>
static constexpr bool canonical = std::is_same_v<Rt, Rat<Rt::num, Rt::den>>;

template <long N, long D>
static void rnrow(int id)
{
    using E = etl::ratio<N, D>;
    using S = std::ratio<N, D>;
    std::printf("%d\t", id);
    put_ratio<E>("ratio");
    put_ratio<typename E::type>("type");
    std::printf("\t");
    put_ratio<S>("ratio");
    put_ratio<typename S::type>("type");
    std::printf("\n");
}

// ops: bit mask of the operations that are well-formed (decided by the Lean model for etl / spec for std):
// 1 add, 2 subtract, 4 multiply, 8 divide, 16 the four ordering traits
#define C15_RATIO_SIDE(ns, Rat, Ops)                                                                                   \
    {                                                                                                                  \
        using X = ns::ratio<N1, D1>;                                                                                   \
        using Y = ns::ratio<N2, D2>;                                                                                   \
        if constexpr ((Ops & 1) != 0) { put_ratio<ns::ratio_add<X, Y>>("add"); std::printf(" add_canon=%d", canonical<Rat, ns::ratio_add<X, Y>> ? 1 : 0); } \
        else { std::printf(" add=ill-formed add_canon=ill-formed"); }                                                  \
        if constexpr ((Ops & 2) != 0) { put_ratio<ns::ratio_subtract<X, Y>>("subtract"); std::printf(" subtract_canon=%d", canonical<Rat, ns::ratio_subtract<X, Y>> ? 1 : 0); } \
        else { std::printf(" subtract=ill-formed subtract_canon=ill-formed"); }                                        \
        if constexpr ((Ops & 4) != 0) { put_ratio<ns::ratio_multiply<X, Y>>("multiply"); std::printf(" multiply_canon=%d", canonical<Rat, ns::ratio_multiply<X, Y>> ? 1 : 0); } \
        else { std::printf(" multiply=ill-formed multiply_canon=ill-formed"); }                                        \
        if constexpr ((Ops & 8) != 0) { put_ratio<ns::ratio_divide<X, Y>>("divide"); std::printf(" divide_canon=%d", canonical<Rat, ns::ratio_divide<X, Y>> ? 1 : 0); } \
        else { std::printf(" divide=ill-formed divide_canon=ill-formed"); }                                            \
        std::printf(" equal=%d not_equal=%d", ns::ratio_equal_v<X, Y> ? 1 : 0, ns::ratio_not_equal_v<X, Y> ? 1 : 0);           \
        if constexpr ((Ops & 16) != 0) {                                                                               \
            std::printf(" less=%d less_equal=%d greater=%d greater_equal=%d", ns::ratio_less_v<X, Y> ? 1 : 0,          \
                ns::ratio_less_equal_v<X, Y> ? 1 : 0, ns::ratio_greater_v<X, Y> ? 1 : 0,                               \
                ns::ratio_greater_equal_v<X, Y> ? 1 : 0);                                                              \
        } else {                                                                                                       \
            std::printf(" less=ill-formed less_equal=ill-formed greater=ill-formed greater_equal=ill-formed");         \
        }                                                                                                              \
    }

template <long N1, long D1, long N2, long D2, int MOps, int SOps>
static void rarow(int id)
{
    std::printf("%d\t", id);
    C15_RATIO_SIDE(etl, etl::ratio, MOps)
    std::printf("\t");
    C15_RATIO_SIDE(std, std::ratio, SOps)
    std::printf("\n");
}


// ---- logical traits (fixed row) ---------------------------------------------------------------------
template <typename T>
struct Poison {
    static_assert(sizeof(T) == 0, "instantiated although an earlier operand decides the result");
    static constexpr bool value = true;
};
template <template <typename...> class Conj, template <typename...> class Disj, template <typename> class Neg,
    template <typename T, T> class IC, typename True, typename False>
static void put_logic()
{
    using two  = IC<int, 1>;
    using four = IC<long, 1>;
    using zero = IC<int, 0>;
    std::printf("conj0=%d disj0=%d", Conj<>::value ? 1 : 0, Disj<>::value ? 1 : 0);
    std::printf(" conj_tt=%d conj_tf=%d conj_ft=%d disj_ff=%d disj_ft=%d disj_tf=%d", Conj<True, True>::value, Conj<True, False>::value,
        Conj<False, True>::value, Disj<False, False>::value, Disj<False, True>::value, Disj<True, False>::value);
    // the result derives from the deciding operand ([meta.logical])
    std::printf(" conj_2_4=%d conj_2_0_4=%d disj_0_4=%d disj_0_0=%d", static_cast<int>(Conj<two, four>::value),
        static_cast<int>(Conj<two, zero, four>::value), static_cast<int>(Disj<zero, four>::value), static_cast<int>(Disj<zero, zero>::value));
    std::printf(" conj_base=%d disj_base=%d", std::is_base_of_v<zero, Conj<two, zero, four>> ? 1 : 0, std::is_base_of_v<four, Disj<zero, four, two>> ? 1 : 0);
    // operands after the deciding one are not instantiated
    std::printf(" conj_short=%d disj_short=%d", Conj<False, Poison<int>>::value ? 1 : 0, Disj<True, Poison<int>>::value ? 1 : 0);
    std::printf(" neg_t=%d neg_f=%d neg_2=%d", Neg<True>::value ? 1 : 0, Neg<False>::value ? 1 : 0, Neg<two>::value ? 1 : 0);
}

// ---- plain etl-vs-std items of facilities no other row instantiates (fixed row) -----------------------
namespace c15x {
template <typename T> concept bt_etl = etl::boolean_testable<T>;
template <typename T> concept bt_std = std::__detail::__boolean_testable<T>;          // exposition-only in the standard
template <template <bool, typename> class E, bool B, typename T> constexpr bool ei_has_type = requires { typename E<B, T>::type; };
template <typename T> constexpr bool storage_ok = std::is_trivial_v<T> && std::is_standard_layout_v<T>;
template <typename T, int Bits, bool Signed>
constexpr bool int_ok = std::is_integral_v<T> && sizeof(T) * 8 >= Bits && std::is_signed_v<T> == Signed;
} // namespace c15x

#define C15_X_AS(ns, L, A)                                                                                             \
    std::printf(" aligned_storage<" #L "," #A ">=%lu/%lu/%d aligned_storage_t<" #L "," #A ">=%lu/%lu/%d",               \
        (unsigned long)sizeof(typename ns::aligned_storage<L, A>::type), (unsigned long)alignof(typename ns::aligned_storage<L, A>::type), \
        c15x::storage_ok<typename ns::aligned_storage<L, A>::type> ? 1 : 0, (unsigned long)sizeof(ns::aligned_storage_t<L, A>),            \
        (unsigned long)alignof(ns::aligned_storage_t<L, A>), c15x::storage_ok<ns::aligned_storage_t<L, A>> ? 1 : 0);
// default alignment: implementation-defined (libstdc++: always the maximum, etl like libc++/MSVC: that of the largest
// fundamental type that fits) - only what the standard requires is compared
#define C15_X_ASD(ns, L)                                                                                               \
    std::printf(" aligned_storage<" #L ">=%d", (sizeof(ns::aligned_storage_t<L>) >= L && c15x::storage_ok<ns::aligned_storage_t<L>>           \
        && (alignof(ns::aligned_storage_t<L>) & (alignof(ns::aligned_storage_t<L>) - 1)) == 0) ? 1 : 0);
#define C15_X_AU(ns, name, ...)                                                                                        \
    std::printf(" aligned_union<" name ">=%lu/%lu/%lu/%d", (unsigned long)sizeof(ns::aligned_union_t<__VA_ARGS__>),     \
        (unsigned long)alignof(ns::aligned_union_t<__VA_ARGS__>), (unsigned long)ns::aligned_union<__VA_ARGS__>::alignment_value, \
        c15x::storage_ok<typename ns::aligned_union<__VA_ARGS__>::type> ? 1 : 0);
#define C15_X_TY(name, ...)  std::printf(" " name "=%s", enc<__VA_ARGS__>().c_str());
#define C15_X_TRAIT(ns, tr, name, ...) std::printf(" " #tr "<" name ">::type=%s", nary_type_or_none<ns::tr, __VA_ARGS__>().c_str());
#define C15_X_B(name, ...)   std::printf(" " name "=%d", (__VA_ARGS__) ? 1 : 0);
#define C15_X_REL(ns, name, ...)                                                                                       \
    std::printf(" relation<" name ">=%d equivalence_relation<" name ">=%d strict_weak_order<" name ">=%d",             \
        ns::relation<__VA_ARGS__> ? 1 : 0, ns::equivalence_relation<__VA_ARGS__> ? 1 : 0, ns::strict_weak_order<__VA_ARGS__> ? 1 : 0);
#define C15_X_INT(ns, t, bits, sg)  std::printf(" " #t "=%d", c15x::int_ok<ns::t, bits, sg> ? 1 : 0);

#define C15_X_SI(ns, r)  std::printf(" " #r "=%lld/%lld", (long long)ns::r::num, (long long)ns::r::den);

#define C15_X_SIDE(ns)                                                                                                 \
    static void put_x_##ns()                                                                                           \
    {                                                                                                                  \
        using RWi  = ns::reference_wrapper<int>;                                                                       \
        using RWci = ns::reference_wrapper<int const>;                                                                 \
        C15_X_AS(ns, 1, 1) C15_X_AS(ns, 3, 2) C15_X_AS(ns, 5, 4) C15_X_AS(ns, 8, 8) C15_X_AS(ns, 16, 1) C15_X_AS(ns, 17, 16) \
        C15_X_ASD(ns, 1) C15_X_ASD(ns, 3) C15_X_ASD(ns, 8) C15_X_ASD(ns, 17) C15_X_ASD(ns, 64)                          \
        C15_X_AU(ns, "3,char,double", 3, char, double) C15_X_AU(ns, "17,int", 17, int) C15_X_AU(ns, "1,char", 1, char)  \
        C15_X_AU(ns, "10,ldouble,short", 10, long double, short) C15_X_AU(ns, "0,short,char,int", 0, short, char, int)  \
        C15_X_TY("conditional<1,int,long>::type", typename ns::conditional<true, int, long>::type)                    \
        C15_X_TY("conditional<0,int,long>::type", typename ns::conditional<false, int, long>::type)                   \
        C15_X_TY("conditional_t<1,int&,void>", ns::conditional_t<true, int&, void>)                                   \
        C15_X_TY("conditional_t<0,int&,void>", ns::conditional_t<false, int&, void>)                                  \
        C15_X_TY("enable_if<1,int>::type", typename ns::enable_if<true, int>::type)                                   \
        C15_X_TY("enable_if<1>::type", typename ns::enable_if<true>::type)                                            \
        C15_X_TY("enable_if_t<1,int_const&>", ns::enable_if_t<true, int const&>)                                      \
        C15_X_B("enable_if<0,int>::type?", c15x::ei_has_type<ns::enable_if, false, int>)                             \
        C15_X_B("enable_if<1,int>::type?", c15x::ei_has_type<ns::enable_if, true, int>)                                    \
        C15_X_B("enable_if<0>::type?", c15x::ei_has_type<ns::enable_if, false, void>)                                         \
        C15_X_TY("void_t<>", ns::void_t<>) C15_X_TY("void_t<int,long&,Cls>", ns::void_t<int, long&, Cls>)              \
        C15_X_TRAIT(ns, unwrap_reference, "int", int) C15_X_TRAIT(ns, unwrap_reference, "int&", int&)                  \
        C15_X_TRAIT(ns, unwrap_reference, "int_const", int const) C15_X_TRAIT(ns, unwrap_reference, "Cls", Cls)        \
        C15_X_TRAIT(ns, unwrap_reference, "RW<int>", RWi) C15_X_TRAIT(ns, unwrap_reference, "RW<int_const>", RWci)     \
        C15_X_B("unwrap_reference<RW<int>_const>::type==RW<int>_const", std::is_same_v<typename ns::unwrap_reference<RWi const>::type, RWi const>) \
        C15_X_B("unwrap_reference<RW<int>&>::type==RW<int>&", std::is_same_v<typename ns::unwrap_reference<RWi&>::type, RWi&>) \
        C15_X_TY("unwrap_reference_t<RW<int>>", ns::unwrap_reference_t<RWi>)                                          \
        C15_X_TY("unwrap_reference_t<long>", ns::unwrap_reference_t<long>)                                            \
        C15_X_TRAIT(ns, unwrap_ref_decay, "int", int) C15_X_TRAIT(ns, unwrap_ref_decay, "int&", int&)                  \
        C15_X_TRAIT(ns, unwrap_ref_decay, "int_const&", int const&) C15_X_TRAIT(ns, unwrap_ref_decay, "int[3]", int[3]) \
        C15_X_TRAIT(ns, unwrap_ref_decay, "int(int)", int(int)) C15_X_TRAIT(ns, unwrap_ref_decay, "Cls&&", Cls&&)      \
        C15_X_TRAIT(ns, unwrap_ref_decay, "RW<int>", RWi) C15_X_TRAIT(ns, unwrap_ref_decay, "RW<int>&", RWi&)          \
        C15_X_TRAIT(ns, unwrap_ref_decay, "RW<int>_const&", RWi const&)                                               \
        C15_X_TRAIT(ns, unwrap_ref_decay, "RW<int_const>&&", RWci&&)                                                  \
        C15_X_TY("unwrap_ref_decay_t<RW<int>>", ns::unwrap_ref_decay_t<RWi>)                                          \
        C15_X_TY("unwrap_ref_decay_t<int_const&>", ns::unwrap_ref_decay_t<int const&>)                                \
        C15_X_B("predicate<FoN,int>", ns::predicate<inv::FoN, int>) C15_X_B("predicate<FoN>", ns::predicate<inv::FoN>) \
        C15_X_B("predicate<FoV,int>", ns::predicate<inv::FoV, int>) C15_X_B("predicate<FoBin,int,long>", ns::predicate<inv::FoBin, int, long>) \
        C15_X_B("predicate<pm_fcn,S>", ns::predicate<inv::pm_fcn, inv::S>) C15_X_B("predicate<pm_fv,S>", ns::predicate<inv::pm_fv, inv::S>) \
        C15_X_B("predicate<pd_x,S>", ns::predicate<inv::pd_x, inv::S>) C15_X_B("predicate<FoP_const,int>", ns::predicate<inv::FoP const, int>) \
        C15_X_REL(ns, "FoBin,int,int", inv::FoBin, int, int) C15_X_REL(ns, "FoBin,int,long", inv::FoBin, int, long)    \
        C15_X_REL(ns, "FoBin,int,S", inv::FoBin, int, inv::S) C15_X_REL(ns, "FoBinS,S,D", inv::FoBinS, inv::S, inv::D) \
        C15_X_REL(ns, "FoBinS,S,int", inv::FoBinS, inv::S, int) C15_X_REL(ns, "FoN,int,int", inv::FoN, int, int)       \
        C15_X_REL(ns, "FoBin&,char,double", inv::FoBin&, char, double)                                                \
        C15_X_B("boolean_testable<bool>", c15x::bt_##ns<bool>) C15_X_B("boolean_testable<int>", c15x::bt_##ns<int>)    \
        C15_X_B("boolean_testable<int*>", c15x::bt_##ns<int*>) C15_X_B("boolean_testable<void>", c15x::bt_##ns<void>)  \
        C15_X_B("boolean_testable<Cls>", c15x::bt_##ns<Cls>) C15_X_B("boolean_testable<nullptr_t>", c15x::bt_##ns<decltype(nullptr)>) \
        C15_X_B("boolean_testable<bool&>", c15x::bt_##ns<bool&>) C15_X_B("boolean_testable<ES>", c15x::bt_##ns<ES>)    \
        C15_X_B("boolean_testable<ConvToInt>", c15x::bt_##ns<ConvToInt>)                                              \
        C15_X_B("boolean_testable<true_type>", c15x::bt_##ns<ns::true_type>)                                          \
        C15_X_TY("int8_t", ns::int8_t) C15_X_TY("int16_t", ns::int16_t) C15_X_TY("int32_t", ns::int32_t)              \
        C15_X_TY("int64_t", ns::int64_t) C15_X_TY("uint8_t", ns::uint8_t) C15_X_TY("uint16_t", ns::uint16_t)          \
        C15_X_TY("uint32_t", ns::uint32_t) C15_X_TY("uint64_t", ns::uint64_t) C15_X_TY("intmax_t", ns::intmax_t)      \
        C15_X_TY("uintmax_t", ns::uintmax_t) C15_X_TY("intptr_t", ns::intptr_t) C15_X_TY("uintptr_t", ns::uintptr_t)  \
        C15_X_TY("size_t", ns::size_t) C15_X_TY("ptrdiff_t", ns::ptrdiff_t) C15_X_TY("nullptr_t", ns::nullptr_t)      \
        /* least / fast: implementation-defined choice; at least N bits, the right signedness */                       \
        C15_X_INT(ns, int_least8_t, 8, true) C15_X_INT(ns, int_least16_t, 16, true) C15_X_INT(ns, int_least32_t, 32, true) \
        C15_X_INT(ns, int_least64_t, 64, true) C15_X_INT(ns, uint_least8_t, 8, false) C15_X_INT(ns, uint_least16_t, 16, false) \
        C15_X_INT(ns, uint_least32_t, 32, false) C15_X_INT(ns, uint_least64_t, 64, false) C15_X_INT(ns, int_fast8_t, 8, true) \
        C15_X_INT(ns, int_fast16_t, 16, true) C15_X_INT(ns, int_fast32_t, 32, true) C15_X_INT(ns, int_fast64_t, 64, true) \
        C15_X_INT(ns, uint_fast8_t, 8, false) C15_X_INT(ns, uint_fast16_t, 16, false) C15_X_INT(ns, uint_fast32_t, 32, false) \
        C15_X_INT(ns, uint_fast64_t, 64, false)                                                                       \
        C15_X_SI(ns, atto) C15_X_SI(ns, femto) C15_X_SI(ns, pico) C15_X_SI(ns, nano) C15_X_SI(ns, micro) C15_X_SI(ns, milli) \
        C15_X_SI(ns, centi) C15_X_SI(ns, deci) C15_X_SI(ns, deca) C15_X_SI(ns, hecto) C15_X_SI(ns, kilo) C15_X_SI(ns, mega) \
        C15_X_SI(ns, giga) C15_X_SI(ns, tera) C15_X_SI(ns, peta) C15_X_SI(ns, exa)                                     \
        /* an incomplete class type, where the standard allows one */                                                  \
        C15_X_B("is_class<Incomplete>", ns::is_class_v<Incomplete>) C15_X_B("is_union<Incomplete>", ns::is_union_v<Incomplete>) \
        C15_X_B("is_enum<Incomplete>", ns::is_enum_v<Incomplete>) C15_X_B("is_void<Incomplete>", ns::is_void_v<Incomplete>) \
        C15_X_B("is_object<Incomplete>", ns::is_object_v<Incomplete>) C15_X_B("is_compound<Incomplete>", ns::is_compound_v<Incomplete>) \
        C15_X_B("is_const<Incomplete_const>", ns::is_const_v<Incomplete const>)                                       \
        C15_X_B("is_pointer<Incomplete*>", ns::is_pointer_v<Incomplete*>)                                             \
        C15_X_B("is_member_object_pointer<int_Incomplete::*>", ns::is_member_object_pointer_v<int Incomplete::*>)     \
        C15_X_B("is_same<remove_cv_t<Incomplete_const>,Incomplete>", ns::is_same_v<ns::remove_cv_t<Incomplete const>, Incomplete>) \
        C15_X_B("is_base_of<Incomplete,Incomplete>", ns::is_base_of_v<Incomplete, Incomplete>)                        \
        C15_X_B("is_convertible<Incomplete*,void*>", ns::is_convertible_v<Incomplete*, void*>)                        \
        C15_X_B("is_convertible<Incomplete&,Incomplete_const&>", ns::is_convertible_v<Incomplete&, Incomplete const&>) \
        C15_X_TY("add_pointer_t<Incomplete>", ns::add_pointer_t<Incomplete>)                                          \
        C15_X_TY("decay_t<Incomplete_const&>", ns::decay_t<Incomplete const&>)                                        \
        C15_X_TY("add_rvalue_reference_t<Incomplete>", ns::add_rvalue_reference_t<Incomplete>)                        \
        C15_X_TY("remove_extent_t<Incomplete[]>", ns::remove_extent_t<Incomplete[]>)                                  \
        std::printf(" byte=%d/%lu/%s max_align_t=%lu/%d", std::is_enum_v<ns::byte> ? 1 : 0, (unsigned long)sizeof(ns::byte), \
            enc<std::underlying_type_t<ns::byte>>().c_str(), (unsigned long)alignof(ns::max_align_t),                 \
            c15x::storage_ok<ns::max_align_t> ? 1 : 0);                                                                \
    }
C15_X_SIDE(etl)
C15_X_SIDE(std)

template <int>
static void mrow(int id)
{
    std::printf("%d\t", id);
    put_logic<etl::conjunction, etl::disjunction, etl::negation, etl::integral_constant, etl::true_type, etl::false_type>();
    put_x_etl();
    std::printf("\t");
    put_logic<std::conjunction, std::disjunction, std::negation, std::integral_constant, std::true_type, std::false_type>();
    put_x_std();
    std::printf("\n");
}

int main()
{
#include C15_INC
    return 0;
}
