// C03 harness: lifetime of the elements of the owning tetl types, observed through an instrumented
// element type.  Protocol: see lean/Tetl/C03/Driver.lean.  Output per line: `impl <TAB> std`.
//
// Every user-provided special member of `Elem<K, TY>` (K = declared members copy+move / move-only / copy-only
// plus one bit per special member that is DEFAULTED instead — the mixed kinds `da`, `dm`, `dc`; TY = alternative
// tag) reports to a registry keyed by address: live / dead, and the type alive at that address; "moved-from" is
// part of the object representation (val == -1), and a destructor leaves val == -2 behind.
// A defaulted (trivial) member copies the object representation and is invisible to the registry; it sees the
// consequences: an object that appears without a constructor call is *adopted* the first time a user-provided member
// (or the sweep over the slots the owner claims, after every operation) meets it — unless its bytes are those of a
// destroyed object; an object that is never destroyed stays in the registry; a constructor over a live one is an error.  An illegal transition (constructor on a live address, any member on a dead one, second
// destructor, use as another type, move assignment of a value-holding object to itself) is recorded
// as `life(<kind>)`, never aborted on.  Events are counted while a library call is in progress
// (`Window`); objects the harness itself creates as arguments are flagged external.
//
// impl column:  e=<first illegal transition or -> t=<live objects outside both owners that are not
// arguments> x=<owner slots whose liveness contradicts size()/index()/bool()> A=<owner> B=<owner>.
// std column: the same operations on std::vector<int> / std::set<int> / std::variant / std::optional /
// std::function, which validates the Lean spec.
#include "proto.hpp"

#include <etl/expected.hpp>
#include <etl/flat_set.hpp>
#include <etl/functional.hpp>
#include <etl/inplace_vector.hpp>
#include <etl/optional.hpp>
#include <etl/set.hpp>
#include <etl/stack.hpp>
#include <etl/utility.hpp>
#include <etl/variant.hpp>
#include <etl/vector.hpp>

#include <unistd.h>

#include <algorithm>
#include <functional>
#include <map>
#include <memory>
#include <new>
#include <optional>
#include <set>
#include <string>
#include <utility>
#include <variant>
#include <vector>

using proto::Line;

// ------------------------------------------------------------------ registry

inline constexpr int MOVED = -1; // object representation of a moved-from element
inline constexpr int DEAD  = -2; // what a destructor leaves behind

struct Registry {
    struct Ent {
        int ty;
        bool ext;
    };
    std::map<std::uintptr_t, Ent> live;
    long vc = 0, cc = 0, mc = 0, ca = 0, ma = 0, d = 0;
    long ad = 0; // objects that came to life through a defaulted (trivial) constructor and were adopted
    std::string err;
    bool window = false;

    void reset() { *this = Registry{}; }
    void fail(char const* what)
    {
        if (err.empty()) { err = std::string("life(") + what + ")"; }
    }
    static std::uintptr_t key(void const* p) { return reinterpret_cast<std::uintptr_t>(p); }
    static int bytes(void const* p) { return *static_cast<int const volatile*>(p); }

    // an object nobody saw being constructed: legitimate for an element kind with a defaulted constructor, unless the
    // bytes are those of a destroyed object
    bool adopt(void const* p, int ty, bool may)
    {
        if (!may || bytes(p) == DEAD) { return false; }
        live[key(p)] = Ent{ty, false};
        ++ad;
        return true;
    }

    // returns false when the object cannot be used
    bool check_live(void const* p, int ty, bool may_adopt = false)
    {
        auto it = live.find(key(p));
        if (it == live.end()) {
            if (adopt(p, ty, may_adopt)) { return true; }
            fail("use-dead");
            return false;
        }
        if (it->second.ty != ty) { fail("type-mismatch"); return false; }
        return true;
    }
    void construct(void const* p, int ty)
    {
        auto it = live.find(key(p));
        if (it != live.end()) { fail("construct-over-live"); }
        live[key(p)] = Ent{ty, !window};
    }
    void destroy(void const* p, int ty, bool may_adopt = false)
    {
        auto it = live.find(key(p));
        if (it == live.end()) {
            if (!adopt(p, ty, may_adopt)) { fail("double-destroy"); return; }
            it = live.find(key(p));
        }
        if (it->second.ty != ty) { fail("type-mismatch"); }
        live.erase(it);
    }
    // sweep: a slot the owner claims to hold an element
    void claim(std::uintptr_t p, int ty, bool may_adopt)
    {
        if (live.count(p) == 0) { adopt(reinterpret_cast<void const*>(p), ty, may_adopt); }
    }
};

inline Registry reg; // one registry for all translation units (the harness may be compiled in parts)

struct Window {
    Window() { reg.window = true; }
    ~Window() { reg.window = false; }
};

// element kind: bits 0-1 = which special members are declared, then one bit per special member that is DEFAULTED
// on its first declaration (trivial: copies the bytes, leaves its source alone, invisible to the registry)
enum Kind {
    CM = 0, MO = 1, CO = 2,
    DEF_CC = 4, DEF_MC = 8, DEF_CA = 16, DEF_MA = 32,
    DA = CM | DEF_CA | DEF_MA, // defaulted copy / move assignment, user-provided constructors and destructor
    DM = CM | DEF_MC | DEF_MA, // defaulted move operations, user-provided copy operations and destructor
    DC = CM | DEF_CC | DEF_CA, // defaulted copy operations, user-provided move operations and destructor
};
constexpr int members(int k) { return k & 3; }
constexpr bool has_copy(int k) { return members(k) != MO; }
constexpr bool has_move(int k) { return members(k) != CO; }
constexpr bool def(int k, int bit) { return (k & bit) != 0; }
constexpr bool adopts(int k) { return def(k, DEF_CC) || def(k, DEF_MC); }

inline int cur_kind = CM;

template <int K, int TY>
struct Elem {
    int val;
    static constexpr bool A = adopts(K);

    Elem() noexcept : val(0)
    {
        reg.construct(this, TY);
        if (reg.window) { ++reg.vc; }
    }
    explicit Elem(int v) noexcept : val(v)
    {
        reg.construct(this, TY);
        if (reg.window) { ++reg.vc; }
    }
    Elem(Elem const& o) noexcept
        requires(has_copy(K) && !def(K, DEF_CC))
        : val(o.val)
    {
        reg.check_live(&o, TY, A);
        reg.construct(this, TY);
        if (reg.window) { ++reg.cc; }
    }
    Elem(Elem const&)
        requires(has_copy(K) && def(K, DEF_CC))
    = default;
    Elem(Elem&& o) noexcept
        requires(has_move(K) && !def(K, DEF_MC))
        : val(o.val)
    {
        reg.check_live(&o, TY, A);
        reg.construct(this, TY);
        o.val = MOVED;
        if (reg.window) { ++reg.mc; }
    }
    Elem(Elem&&)
        requires(has_move(K) && def(K, DEF_MC))
    = default;
    auto operator=(Elem const& o) noexcept -> Elem&
        requires(has_copy(K) && !def(K, DEF_CA))
    {
        reg.check_live(this, TY, A);
        reg.check_live(&o, TY, A);
        val = o.val;
        if (reg.window) { ++reg.ca; }
        return *this;
    }
    auto operator=(Elem const&) -> Elem&
        requires(has_copy(K) && def(K, DEF_CA))
    = default;
    auto operator=(Elem&& o) noexcept -> Elem&
        requires(has_move(K) && !def(K, DEF_MA))
    {
        bool const okd = reg.check_live(this, TY, A);
        reg.check_live(&o, TY, A);
        if (this == &o) {
            // the move assignment of this type resets its source: a value-holding object loses its value
            if (okd && val != MOVED) { reg.fail("self-move"); }
            val = MOVED;
        } else {
            val   = o.val;
            o.val = MOVED;
        }
        if (reg.window) { ++reg.ma; }
        return *this;
    }
    auto operator=(Elem&&) -> Elem&
        requires(has_move(K) && def(K, DEF_MA))
    = default;
    ~Elem() noexcept
    {
        reg.destroy(this, TY, A);
        if (reg.window) { ++reg.d; }
        *const_cast<int volatile*>(&val) = DEAD;
    }

    // every other member function: the object must be alive
    [[nodiscard]] auto get() const noexcept -> int
    {
        reg.check_live(this, TY, A);
        return val;
    }
    auto operator()() const noexcept -> int { return get(); }
    friend auto operator<(Elem const& a, Elem const& b) noexcept -> bool { return a.get() < b.get(); }
    friend auto operator==(Elem const& a, Elem const& b) noexcept -> bool { return a.get() == b.get(); }
};

static_assert(std::is_copy_constructible_v<Elem<CM, 0>> && std::is_move_assignable_v<Elem<CM, 0>>);
static_assert(!std::is_copy_constructible_v<Elem<MO, 0>> && !std::is_copy_assignable_v<Elem<MO, 0>>);
static_assert(std::is_move_constructible_v<Elem<MO, 0>> && std::is_move_assignable_v<Elem<MO, 0>>);
static_assert(std::is_copy_constructible_v<Elem<CO, 0>> && std::is_nothrow_move_constructible_v<Elem<CO, 0>>);
static_assert(!std::is_trivial_v<Elem<CM, 0>> && sizeof(Elem<CM, 0>) == sizeof(int));
// the mixed kinds: which traits the owners' `requires` clauses see (the builtin behind is_trivially_*_constructible
// includes the destructor, so no kind with a user-provided destructor is trivially constructible)
static_assert(std::is_trivially_copy_assignable_v<Elem<DA, 0>> && std::is_trivially_move_assignable_v<Elem<DA, 0>>);
static_assert(!std::is_trivially_copy_constructible_v<Elem<DA, 0>> && !std::is_trivially_move_constructible_v<Elem<DA, 0>>);
static_assert(std::is_trivially_move_assignable_v<Elem<DM, 0>> && !std::is_trivially_copy_assignable_v<Elem<DM, 0>>);
static_assert(!std::is_trivially_move_constructible_v<Elem<DM, 0>> && std::is_nothrow_move_constructible_v<Elem<DM, 0>>);
static_assert(std::is_trivially_copy_assignable_v<Elem<DC, 0>> && !std::is_trivially_move_assignable_v<Elem<DC, 0>>);
static_assert(!std::is_trivially_copy_constructible_v<Elem<DC, 0>> && !std::is_trivially_destructible_v<Elem<DC, 0>>);

// ------------------------------------------------------------------ observation helpers

static std::string fmt_ent(std::uintptr_t addr, Registry::Ent const& e, bool with_ty)
{
    int const raw = Registry::bytes(reinterpret_cast<void const*>(addr));
    std::string v = raw == MOVED ? std::string("M") : std::to_string(raw);
    return with_ty ? std::to_string(e.ty) + ":" + v : v;
}

struct Region {
    std::uintptr_t lo = 0, hi = 0;
    bool has(std::uintptr_t p) const { return p >= lo && p < hi; }
};

static long count_temps(Region const& a, Region const& b)
{
    long t = 0;
    for (auto const& [p, e] : reg.live) {
        if (!e.ext && !a.has(p) && !b.has(p)) { ++t; }
    }
    return t;
}

// cumulative event counts; a category whose member is defaulted in the current element kind is invisible (`-`), except
// that with exactly one defaulted constructor the adoptions are the constructions through it
static std::string counts()
{
    int const k        = cur_kind;
    bool const dcc     = def(k, DEF_CC);
    bool const dmc     = def(k, DEF_MC);
    auto num           = [](long v) { return std::to_string(v); };
    std::string const c_cc = !dcc ? num(reg.cc) : (dmc ? std::string("-") : num(reg.ad));
    std::string const c_mc = !dmc ? num(reg.mc) : (dcc ? std::string("-") : num(reg.ad));
    std::string const c_ca = def(k, DEF_CA) ? std::string("-") : num(reg.ca);
    std::string const c_ma = def(k, DEF_MA) ? std::string("-") : num(reg.ma);
    return " c=" + num(reg.vc) + "," + c_cc + "," + c_mc + "," + c_ca + "," + c_ma + "," + num(reg.d);
}

static bool balanced() { return reg.vc + reg.cc + reg.mc + reg.ad == reg.d; }

static std::string err_or_dash() { return reg.err.empty() ? "-" : reg.err; }

// ------------------------------------------------------------------ sessions

struct Session {
    virtual ~Session()                                  = default;
    virtual std::string step(Line const& l)             = 0; // "" = bad-op
    virtual std::string line()                          = 0; // impl \t std
    virtual std::string detail()                        = 0;
    virtual std::string finish()                        = 0;
    virtual void abandon()                              = 0; // destroy whatever is alive, silently
};

template <typename T>
struct Raw {
    alignas(T) unsigned char buf[sizeof(T)];
    bool alive = false;
    T* ptr() { return std::launder(reinterpret_cast<T*>(buf)); }
    T& operator*() { return *ptr(); }
    T* operator->() { return ptr(); }
    Region region() const
    {
        auto lo = reinterpret_cast<std::uintptr_t>(buf);
        return Region{lo, lo + sizeof(T)};
    }
};

// abstract (std side) owner
struct AObj {
    bool unspec = false;
    std::vector<int> vec;        // containers
    int ix = 0;                  // variant-like / function
    bool has_v = false;
    int v = 0;
    std::string str(bool is_vec) const
    {
        if (unspec) return "u";
        if (is_vec) {
            std::vector<long long> t(vec.begin(), vec.end());
            return proto::fmt_list(t);
        }
        return std::to_string(ix) + ":" + (has_v ? std::to_string(v) : std::string("-"));
    }
};

enum class Own { sv, iv, st, ss, fs, var, opt, exp, fn };

// ---------------------------------------------------------------- containers

template <Own O, int K, int CAP>
struct VecSession final : Session {
    using E = Elem<K, 0>;
    using SV = etl::static_vector<E, CAP>;
    // clang-format off
    using T = std::conditional_t<O == Own::sv, SV,
              std::conditional_t<O == Own::iv, etl::inplace_vector<E, CAP>,
              std::conditional_t<O == Own::st, etl::stack<E, SV>,
              std::conditional_t<O == Own::ss, etl::static_set<E, CAP>,
                                               etl::flat_set<E, SV>>>>>;
    // clang-format on
    static constexpr bool copyable = has_copy(K);

    Raw<T> obj[2];
    // a corrupted owner that constructs past its storage (a constructor over a live object is invisible when it is a
    // defaulted one) must not reach the std-side bookkeeping
    unsigned char guard[1024] = {};
    // std side: sequence containers as std::vector<int>, sets as std::set<int> (kept in `vec`, sorted)
    AObj abs[2];

    VecSession()
    {
        for (auto& o : obj) {
            Window w;
            new (o.buf) T{};
            o.alive = true;
        }
    }

    void abandon() override
    {
        for (auto& o : obj) {
            if (o.alive) { o->~T(); o.alive = false; }
        }
    }

    std::size_t size_of(int t) { return obj[t]->size(); }

    std::string obj_str(int t)
    {
        if (abs[t].unspec) return "u";
        std::string r = "[";
        auto base = obj[t].region().lo;
        for (std::size_t i = 0; i < size_of(t); ++i) {
            if (i) r += ",";
            auto p  = base + i * sizeof(E);
            auto it = reg.live.find(p);
            r += it == reg.live.end() ? std::string("D") : fmt_ent(p, it->second, false);
        }
        return r + "]";
    }

    long misplaced(int t)
    {
        long x    = 0;
        auto base = obj[t].region().lo;
        auto n    = size_of(t);
        for (std::size_t i = 0; i < CAP; ++i) {
            bool const live = reg.live.count(base + i * sizeof(E)) != 0;
            if (live != (i < n)) { ++x; }
        }
        // anything alive inside the object that is not on a slot boundary
        for (auto const& [p, e] : reg.live) {
            if (obj[t].region().has(p) && ((p - base) % sizeof(E) != 0 || (p - base) / sizeof(E) >= CAP)) { ++x; }
        }
        return x;
    }

    // adopt the elements the owner claims to hold that came to life through a defaulted constructor
    void sweep()
    {
        // an owner whose size exceeds its capacity is corrupt: nothing after this line is executed
        for (int t = 0; t < 2; ++t) {
            if (size_of(t) > static_cast<std::size_t>(CAP)) { reg.fail("size-exceeds-capacity"); }
        }
        if constexpr (adopts(K)) {
            if (!reg.err.empty()) return;
            for (int t = 0; t < 2; ++t) {
                auto base = obj[t].region().lo;
                auto n    = std::min<std::size_t>(size_of(t), CAP);
                for (std::size_t i = 0; i < n; ++i) { reg.claim(base + i * sizeof(E), 0, true); }
            }
        }
    }

    std::string line() override
    {
        sweep();
        std::string impl = "e=" + err_or_dash() + " t=" + std::to_string(count_temps(obj[0].region(), obj[1].region()))
                         + " x=" + std::to_string(misplaced(0) + misplaced(1)) + " A=" + obj_str(0) + " B=" + obj_str(1);
        std::string sd = "e=- t=0 x=0 A=" + abs[0].str(true) + " B=" + abs[1].str(true);
        return impl + "\t" + sd;
    }

    std::string detail() override
    {
        std::string r;
        for (int t = 0; t < 2; ++t) {
            r += t == 0 ? "A=[" : " B=[";
            auto base = obj[t].region().lo;
            for (std::size_t i = 0; i < CAP; ++i) {
                if (i) r += ",";
                auto p  = base + i * sizeof(E);
                auto it = reg.live.find(p);
                r += it == reg.live.end() ? std::string(".") : fmt_ent(p, it->second, true);
            }
            r += "]";
        }
        return r + counts() + "\t*";
    }

    std::string finish() override
    {
        {
            Window w;
            obj[1]->~T();
            obj[1].alive = false;
            obj[0]->~T();
            obj[0].alive = false;
        }
        long live = 0;
        for (auto const& [p, e] : reg.live) {
            if (!e.ext) { ++live; }
        }
        bool const bal = balanced();
        return "e=" + err_or_dash() + " live=" + std::to_string(live) + " bal=" + (bal ? "1" : "0") + "\te=- live=0 bal=1";
    }

    // ---- std side helpers
    static void a_insert(std::vector<int>& l, std::size_t pos, std::vector<int> const& xs)
    {
        l.insert(l.begin() + static_cast<std::ptrdiff_t>(std::min(pos, l.size())), xs.begin(), xs.end());
    }
    static void a_erase(std::vector<int>& l, std::size_t f, std::size_t la)
    {
        f  = std::min(f, l.size());
        la = std::min(std::max(la, f), l.size());
        l.erase(l.begin() + static_cast<std::ptrdiff_t>(f), l.begin() + static_cast<std::ptrdiff_t>(la));
    }
    static void a_set_insert(std::vector<int>& l, int k)
    {
        std::set<int> s(l.begin(), l.end());
        if (s.count(k) == 0 && s.size() < static_cast<std::size_t>(CAP)) { s.insert(k); }
        l.assign(s.begin(), s.end());
    }

    std::string step(Line const& l) override
    {
        int const t = static_cast<int>(l.i("t", 0));
        int const o = 1 - t;
        T& a        = *obj[t];
        T& b        = *obj[o];
        auto& A     = abs[t];
        auto& B     = abs[o];
        auto const& op = l.op;
        auto v = [&] { return static_cast<int>(l.i("v")); };
        auto pos = [&] { return static_cast<std::size_t>(l.i("pos")); };
        constexpr bool seq = O == Own::sv || O == Own::iv || O == Own::st;
        constexpr bool set = O == Own::ss || O == Own::fs;

        // ---- members shared by all container owners
        if (op == "cctor") {
            if constexpr (copyable) {
                { Window w; a.~T(); new (obj[t].buf) T(std::as_const(b)); }
                A = B;
                return line();
            } else { return ""; }
        }
        if (op == "mctor") {
            { Window w; a.~T(); new (obj[t].buf) T(std::move(b)); }
            A        = B;
            B.unspec = true;
            return line();
        }
        if constexpr (O != Own::iv) {
            if (op == "cassign") {
                if constexpr (copyable) {
                    { Window w; a = std::as_const(b); }
                    A = B;
                    return line();
                } else { return ""; }
            }
            // static_vector's move assignment is constrained on is_assignable<T&, T&> (copy assignability):
            // a vector of move-only elements has neither move assignment nor a usable swap
            if (op == "massign") {
                if constexpr (copyable) {
                    { Window w; a = std::move(b); }
                    A        = B;
                    B.unspec = true;
                    return line();
                } else { return ""; }
            }
            if (op == "cassign_self") {
                if constexpr (copyable) {
                    T& alias = a;
                    { Window w; a = std::as_const(alias); }
                    return line();
                } else { return ""; }
            }
            if (op == "swap") {
                if constexpr (copyable) {
                    { Window w; a.swap(b); }
                    std::swap(A, B);
                    return line();
                } else { return ""; }
            }
            if (op == "swap_self") {
                if constexpr (copyable) {
                    T& alias = a;
                    { Window w; a.swap(alias); }
                    return line();
                } else { return ""; }
            }
        }
        if constexpr (O != Own::st) {
            if (op == "clear") {
                { Window w; a.clear(); }
                A = AObj{};
                return line();
            }
        }
        // ---- sequence members
        if constexpr (seq) {
            if (op == "push_c") {
                if constexpr (copyable) {
                    E x(v());
                    {
                        Window w;
                        if constexpr (O == Own::sv) a.push_back(std::as_const(x));
                        else if constexpr (O == Own::iv) a.unchecked_push_back(std::as_const(x));
                        else a.push(std::as_const(x));
                    }
                    if (!A.unspec) A.vec.push_back(v());
                    return line();
                } else { return ""; }
            }
            if (op == "push_m") {
                E x(v());
                {
                    Window w;
                    if constexpr (O == Own::sv) a.push_back(std::move(x));
                    else if constexpr (O == Own::iv) a.unchecked_push_back(std::move(x));
                    else a.push(std::move(x));
                }
                if (!A.unspec) A.vec.push_back(v());
                return line();
            }
            if (op == "emplace_back") {
                {
                    Window w;
                    if constexpr (O == Own::sv) a.emplace_back(v());
                    else if constexpr (O == Own::iv) a.unchecked_emplace_back(v());
                    else a.emplace(v());
                }
                if (!A.unspec) A.vec.push_back(v());
                return line();
            }
            if (op == "pop") {
                {
                    Window w;
                    if constexpr (O == Own::st) a.pop();
                    else a.pop_back();
                }
                if (!A.unspec && !A.vec.empty()) A.vec.pop_back();
                return line();
            }
        }
        if constexpr (O == Own::iv) {
            bool const full = A.vec.size() == static_cast<std::size_t>(CAP);
            if (op == "try_push_c") {
                if constexpr (copyable) {
                    E x(v());
                    { Window w; (void)a.try_push_back(std::as_const(x)); }
                    if (!A.unspec && !full) A.vec.push_back(v());
                    return line();
                } else { return ""; }
            }
            if (op == "try_push_m") {
                E x(v());
                { Window w; (void)a.try_push_back(std::move(x)); }
                if (!A.unspec && !full) A.vec.push_back(v());
                return line();
            }
            if (op == "try_emplace_back") {
                { Window w; (void)a.try_emplace_back(v()); }
                if (!A.unspec && !full) A.vec.push_back(v());
                return line();
            }
        }
        if constexpr (O == Own::sv) {
            if (op == "ins_c") {
                if constexpr (copyable) {
                    E x(v());
                    { Window w; a.insert(a.begin() + pos(), std::as_const(x)); }
                    if (!A.unspec) a_insert(A.vec, pos(), {v()});
                    return line();
                } else { return ""; }
            }
            if (op == "ins_m") {
                E x(v());
                { Window w; a.insert(a.begin() + pos(), std::move(x)); }
                if (!A.unspec) a_insert(A.vec, pos(), {v()});
                return line();
            }
            if (op == "ins_n") {
                if constexpr (copyable) {
                    E x(v());
                    auto n = static_cast<std::size_t>(l.i("n"));
                    { Window w; a.insert(a.begin() + pos(), n, std::as_const(x)); }
                    if (!A.unspec) a_insert(A.vec, pos(), std::vector<int>(n, v()));
                    return line();
                } else { return ""; }
            }
            if (op == "ins_r" || op == "assign_r") {
                if constexpr (copyable) {
                    std::vector<int> vals;
                    for (auto x : l.list("xs")) vals.push_back(static_cast<int>(x));
                    std::vector<E> xs;
                    xs.reserve(vals.size() + 1);
                    for (auto x : vals) xs.emplace_back(x);
                    E const* f = xs.data();
                    if (op == "ins_r") {
                        { Window w; a.insert(a.begin() + pos(), f, f + xs.size()); }
                        if (!A.unspec) a_insert(A.vec, pos(), vals);
                    } else {
                        { Window w; a.assign(f, f + xs.size()); }
                        A     = AObj{};
                        A.vec = vals;
                    }
                    return line();
                } else { return ""; }
            }
            if (op == "emplace") {
                { Window w; a.emplace(a.begin() + pos(), v()); }
                if (!A.unspec) a_insert(A.vec, pos(), {v()});
                return line();
            }
            if (op == "resize") {
                auto n = static_cast<std::size_t>(l.i("n"));
                { Window w; a.resize(n); }
                if (!A.unspec) A.vec.resize(n, 0);
                return line();
            }
            if (op == "resize_v") {
                if constexpr (copyable) {
                    E x(v());
                    auto n = static_cast<std::size_t>(l.i("n"));
                    { Window w; a.resize(n, std::as_const(x)); }
                    if (!A.unspec) A.vec.resize(n, v());
                    return line();
                } else { return ""; }
            }
            if (op == "assign_n") {
                if constexpr (copyable) {
                    E x(v());
                    auto n = static_cast<std::size_t>(l.i("n"));
                    { Window w; a.assign(n, std::as_const(x)); }
                    A     = AObj{};
                    A.vec = std::vector<int>(n, v());
                    return line();
                } else { return ""; }
            }
            // the sized / fill / range constructors: `t.~T(); new (&t) T(...)`
            if (op == "ctor_n") {
                auto n = static_cast<std::size_t>(l.i("n"));
                { Window w; a.~T(); new (obj[t].buf) T(n); }
                A     = AObj{};
                A.vec = std::vector<int>(n, 0);
                return line();
            }
            if (op == "ctor_nv") {
                if constexpr (copyable) {
                    E x(v());
                    auto n = static_cast<std::size_t>(l.i("n"));
                    { Window w; a.~T(); new (obj[t].buf) T(n, std::as_const(x)); }
                    A     = AObj{};
                    A.vec = std::vector<int>(n, v());
                    return line();
                } else { return ""; }
            }
            if (op == "ctor_r") {
                if constexpr (copyable) {
                    std::vector<int> vals;
                    for (auto x : l.list("xs")) vals.push_back(static_cast<int>(x));
                    std::vector<E> xs;
                    xs.reserve(vals.size() + 1);
                    for (auto x : vals) xs.emplace_back(x);
                    E const* f = xs.data();
                    { Window w; a.~T(); new (obj[t].buf) T(f, f + xs.size()); }
                    A     = AObj{};
                    A.vec = vals;
                    return line();
                } else { return ""; }
            }
            if (op == "erase_if") {
                int const md = static_cast<int>(l.i("md"));
                int const r  = static_cast<int>(l.i("r"));
                { Window w; (void)etl::erase_if(a, [md, r](E const& e) { return e.get() % md == r; }); }
                if (!A.unspec) std::erase_if(A.vec, [md, r](int x) { return x % md == r; });
                return line();
            }
        }
        if constexpr (O == Own::sv || set) {
            if (op == "erase_at") {
                { Window w; a.erase(a.begin() + pos()); }
                if (!A.unspec) a_erase(A.vec, pos(), pos() + 1);
                return line();
            }
            if (op == "erase_range") {
                auto f  = static_cast<std::size_t>(l.i("f"));
                auto la = static_cast<std::size_t>(l.i("l"));
                { Window w; a.erase(a.begin() + f, a.begin() + la); }
                if (!A.unspec) a_erase(A.vec, f, la);
                return line();
            }
        }
        // ---- set members
        if constexpr (set) {
            if (op == "sins_c") {
                if constexpr (copyable) {
                    E x(v());
                    { Window w; (void)a.insert(std::as_const(x)); }
                    if (!A.unspec) a_set_insert(A.vec, v());
                    return line();
                } else { return ""; }
            }
            if (op == "sins_m") {
                E x(v());
                { Window w; (void)a.insert(std::move(x)); }
                if (!A.unspec) a_set_insert(A.vec, v());
                return line();
            }
            if (op == "semplace") {
                if constexpr (copyable || O == Own::fs) {
                    { Window w; (void)a.emplace(v()); }
                    if (!A.unspec) a_set_insert(A.vec, v());
                    return line();
                } else { return ""; }
            }
            if (op == "erase_key") {
                E x(v());
                { Window w; (void)a.erase(std::as_const(x)); }
                if (!A.unspec) std::erase(A.vec, v());
                return line();
            }
        }
        if constexpr (O == Own::fs) {
            if (op == "extract") {
                {
                    Window w;
                    auto c = std::move(a).extract();
                    (void)c;
                }
                A = AObj{};
                return line();
            }
            // `replace(container_type&&)` with a local container filled by the caller (sorted, unique: the precondition)
            if (op == "replace") {
                if constexpr (copyable) {
                    std::vector<int> vals;
                    for (auto x : l.list("xs")) vals.push_back(static_cast<int>(x));
                    {
                        Window w;
                        SV c;
                        for (auto x : vals) c.emplace_back(x);
                        a.replace(std::move(c));
                    }
                    A     = AObj{};
                    A.vec = vals;
                    return line();
                } else { return ""; }
            }
        }
        return "";
    }
};

// ---------------------------------------------------------------- variant / optional / expected

template <Own O, int K>
struct AltSession final : Session {
    using E0 = Elem<K, 0>;
    using E1 = Elem<K, 1>;
    using E2 = Elem<K, 2>;
    // clang-format off
    using T = std::conditional_t<O == Own::var, etl::variant<E0, E1, E2>,
              std::conditional_t<O == Own::opt, etl::optional<E1>, etl::expected<E0, E1>>>;
    // clang-format on
    static constexpr bool copyable = has_copy(K);
    static constexpr int nalt      = O == Own::var ? 3 : 2;
    static bool trk(int j) { return O == Own::opt ? j == 1 : true; }

    Raw<T> obj[2];
    AObj abs[2];

    AltSession()
    {
        for (int t = 0; t < 2; ++t) {
            Window w;
            new (obj[t].buf) T{};
            obj[t].alive = true;
            abs[t].ix    = 0;
            abs[t].has_v = trk(0);
            abs[t].v     = 0;
        }
    }
    void abandon() override
    {
        for (auto& o : obj) {
            if (o.alive) { o->~T(); o.alive = false; }
        }
    }

    int index_of(int t)
    {
        if constexpr (O == Own::var) return static_cast<int>(obj[t]->index());
        else if constexpr (O == Own::opt) return obj[t]->has_value() ? 1 : 0;
        else return obj[t]->has_value() ? 0 : 1;
    }

    // the live registry entry inside the object, if any (at most one is expected)
    bool entry(int t, std::uintptr_t& p, Registry::Ent& e, long& extra)
    {
        bool found = false;
        extra      = 0;
        for (auto const& [q, en] : reg.live) {
            if (obj[t].region().has(q)) {
                if (!found) { p = q; e = en; found = true; }
                else { ++extra; }
            }
        }
        return found;
    }

    std::string obj_str(int t)
    {
        if (abs[t].unspec) return "u";
        int const ix = index_of(t);
        if (!trk(ix)) return std::to_string(ix) + ":-";
        std::uintptr_t p = 0;
        Registry::Ent e{};
        long extra = 0;
        if (!entry(t, p, e, extra)) return std::to_string(ix) + ":D";
        return std::to_string(ix) + ":" + fmt_ent(p, e, false);
    }

    long misplaced(int t)
    {
        int const ix     = index_of(t);
        std::uintptr_t p = 0;
        Registry::Ent e{};
        long extra       = 0;
        bool const found = entry(t, p, e, extra);
        long x           = extra;
        if (found != trk(ix)) { ++x; }
        else if (found && e.ty != ix) { ++x; }
        return x;
    }

    // address of the alternative the owner says it holds (no element member function runs)
    void const* active(int t)
    {
        T& a = *obj[t];
        if constexpr (O == Own::var) {
            switch (a.index()) {
            case 0: return &a[etl::index_v<0>];
            case 1: return &a[etl::index_v<1>];
            default: return &a[etl::index_v<2>];
            }
        } else if constexpr (O == Own::opt) {
            return a.has_value() ? static_cast<void const*>(&*a) : nullptr;
        } else {
            return a.has_value() ? static_cast<void const*>(&*a) : static_cast<void const*>(&a.error());
        }
    }

    // adopt the alternative the owner claims to hold if it came to life through a defaulted constructor
    void sweep()
    {
        if constexpr (adopts(K)) {
            if (!reg.err.empty()) return;
            for (int t = 0; t < 2; ++t) {
                int const ix = index_of(t);
                if (!trk(ix)) continue;
                if (auto const* p = active(t)) { reg.claim(Registry::key(p), ix, true); }
            }
        }
    }

    std::string line() override
    {
        sweep();
        std::string impl = "e=" + err_or_dash() + " t=" + std::to_string(count_temps(obj[0].region(), obj[1].region()))
                         + " x=" + std::to_string(misplaced(0) + misplaced(1)) + " A=" + obj_str(0) + " B=" + obj_str(1);
        std::string sd = "e=- t=0 x=0 A=" + abs[0].str(false) + " B=" + abs[1].str(false);
        return impl + "\t" + sd;
    }

    std::string detail() override
    {
        std::string r;
        for (int t = 0; t < 2; ++t) {
            r += t == 0 ? "A=[" : " B=[";
            std::uintptr_t p = 0;
            Registry::Ent e{};
            long extra = 0;
            r += entry(t, p, e, extra) ? fmt_ent(p, e, true) : std::string(".");
            r += "]";
        }
        return r + counts() + "\t*";
    }

    std::string finish() override
    {
        {
            Window w;
            obj[1]->~T();
            obj[1].alive = false;
            obj[0]->~T();
            obj[0].alive = false;
        }
        long live = 0;
        for (auto const& [p, e] : reg.live) {
            if (!e.ext) { ++live; }
        }
        bool const bal = balanced();
        return "e=" + err_or_dash() + " live=" + std::to_string(live) + " bal=" + (bal ? "1" : "0") + "\te=- live=0 bal=1";
    }

    void set_abs(AObj& A, int j, int v)
    {
        A       = AObj{};
        A.ix    = j;
        A.has_v = trk(j);
        A.v     = v;
    }

    // emplace<J>(how): how 0 = from int, 1 = from T const&, 2 = from T&&; variant only: 3 = `v = T const&`, 4 = `v = T&&`
    template <int J, typename EJ>
    bool emplace_j(T& a, int how, int v)
    {
        if constexpr (O == Own::var) {
            if (how == 0) { Window w; a.template emplace<J>(v); return true; }
            if (how == 1) {
                if constexpr (copyable) { EJ x(v); { Window w; a.template emplace<J>(std::as_const(x)); } return true; }
                else { return false; }
            }
            if (how == 2) {
                EJ x(v);
                { Window w; a.template emplace<J>(std::move(x)); }
                return true;
            }
            // converting assignment `variant = T const&` (3) / `variant = T&&` (4)
            if (how == 3) {
                if constexpr (copyable) { EJ x(v); { Window w; a = std::as_const(x); } return true; }
                else { return false; }
            }
            EJ x(v);
            { Window w; a = std::move(x); }
            return true;
        } else if constexpr (O == Own::opt) {
            if (J != 1) return false;
            if (how == 0) { Window w; a.emplace(v); return true; }
            if (how == 1) {
                if constexpr (copyable) { E1 x(v); { Window w; a.emplace(std::as_const(x)); } return true; }
                else { return false; }
            }
            E1 x(v);
            { Window w; a.emplace(std::move(x)); }
            return true;
        } else {
            if (J != 0) return false;
            if (how == 0) { Window w; a.emplace(v); return true; }
            if (how == 1) {
                if constexpr (copyable) { E0 x(v); { Window w; a.emplace(std::as_const(x)); } return true; }
                else { return false; }
            }
            E0 x(v);
            { Window w; a.emplace(std::move(x)); }
            return true;
        }
    }

    std::string step(Line const& l) override
    {
        int const t = static_cast<int>(l.i("t", 0));
        int const o = 1 - t;
        T& a        = *obj[t];
        T& b        = *obj[o];
        auto& A     = abs[t];
        auto& B     = abs[o];
        auto const& op = l.op;

        bool const conv = O == Own::var && (op == "vassign_c" || op == "vassign_m");
        if (op == "vemplace" || op == "vemplace_c" || op == "vemplace_m" || conv) {
            int const how = op == "vemplace" ? 0 : (op == "vemplace_c" ? 1 : (op == "vemplace_m" ? 2 : (op == "vassign_c" ? 3 : 4)));
            int const j   = static_cast<int>(l.i("j"));
            int const v   = static_cast<int>(l.i("v"));
            bool ok       = false;
            if (j == 0) ok = emplace_j<0, E0>(a, how, v);
            else if (j == 1) ok = emplace_j<1, E1>(a, how, v);
            else if (j == 2 && nalt == 3) {
                if constexpr (O == Own::var) ok = emplace_j<2, E2>(a, how, v);
            }
            if (!ok) return "";
            set_abs(A, j, v);
            return line();
        }
        if constexpr (O == Own::opt) {
            if (op == "oassign_c") {
                if constexpr (copyable) {
                    int const v = static_cast<int>(l.i("v"));
                    E1 x(v);
                    { Window w; a = std::as_const(x); }
                    set_abs(A, 1, v);
                    return line();
                } else { return ""; }
            }
            if (op == "oassign_m") {
                int const v = static_cast<int>(l.i("v"));
                E1 x(v);
                { Window w; a = std::move(x); }
                set_abs(A, 1, v);
                return line();
            }
            if (op == "reset") {
                { Window w; a.reset(); }
                set_abs(A, 0, 0);
                return line();
            }
        }
        if (op == "cctor") {
            if constexpr (copyable) {
                { Window w; a.~T(); new (obj[t].buf) T(std::as_const(b)); }
                A = B;
                return line();
            } else { return ""; }
        }
        if (op == "mctor") {
            { Window w; a.~T(); new (obj[t].buf) T(std::move(b)); }
            A        = B;
            B.unspec = true;
            return line();
        }
        if (op == "cassign") {
            if constexpr (copyable) {
                { Window w; a = std::as_const(b); }
                A = B;
                return line();
            } else { return ""; }
        }
        if (op == "massign") {
            { Window w; a = std::move(b); }
            A        = B;
            B.unspec = true;
            return line();
        }
        if (op == "cassign_self") {
            if constexpr (copyable) {
                T& alias = a;
                { Window w; a = std::as_const(alias); }
                return line();
            } else { return ""; }
        }
        if (op == "swap" || op == "swap_self") {
            T& other = op == "swap" ? b : a;
            {
                Window w;
                if constexpr (O == Own::opt) a.swap(other);
                else etl::swap(a, other);
            }
            if (op == "swap") std::swap(A, B);
            return line();
        }
        if constexpr (O == Own::var && copyable) {
            // converting assignment from the variant's own live alternative: `v = get<index()>(v)`
            if (op == "vassign_own") {
                {
                    Window w;
                    switch (a.index()) {
                    case 0: a = a[etl::index_v<0>]; break;
                    case 1: a = a[etl::index_v<1>]; break;
                    default: a = a[etl::index_v<2>]; break;
                    }
                }
                return line();
            }
        }
        if (op == "use") {
            int got = 0;
            {
                Window w;
                if constexpr (O == Own::var) {
                    got = etl::visit([](auto const& e) { return e.get(); }, a);
                } else if constexpr (O == Own::opt) {
                    got = a.has_value() ? (*a).get() : -1;
                } else {
                    got = a.has_value() ? (*a).get() : a.error().get();
                }
            }
            (void)got;
            return line();
        }
        return "";
    }
};

// ---------------------------------------------------------------- inplace_function

template <int K>
struct FnSession final : Session {
    using F0 = Elem<K, 0>;
    using F1 = Elem<K, 1>;
    using T  = etl::inplace_function<int(), 16>;

    Raw<T> obj[2];
    AObj abs[2];

    FnSession()
    {
        (void)storage_offset();
        for (int t = 0; t < 2; ++t) {
            Window w;
            new (obj[t].buf) T{};
            obj[t].alive = true;
        }
    }
    void abandon() override
    {
        for (auto& o : obj) {
            if (o.alive) { o->~T(); o.alive = false; }
        }
    }
    bool entry(int t, std::uintptr_t& p, Registry::Ent& e, long& extra)
    {
        bool found = false;
        extra      = 0;
        for (auto const& [q, en] : reg.live) {
            if (obj[t].region().has(q)) {
                if (!found) { p = q; e = en; found = true; }
                else { ++extra; }
            }
        }
        return found;
    }
    std::string obj_str(int t)
    {
        if (abs[t].unspec) return "u";
        bool const has = static_cast<bool>(*obj[t]);
        if (!has) return "0:-";
        std::uintptr_t p = 0;
        Registry::Ent e{};
        long extra = 0;
        if (!entry(t, p, e, extra)) return "?:D";
        return std::to_string(e.ty + 1) + ":" + fmt_ent(p, e, false);
    }
    long misplaced(int t)
    {
        std::uintptr_t p = 0;
        Registry::Ent e{};
        long extra       = 0;
        bool const found = entry(t, p, e, extra);
        return extra + (found != static_cast<bool>(*obj[t]) ? 1 : 0);
    }
    // where a function object keeps its callable: found once with a fully instrumented callable
    static std::size_t storage_offset()
    {
        static std::size_t const off = [] {
            Registry const saved = reg;
            reg.reset();
            std::size_t r = 0;
            {
                Raw<T> f;
                Elem<CM, 0> x(1);
                new (f.buf) T(std::as_const(x));
                for (auto const& [q, en] : reg.live) {
                    if (f.region().has(q)) { r = q - f.region().lo; }
                }
                f->~T();
            }
            reg = saved;
            return r;
        }();
        return off;
    }
    // adopt the callable the owner claims to hold if it came to life through a defaulted constructor; its type is the
    // one the history gave this owner (the std-side bookkeeping)
    void sweep()
    {
        if constexpr (adopts(K)) {
            if (!reg.err.empty()) return;
            for (int t = 0; t < 2; ++t) {
                if (!static_cast<bool>(*obj[t]) || abs[t].unspec || abs[t].ix == 0) continue;
                reg.claim(obj[t].region().lo + storage_offset(), abs[t].ix - 1, true);
            }
        }
    }
    std::string line() override
    {
        sweep();
        std::string impl = "e=" + err_or_dash() + " t=" + std::to_string(count_temps(obj[0].region(), obj[1].region()))
                         + " x=" + std::to_string(misplaced(0) + misplaced(1)) + " A=" + obj_str(0) + " B=" + obj_str(1);
        std::string sd = "e=- t=0 x=0 A=" + abs[0].str(false) + " B=" + abs[1].str(false);
        return impl + "\t" + sd;
    }
    std::string detail() override
    {
        std::string r;
        for (int t = 0; t < 2; ++t) {
            r += t == 0 ? "A=[" : " B=[";
            std::uintptr_t p = 0;
            Registry::Ent e{};
            long extra = 0;
            r += entry(t, p, e, extra) ? fmt_ent(p, e, true) : std::string(".");
            r += "]";
        }
        return r + counts() + "\t*";
    }
    std::string finish() override
    {
        {
            Window w;
            obj[1]->~T();
            obj[1].alive = false;
            obj[0]->~T();
            obj[0].alive = false;
        }
        long live = 0;
        for (auto const& [p, e] : reg.live) {
            if (!e.ext) { ++live; }
        }
        bool const bal = balanced();
        return "e=" + err_or_dash() + " live=" + std::to_string(live) + " bal=" + (bal ? "1" : "0") + "\te=- live=0 bal=1";
    }
    void set_abs(AObj& A, int j, int v)
    {
        A       = AObj{};
        A.ix    = j + 1;
        A.has_v = true;
        A.v     = v;
    }
    template <typename FJ>
    void from_callable(int t, bool ctor, bool mv, int v)
    {
        FJ x(v);
        Window w;
        if (ctor) {
            obj[t]->~T();
            if (mv) new (obj[t].buf) T(std::move(x));
            else new (obj[t].buf) T(std::as_const(x));
        } else {
            if (mv) *obj[t] = std::move(x);
            else *obj[t] = std::as_const(x);
        }
    }
    // construction / assignment from a local function object of a smaller capacity (the converting constructors)
    template <typename FJ>
    void from_other_capacity(int t, bool asg, bool mv, int v)
    {
        using Small = etl::inplace_function<int(), 8>;
        static_assert(!std::is_same_v<Small, T> && sizeof(FJ) <= 8);
        FJ x(v);
        Window w;
        Small src(std::as_const(x));
        if (asg) {
            if (mv) *obj[t] = std::move(src);
            else *obj[t] = std::as_const(src);
        } else {
            obj[t]->~T();
            if (mv) new (obj[t].buf) T(std::move(src));
            else new (obj[t].buf) T(std::as_const(src));
        }
    }
    std::string step(Line const& l) override
    {
        int const t = static_cast<int>(l.i("t", 0));
        int const o = 1 - t;
        T& a        = *obj[t];
        T& b        = *obj[o];
        auto& A     = abs[t];
        auto& B     = abs[o];
        auto const& op = l.op;
        if (op == "fconv_cc" || op == "fconv_mc" || op == "fconv_ca" || op == "fconv_ma") {
            int const j = static_cast<int>(l.i("j"));
            int const v = static_cast<int>(l.i("v"));
            bool const mv  = op[6] == 'm';
            bool const asg = op[7] == 'a';
            if (j == 0) from_other_capacity<F0>(t, asg, mv, v);
            else if (j == 1) from_other_capacity<F1>(t, asg, mv, v);
            else return "";
            set_abs(A, j, v);
            return line();
        }
        if (op == "fctor_c" || op == "fctor_m" || op == "fassign_c" || op == "fassign_m") {
            int const j = static_cast<int>(l.i("j"));
            int const v = static_cast<int>(l.i("v"));
            bool const ctor = op[1] == 'c';
            bool const mv   = op.back() == 'm';
            if (j == 0) from_callable<F0>(t, ctor, mv, v);
            else if (j == 1) from_callable<F1>(t, ctor, mv, v);
            else return "";
            set_abs(A, j, v);
            return line();
        }
        if (op == "reset") {
            { Window w; a = nullptr; }
            A = AObj{};
            return line();
        }
        if (op == "cctor") {
            { Window w; a.~T(); new (obj[t].buf) T(std::as_const(b)); }
            A = B;
            return line();
        }
        if (op == "mctor") {
            { Window w; a.~T(); new (obj[t].buf) T(std::move(b)); }
            A        = B;
            B.unspec = true;
            return line();
        }
        if (op == "cassign") {
            { Window w; a = std::as_const(b); }
            A = B;
            return line();
        }
        if (op == "massign") {
            { Window w; a = std::move(b); }
            A        = B;
            B.unspec = true;
            return line();
        }
        if (op == "cassign_self") {
            T& alias = a;
            { Window w; a = std::as_const(alias); }
            return line();
        }
        if (op == "massign_self") {
            T& alias = a;
            { Window w; a = std::move(alias); }
            return line();
        }
        if (op == "swap" || op == "swap_self") {
            T& other = op == "swap" ? b : a;
            { Window w; a.swap(other); }
            if (op == "swap") std::swap(A, B);
            return line();
        }
        if (op == "invoke") {
            int got = 0;
            { Window w; got = a(); }
            (void)got;
            return line();
        }
        return "";
    }
};

// ---------------------------------------------------------------- dispatch
// -DC03_PART=k (k = 0..5) compiles only the sessions of one element kind (make_kind_k); -DC03_PART=-1 compiles main() and
// links the parts; without C03_PART everything is one translation unit.

template <Own O, int K>
static std::unique_ptr<Session> make_vec(int cap)
{
    switch (cap) {
    case 2: return std::make_unique<VecSession<O, K, 2>>();
    case 3: return std::make_unique<VecSession<O, K, 3>>();
    case 4: return std::make_unique<VecSession<O, K, 4>>();
    default: return nullptr;
    }
}

template <int K>
static std::unique_ptr<Session> make_session(std::string const& own, int cap)
{
    if (own == "sv") return make_vec<Own::sv, K>(cap);
    if (own == "iv") return make_vec<Own::iv, K>(cap);
    if (own == "st") return make_vec<Own::st, K>(cap);
    if (own == "ss") return make_vec<Own::ss, K>(cap);
    if (own == "fs") return make_vec<Own::fs, K>(cap);
    if (own == "var") return std::make_unique<AltSession<Own::var, K>>();
    if (own == "opt") return std::make_unique<AltSession<Own::opt, K>>();
    if (own == "exp") return std::make_unique<AltSession<Own::exp, K>>();
    if constexpr (has_copy(K)) {
        if (own == "fn") return std::make_unique<FnSession<K>>();
    }
    return nullptr;
}

std::unique_ptr<Session> make_kind_0(std::string const& own, int cap);
std::unique_ptr<Session> make_kind_1(std::string const& own, int cap);
std::unique_ptr<Session> make_kind_2(std::string const& own, int cap);
std::unique_ptr<Session> make_kind_3(std::string const& own, int cap);
std::unique_ptr<Session> make_kind_4(std::string const& own, int cap);
std::unique_ptr<Session> make_kind_5(std::string const& own, int cap);

#if !defined(C03_PART) || C03_PART == 0
std::unique_ptr<Session> make_kind_0(std::string const& own, int cap) { return make_session<CM>(own, cap); }
#endif
#if !defined(C03_PART) || C03_PART == 1
std::unique_ptr<Session> make_kind_1(std::string const& own, int cap) { return make_session<MO>(own, cap); }
#endif
#if !defined(C03_PART) || C03_PART == 2
std::unique_ptr<Session> make_kind_2(std::string const& own, int cap) { return make_session<CO>(own, cap); }
#endif
#if !defined(C03_PART) || C03_PART == 3
std::unique_ptr<Session> make_kind_3(std::string const& own, int cap) { return make_session<DA>(own, cap); }
#endif
#if !defined(C03_PART) || C03_PART == 4
std::unique_ptr<Session> make_kind_4(std::string const& own, int cap) { return make_session<DM>(own, cap); }
#endif
#if !defined(C03_PART) || C03_PART == 5
std::unique_ptr<Session> make_kind_5(std::string const& own, int cap) { return make_session<DC>(own, cap); }
#endif

#if !defined(C03_PART) || C03_PART == -1
static std::unique_ptr<Session> cur;

static std::string step(Line const& l)
{
    static std::string const bad = "bad-op\tbad-op";
    if (l.op == "new") {
        if (cur) {
            cur->abandon();
            cur.reset();
        }
        reg.reset();
        auto const& own  = l.str("own");
        auto const& kind = l.str("kind");
        int const cap    = static_cast<int>(l.i("cap", 1));
        if (kind == "cm") { cur_kind = CM; cur = make_kind_0(own, cap); }
        else if (kind == "mo") { cur_kind = MO; cur = make_kind_1(own, cap); }
        else if (kind == "co") { cur_kind = CO; cur = make_kind_2(own, cap); }
        else if (kind == "da") { cur_kind = DA; cur = make_kind_3(own, cap); }
        else if (kind == "dm") { cur_kind = DM; cur = make_kind_4(own, cap); }
        else if (kind == "dc") { cur_kind = DC; cur = make_kind_5(own, cap); }
        if (!cur) return bad;
        return cur->line();
    }
    if (!cur) return bad;
    // After the first illegal transition the objects are in no defined state: the rest of the history is
    // not executed (the comparison stops at the first failing line of a case anyway).
    if (!reg.err.empty()) return "e=" + reg.err + " halted\thalted";
    if (l.op == "detail") return cur->detail();
    // watchdog: a corrupted owner can make a library loop run away; the alarm turns that into a crash of this
    // line, which the runner reports as ub(exit:...) and restarts after
    alarm(20);
    auto r = l.op == "end" ? cur->finish() : cur->step(l);
    alarm(0);
    return r.empty() ? bad : r;
}

int main(int argc, char** argv) { return proto::run(argc, argv, step); }
#endif
