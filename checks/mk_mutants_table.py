#!/usr/bin/env python3
"""Prints the per-property summary of mutants/<Cxx>/results.json (written by checks/run_mutants.py) for DESIGN.md §0b."""
import glob, json, os, sys
sys.path.insert(0, os.path.dirname(os.path.abspath(__file__)))
from run_mutants import is_neutral
VERIF = os.path.dirname(os.path.dirname(os.path.abspath(__file__)))
print("| id | mutants | caught with a concrete failing input | caught, no-failing-input-found only | exit 2 (harness no longer compiles / spec defect) | MISSED | neutral rewrites: quiet / no-failing-input alarm / false alarm | patch no longer applies | run against /repo HEAD |")
print("|---|---|---|---|---|---|---|---|---|")
tot = {}
for d in sorted(glob.glob(os.path.join(VERIF, "mutants", "C*"))):
    pid = os.path.basename(d)
    patches = [os.path.basename(p)[:-6] for p in glob.glob(os.path.join(d, "*.patch"))]
    try:
        r = json.load(open(os.path.join(d, "results.json")))
    except OSError:
        print("| %s | %d | (not re-run with run_mutants.py; see the RESULTS file in mutants/%s) | | | | | | |" % (pid, len(patches), pid)); continue
    c = {"caught": 0, "caught-no-failing-input": 0, "MISSED": 0, "quiet": 0, "neutral-alarm": 0, "false-alarm": 0, "napply": 0, "exit2": 0}
    missed = []
    heads = set()
    for n in patches:
        x = r.get(n)
        if not x:
            continue
        heads.add(x.get("repo_head"))
        if not x.get("applies"):
            c["napply"] += 1; continue
        vio = x.get("violations") or []
        if isinstance(vio, int):
            # a follow-up branch's runner recorded the number of VIOLATION lines; first_replay says whether an input was found
            fr = x.get("first_replay") or {}
            vio = ["VIOLATION" + (" no-failing-input-found" if fr.get("failing_input_found") is False else "")] * vio
        nofail = bool(vio) and all(t.rstrip().endswith("no-failing-input-found") for t in vio)
        if "violations" not in x and "violation_lines" in x:
            # results written by a follow-up branch's own runner: counts instead of the lines themselves
            vio = ["VIOLATION"] * int(x["violation_lines"])
            nofail = bool(vio) and int(x.get("no_failing_input_lines") or 0) >= len(vio)
        if is_neutral(n):
            v = "quiet" if x.get("exit") == 0 and not vio else ("neutral-alarm" if x.get("exit") == 1 and nofail else "false-alarm")
        else:
            v = ("caught" if not nofail else "caught-no-failing-input") if x.get("exit") == 1 and vio else "MISSED"
        if v == "MISSED" and x.get("exit") == 2:
            c["exit2"] += 1; continue
        c[v] = c.get(v, 0) + 1
        if v in ("MISSED", "false-alarm"):
            missed.append(n)
    print("| %s | %d | %d | %d | %d | %s | %d / %d / %d | %d | %s |" % (pid, len(patches), c["caught"], c["caught-no-failing-input"], c["exit2"],
          ("%d (%s)" % (c["MISSED"], ", ".join(m for m in missed if not is_neutral(m)))) if c["MISSED"] else "0",
          c["quiet"], c["neutral-alarm"], c["false-alarm"], c["napply"], ", ".join(sorted(h for h in heads if h))))
