#!/usr/bin/env python3
"""Regenerates /verif/MANIFEST.json from the per-property modules in checks/props/.
A property is claimed iff its module exists and sets CLAIMED = True."""
import importlib
import json
import os
import sys

HERE = os.path.dirname(os.path.abspath(__file__))
sys.path.insert(0, HERE)
VERIF = os.path.dirname(HERE)

props = [json.loads(l)["id"] for l in open(os.path.join(VERIF, "properties.jsonl"))]
NA_FILE = os.path.join(HERE, "not_applicable.json")
na_reasons = json.load(open(NA_FILE)) if os.path.exists(NA_FILE) else {}

checks, served, na = [], [], []
for pid in props:
    path = os.path.join(HERE, "props", pid.lower() + ".py")
    mod = importlib.import_module("props." + pid.lower()) if os.path.exists(path) else None
    if mod is None or not getattr(mod, "CLAIMED", False):
        na.append({"property_id": pid, "reason": na_reasons.get(pid, "check not built yet (work in progress); no claim is made")})
        continue
    served.append(pid)
    checks.append({
        "property_id": pid,
        "quick_cmd": "python3 checks/check.py %s --tier quick" % pid,
        "thorough_cmd": "python3 checks/check.py %s --tier thorough" % pid,
        "evidence_file": "/verif/evidence/%s.json" % pid,
        "replay_cmd_template": "python3 checks/check.py %s --replay {path}" % pid,
        "engine": "lean4-proof+correspondence",
        "level_claimed": {"category": "proof", "text": mod.LEVEL_TEXT, "design_ref": getattr(mod, "DESIGN_REF", "DESIGN.md §4 " + pid)},
        "level_note": mod.LEVEL_NOTE,
        "technique": mod.TECHNIQUE,
    })

m = {
    "version": 1,
    "setup_cmd": "cd /verif/lean && lake build",
    "hooks": {"guard": "TETL_VERIF_HOOKS",
              "enable": "no hooks: the checks observe tetl through its public API only (instrumented element types, custom assert handler)",
              "baseline_off_cmd": "/verif/checks/run_suite.sh /repo", "source_commits": [], "add_only": True},
    "engines": [{"name": "lean4-proof+correspondence", "path": "/verif/checks/check.py", "serves_properties": served,
                 "kind_free_text": "Lean 4 theorems (kernel-checked, axioms audited) about executable models; the models are tied to /repo on "
                                   "every run by a differential correspondence run (C++ harness built from /repo vs compiled Lean driver) "
                                   "and, for straight-line integer kernels, regenerated from the clang AST by gen/translate.py"}],
    "checks": checks,
    "not_applicable": na,
    "notes": "Approach, trusted base, per-property obligations and findings: DESIGN.md. Known findings and fixes: known_findings.json and known_findings.d/Cxx.json (entries with status known / fixed; DESIGN.md §0a, §5a).",
}
json.dump(m, open(os.path.join(VERIF, "MANIFEST.json"), "w"), indent=1)
print("claimed:", served)
