#!/usr/bin/env python3
"""Prints the per-property status table for DESIGN.md §0a from checks/props/*.py, evidence/*.json, known_findings*, seeded/."""
import glob, importlib, json, os, sys
HERE = os.path.dirname(os.path.abspath(__file__)); sys.path.insert(0, HERE)
VERIF = os.path.dirname(HERE)
find = {}
for f in [os.path.join(VERIF, "known_findings.json")] + sorted(glob.glob(os.path.join(VERIF, "known_findings.d", "*.json"))):
    for e in json.load(open(f)).get("findings", []):
        d = find.setdefault(e.get("property"), {"fixed": 0, "known": 0}); d[e.get("status", "known")] = d.get(e.get("status", "known"), 0) + 1
seed = {}
for d in glob.glob(os.path.join(VERIF, "seeded", "*")):
    try:
        e = json.load(open(os.path.join(d, "evaluation.json")))
    except OSError:
        continue
    s = seed.setdefault(e["property"], [0, 0, 0]); s[1] += 1; s[0] += 1 if e.get("caught") else 0
    s[2] += 1 if (e.get("first_evaluation") or e).get("caught") else 0
print("| id | claimed | tie | theorems (audited) | correspondence-only / observed-only entries | findings fixed / known | seeded changes: caught at first evaluation / caught now / total | quick wall s |")
print("|---|---|---|---|---|---|---|---|")
for l in open(os.path.join(VERIF, "properties.jsonl")):
    pid = json.loads(l)["id"]
    try:
        m = importlib.import_module("props." + pid.lower())
    except Exception as ex:
        print("| %s | no module | | | | | | |" % pid); continue
    ev = {}
    try:
        ev = json.load(open(os.path.join(VERIF, "evidence", pid + ".json")))
    except OSError:
        pass
    cov = ev.get("coverage", {})
    tie = "T+H" if hasattr(m, "regenerate") or pid in ("C05", "C13", "C15") else "H"
    co = len(getattr(m, "CORRESPONDENCE_ONLY", [])); uo = len(getattr(m, "UNPROVED_OBSERVED", []))
    f = find.get(pid, {"fixed": 0, "known": 0}); s = seed.get(pid, [0, 0, 0])
    print("| %s | %s | %s | %s | %d / %d | %d / %d | %d / %d / %d | %s |" % (pid, "yes" if getattr(m, "CLAIMED", False) else "parked", tie,
          cov.get("discharged", "?"), co, uo, f.get("fixed", 0), f.get("known", 0), s[2], s[0], s[1], ev.get("wall_s", "?")))
