#!/usr/bin/env python3
"""Resolve the two routine conflicts of an agent-branch merge: DESIGN.md (keep both sides) and evidence/*.json (take theirs;
evidence is regenerated on /repo before committing anyway)."""
import subprocess
st = subprocess.run(["git", "status", "--short"], capture_output=True, text=True).stdout
for ln in st.splitlines():
    if not (ln.startswith("UU") or ln.startswith("AA")):
        continue
    f = ln[3:].strip()
    if f == "DESIGN.md":
        s = open(f).read()
        while "<<<<<<< HEAD\n" in s:
            i0 = s.index("<<<<<<< HEAD\n"); i1 = s.index("=======\n", i0); i2 = s.index(">>>>>>> ", i1); i3 = s.index("\n", i2) + 1
            s = s[:i0] + s[i0 + len("<<<<<<< HEAD\n"):i1] + s[i1 + len("=======\n"):i2] + s[i3:]
        open(f, "w").write(s)
        subprocess.run(["git", "add", f])
    elif f.startswith("evidence/"):
        subprocess.run(["git", "checkout", "--theirs", f]); subprocess.run(["git", "add", f])
    else:
        print("UNRESOLVED", f)
