#!/usr/bin/env python3
"""run_mutants.py <Cxx> [--tier quick|thorough] [--suite] [name-substring]

Applies every patch of mutants/<Cxx>/*.patch, one at a time, to a scratch worktree of /repo HEAD (outside /repo and
/verif), runs `check.py <Cxx>` with VERIF_REPO=<scratch> and records the outcome in mutants/<Cxx>/results.json:

  * a patch whose file name starts with `neutral_` keeps the property (a semantically neutral rewrite): expected exit 0;
    for a translator-tied check an exit 1 whose every VIOLATION line ends in no-failing-input-found is recorded as
    `neutral-alarm` (the price of the tie, DESIGN §1.8), anything else as `false-alarm`;
  * every other patch breaks the property: expected exit 1 with a VIOLATION line.

With --suite the pinned test suite is run on the scratch tree too (`suite_passes`); the mutants are written by the
authors of the checks, the independent ones are under seeded/ (checks/eval_seeded.py).
The scratch worktree and its build output are removed after every patch.  Never run while `lake build` runs in
/verif/lean for a check that regenerates Lean files (C05, C11, C13, C18): the check is re-run on /repo at the end to
restore the generated files and the evidence.
"""
import glob
import json
import os
import re
import shutil
import subprocess
import sys
import time

HERE = os.path.dirname(os.path.abspath(__file__))
VERIF = os.path.dirname(HERE)


def sh(cmd, **kw):
    p = subprocess.run(cmd, shell=isinstance(cmd, str), stdout=subprocess.PIPE, stderr=subprocess.STDOUT, text=True, **kw)
    return p.returncode, p.stdout


def is_neutral(name):
    """semantically neutral rewrites (negative mutants): must stay quiet"""
    return name.lower().startswith(("neutral", "neg_")) or name in ("signbit-constexpr-fallback",)


def main():
    args = sys.argv[1:]
    prop = args.pop(0)
    tier = "quick"
    suite = False
    missing = False
    sub = None
    while args:
        a = args.pop(0)
        if a == "--tier":
            tier = args.pop(0)
        elif a == "--suite":
            suite = True
        elif a == "--missing":          # only the patches that have no entry in results.json yet
            missing = True
        else:
            sub = a
    mdir = os.path.join(VERIF, "mutants", prop)
    resf = os.path.join(mdir, "results.json")
    results = json.load(open(resf)) if os.path.exists(resf) else {}
    rc_all = 0
    for patch in sorted(glob.glob(os.path.join(mdir, "*.patch"))):
        name = os.path.basename(patch)[:-6]
        if sub and sub not in name:
            continue
        if missing and name in results:
            continue
        scratch = "/tmp/mutant-%s-%d" % (prop, os.getpid())
        rc, o = sh(["git", "-C", "/repo", "worktree", "add", "-q", "--detach", scratch, "HEAD"])
        if rc != 0:
            print("worktree failed", o)
            sys.exit(2)
        r = {"tier": tier, "at": time.strftime("%Y-%m-%dT%H:%M:%SZ", time.gmtime()),
             "repo_head": sh(["git", "-C", "/repo", "rev-parse", "--short", "HEAD"])[1].strip()}
        try:
            rc, o = sh(["git", "-C", scratch, "apply", patch])
            r["applies"] = rc == 0
            if rc == 0:
                if suite:
                    r["suite_passes"] = sh([os.path.join(HERE, "run_suite.sh"), scratch])[0] == 0
                env = dict(os.environ, VERIF_REPO=scratch, VERIF_SEED=os.environ.get("VERIF_SEED", "1"))
                t0 = time.time()
                rc, o = sh([sys.executable, os.path.join(HERE, "check.py"), prop, "--tier", tier], env=env, cwd=VERIF)
                vio = [l for l in o.splitlines() if l.startswith("VIOLATION")]
                r["exit"] = rc
                r["wall_s"] = round(time.time() - t0, 1)
                r["violations"] = [re.sub(r"replay=\S+", "replay=…", v)[:300] for v in vio[:4]]
                for v in vio:
                    m = re.search(r"replay=(\S+)", v)
                    if m and os.path.exists(m.group(1)):
                        if "first_replay" not in r:
                            rp = json.load(open(m.group(1)))
                            r["first_replay"] = {k: rp.get(k) for k in ("kind", "cases", "impl", "model", "spec", "std", "failing_input_found")
                                                 if rp.get(k) is not None}
                        os.unlink(m.group(1))
                nofail = bool(vio) and all(v.rstrip().endswith("no-failing-input-found") for v in vio)
                if is_neutral(name):
                    r["expected"] = "quiet"
                    r["verdict"] = "quiet" if rc == 0 and not vio else ("neutral-alarm" if rc == 1 and nofail else "false-alarm")
                    ok = r["verdict"] != "false-alarm"
                else:
                    r["expected"] = "violation"
                    r["verdict"] = ("caught" if not nofail else "caught-no-failing-input") if rc == 1 and vio else "MISSED"
                    ok = r["verdict"] != "MISSED"
                if not ok:
                    rc_all = 1
                    r["tail"] = o.splitlines()[-8:]
        finally:
            sh(["git", "-C", "/repo", "worktree", "remove", "--force", scratch])
            shutil.rmtree(scratch, ignore_errors=True)
        results[name] = r
        json.dump(results, open(resf, "w"), indent=1, sort_keys=True)
        print("%-60s %s exit=%s %ss" % (name, r.get("verdict", "patch-does-not-apply"), r.get("exit"), r.get("wall_s")))
    # restore generated files / evidence to the state of /repo
    rc, o = sh([sys.executable, os.path.join(HERE, "check.py"), prop, "--tier", "quick"], cwd=VERIF)
    print("restore run on /repo: exit", rc)
    sys.exit(rc_all or (1 if rc else 0))


if __name__ == "__main__":
    main()
