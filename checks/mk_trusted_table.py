#!/usr/bin/env python3
"""Prints the as-built trusted base per property (DESIGN.md §3a): axioms reported by the last audit (evidence),
Mathlib modules imported by the property's proof files, number of `decide +kernel` finite checks, generated
(translator / extractor) Lean files, and the property module's TRUSTED entries."""
import glob, importlib.util, json, os, re, sys
HERE = os.path.dirname(os.path.abspath(__file__)); VERIF = os.path.dirname(HERE)
sys.path.insert(0, HERE)
GEN = {"C01": "Tetl/C01/GenSize.lean (gen/sizetype.py: the smallest_size_t threshold chain, storage selection and layout switch as the header spells them)",
       "C10": "Tetl/C10/Gen.lean (gen/translate.py: the overflow checkers, abs, parseDigit for every instantiated type)",
       "C12": "Tetl/C12/Gen.lean (gen/translate.py: the four duration_cast_impl::cast bodies for 16 representation pairs, CF::num / CF::den symbolic)",
       "C14": "Tetl/C14/Gen.lean (gen/translate.py: 640 instantiations of the straight-line bit / saturation / comparison kernels), GenDispatch.lean (gen/c14_genprops.py)",
       "C15": "Tetl/C15/GenBuiltins.lean (gen/c15_defs.py: trait -> builtin / defining formula, g++ and clang branches), GenLimits.lean (gen/c15_limits.py: numeric_limits members as spelled)",
       "C02": "TetlProofs/C02/Props.lean (gen/c02_props.py, from the other properties' theorem statements)",
       "C05": "Tetl/C05/Sites.lean (gen/sites.py)", "C11": "Tetl/C11/Gen.lean (gen/translate.py)",
       "C13": "Tetl/C13/Dispatch.lean (gen/dispatch.py)", "C18": "Tetl/C18/Gen.lean, GenW.lean (gen/translate.py)"}
rows = []
allmods = set()
for n in range(1, 21):
    pid = "C%02d" % n
    spec = importlib.util.spec_from_file_location(pid.lower(), os.path.join(HERE, "props", pid.lower() + ".py"))
    m = importlib.util.module_from_spec(spec)
    try:
        spec.loader.exec_module(m)
    except Exception as e:
        rows.append("| %s | (module failed to load: %s) | | | | |" % (pid, e)); continue
    files = glob.glob(os.path.join(VERIF, "lean", "TetlProofs", pid, "*.lean"))
    mods, dk = set(), 0
    for f in files:
        t = open(f).read()
        mods |= set(re.findall(r"^import (Mathlib\.\S+)", t, re.M))
        dk += len(re.findall(r"decide \+kernel", t))
    allmods |= mods
    ax = "?"
    try:
        e = json.load(open(os.path.join(VERIF, "evidence", pid + ".json")))
        for tb in e["coverage"].get("trusted_base", []):
            mm = re.search(r"axioms used by the property theorems: (.*)", tb)
            if mm:
                ax = mm.group(1).replace("'", "")
        ob = "%s/%s" % (e["coverage"].get("discharged"), e["coverage"].get("obligations"))
    except Exception:
        ob = "?"
    trusted = "; ".join(x[:160] for x in getattr(m, "TRUSTED", [])[:4])
    rows.append("| %s | %s | %s | %s | %d | %s | %s |" % (pid, ob, ax, ", ".join(sorted(x.replace("Mathlib.", "") for x in mods)) or "none (core only)",
                                                   dk, GEN.get(pid, "none (hand model, tie H)"), trusted.replace("|", "/")))
print("| id | theorems discharged / stated | axioms of the audited theorems | Mathlib modules imported by its proof files | `decide +kernel` finite checks | regenerated on every run | modelled by hand / trusted (from the property module) |")
print("|---|---|---|---|---|---|---|")
print("\n".join(rows))
print()
print("Mathlib modules imported anywhere in `TetlProofs`: " + ", ".join(sorted(allmods)) + ". `Tetl/*` (models, specs, drivers) imports core Lean only.")
