#!/usr/bin/env python3
"""Prints the markdown table of all findings (known_findings.json + known_findings.d/*.json) for DESIGN.md §5a."""
import glob, json, os
VERIF = os.path.dirname(os.path.dirname(os.path.abspath(__file__)))
rows = []
files = [os.path.join(VERIF, "known_findings.json")] + sorted(glob.glob(os.path.join(VERIF, "known_findings.d", "*.json")))
for f in files:
    for e in json.load(open(f)).get("findings", []):
        rows.append((e.get("property", "?"), e.get("status", "?"), e["id"], e.get("commit") or "", (e.get("what") or "").replace("|", "/").replace("\n", " ")[:170]))
rows.sort()
nf = sum(1 for r in rows if r[1] == "fixed"); nk = sum(1 for r in rows if r[1] == "known")
print("%d findings: %d fixed (one `fix:` commit each in /repo, suite green), %d known (recorded, reported as KNOWN-FINDING).\n" % (len(rows), nf, nk))
print("| prop | status | id | fix commit | what |")
print("|---|---|---|---|---|")
for r in rows:
    print("| %s | %s | %s | %s | %s |" % r)
