"""Shared machinery for the tetl Lean-4 verification checks (DESIGN.md §1).

A per-property module `checks/props/cXX.py` describes the property (Lean targets, harness
source, case generators, finding classifier); this library does the rest:

  lake build (proof obligations)  ->  axiom audit  ->  build C++ harness from $VERIF_REPO
  -> run harness (impl | std) and Lean driver (model | spec) on the same case lines
  -> relations  R1 impl=model (correspondence)  R2 spec=std (spec validity)  R3 impl=spec (property)
  -> evidence file, KNOWN-FINDING / VIOLATION lines, replay files.

Exit codes: 0 property held on everything explored; 1 violation (a VIOLATION line was printed);
2 machinery error (never a verdict).
"""
import concurrent.futures as cf
import fcntl
import hashlib
import json
import os
import re
import subprocess
import sys
import time

VERIF = os.path.dirname(os.path.dirname(os.path.abspath(__file__)))
REPO = os.environ.get("VERIF_REPO", "/repo")
LEAN = os.path.join(VERIF, "lean")
BUILD = os.path.join(VERIF, "build")
EVID = os.path.join(VERIF, "evidence")
REPLAYS = os.path.join(VERIF, "replays")
CORPUS = os.path.join(VERIF, "corpus")
KNOWN = os.path.join(VERIF, "known_findings.json")
NPROC = os.cpu_count() or 4

ALLOWED_AXIOMS = {"propext", "Classical.choice", "Quot.sound"}
FORBIDDEN_RE = re.compile(
    r"\bsorry\b|\badmit\b|^\s*axiom\s|native_decide|bv_decide|implemented_by|\bunsafe\s|maxHeartbeats\s+0|ofReduceBool|reduceBool")

CXX = os.environ.get("VERIF_CXX", "g++")
CXXFLAGS = ["-std=c++20", "-O1", "-g", "-fsanitize=address,undefined", "-fno-sanitize-recover=all",
            "-fno-omit-frame-pointer", "-Wno-deprecated-declarations"]


class MachineryError(Exception):
    pass


def compile_failure_violation(ctx, what, compiler_output):
    """The correspondence harness (or a compile-time leg) no longer compiles against $VERIF_REPO.  On the unchanged tree
    it compiles (that is checked on every run), so the tie between model and code is broken by the tree: the property is
    no longer shown to hold.  A `static assertion failed` of the harness' compile-time matrices is a concrete failing
    input (the assertion names it); any other diagnostic is reported as no-failing-input-found with the diagnostic in
    the replay.  Returns the exit status (1)."""
    static = bool(re.search(r"static assertion failed|static_assert", compiler_output))
    first = [l for l in compiler_output.splitlines() if " error" in l or "static assertion" in l][:12]
    payload = {"kind": "harness_compile", "cases": [],
               "correspondence": what,
               "impl": "does not compile: " + (first[0][-400:] if first else "see compiler_output"),
               "model": "-", "spec": "-", "std": "-",
               "compiler_output": compiler_output[-6000:], "first_errors": first,
               "failing_input_found": static,
               "explanation": ("a compile-time assertion of the harness about the library's behaviour fails (the assertion text is "
                               "the failing input)" if static else
                               "the correspondence between model and code can no longer be run: %s no longer compiles against %s; "
                               "no failing input could be searched for" % (what, REPO))}
    ctx.violation(payload, found=static)
    try:
        ctx.write_evidence({"explanation": "the run stopped at the harness build: %s does not compile against %s (reported as a violation, "
                            "see the replay)" % (what, REPO), "evaluations": 0, "distinct_nontrivial": 0,
                            "rule": "no case was run", "samples": [first[:3] or ["compile failure"]]}, [], level="other")
    except Exception:
        pass
    log("%s %s: the harness does not compile against the tree, 1 violations, %.1fs" % (ctx.prop, ctx.tier, time.time() - ctx.t0))
    return 1


def log(msg):
    print(msg, flush=True)


def sh(cmd, cwd=None, timeout=None, env=None, stdin=None):
    p = subprocess.run(cmd, cwd=cwd, timeout=timeout, env=env, stdin=stdin,
                       stdout=subprocess.PIPE, stderr=subprocess.PIPE, text=True, errors="replace")
    return p.returncode, p.stdout, p.stderr


# ------------------------------------------------------------------ cases

class Case:
    """One case = one or more protocol lines (a history starts with a `new` line)."""
    __slots__ = ("lines", "tag")

    def __init__(self, lines, tag=""):
        self.lines = [lines] if isinstance(lines, str) else list(lines)
        self.tag = tag

    def text(self):
        return "\n".join(self.lines)


class Row:
    """Outputs of the four sides for one protocol line."""
    __slots__ = ("impl", "std", "model", "spec")

    def __init__(self, impl, std, model, spec):
        self.impl, self.std, self.model, self.spec = impl, std, model, spec

    def as_dict(self):
        return {"impl": self.impl, "std": self.std, "model": self.model, "spec": self.spec}


def fmt_list(xs):
    return "[" + ",".join(str(int(x)) for x in xs) + "]"


# ------------------------------------------------------------------ Lean side

def _lake_lock():
    os.makedirs(BUILD, exist_ok=True)
    f = open(os.path.join(BUILD, "lake.lock"), "w")
    fcntl.flock(f, fcntl.LOCK_EX)
    return f


def lake_build(targets, timeout=3000):
    """Returns (ok, log_text)."""
    lock = _lake_lock()
    try:
        rc, out, err = sh(["lake", "build"] + list(targets), cwd=LEAN, timeout=timeout)
    finally:
        lock.close()
    return rc == 0, out + err


def first_lean_error(text):
    for ln in text.splitlines():
        if "error:" in ln:
            return ln.strip()[:400]
    return text.strip().splitlines()[-1][:400] if text.strip() else "unknown"


def lean_source_scan(paths):
    """grep the Lean sources for constructs that are not allowed in proofs; comments are ignored."""
    hits = []
    for root in paths:
        for dp, _, fns in os.walk(root):
            if ".lake" in dp:
                continue
            for fn in fns:
                if not fn.endswith(".lean"):
                    continue
                p = os.path.join(dp, fn)
                src = open(p, encoding="utf-8").read()
                src = re.sub(r"/-.*?-/", lambda m: "\n" * m.group(0).count("\n"), src, flags=re.S)
                for k, ln in enumerate(src.splitlines(), 1):
                    code = ln.split("--")[0]
                    if FORBIDDEN_RE.search(code):
                        hits.append("%s:%d: %s" % (os.path.relpath(p, VERIF), k, ln.strip()[:120]))
    return hits


def audit(modules):
    """#print-axioms style audit over every theorem of the given proof modules.
    Returns (theorems: {name: [axioms]}, bad: [names with axioms outside the allow-list])."""
    os.makedirs(BUILD, exist_ok=True)
    src = "import TetlProofs.AuditLib\n" + "".join("import %s\n" % m for m in modules) \
        + "".join("#audit_module %s\n" % m for m in modules)
    path = os.path.join(BUILD, "audit_%s.lean" % hashlib.md5(src.encode()).hexdigest()[:8])
    open(path, "w").write(src)
    rc, out, err = sh(["lake", "env", "lean", path], cwd=LEAN, timeout=1200)
    if rc != 0:
        raise MachineryError("audit failed: " + (out + err)[-800:])
    thms, ends = {}, 0
    for ln in out.splitlines():
        if ln.startswith("AUDIT-END"):
            ends += 1
        elif ln.startswith("AUDIT "):
            name, _, axs = ln[6:].partition(" :: ")
            thms[name.strip()] = axs.split()
    if ends != len(modules):
        raise MachineryError("audit incomplete")
    # compiler-generated equation/induction lemmas of definitions are not obligations
    gen = re.compile(r"\.(eq_def|eq_\d+|induct|induct_unfolding|fun_cases|fun_cases_unfolding|congr_simp|match_\d+.*|proof_\d+|sizeOf_spec|injEq|inj|noConfusion.*)$")
    thms = {n: a for n, a in thms.items() if not gen.search(n)}
    bad = [n for n, axs in thms.items() if not set(axs) <= ALLOWED_AXIOMS]
    return thms, bad


def leanchecker(module, timeout=3000):
    rc, out, err = sh(["lake", "env", "leanchecker", module], cwd=LEAN, timeout=timeout)
    return rc == 0, (out + err)[-400:]


def driver_path(name):
    return os.path.join(LEAN, ".lake", "build", "bin", name)


def run_driver(name, case_file, extra_args=()):
    with open(case_file) as f:
        p = subprocess.run([driver_path(name)] + list(extra_args), stdin=f, stdout=subprocess.PIPE,
                           stderr=subprocess.PIPE, text=True, errors="replace")
    if p.returncode != 0:
        raise MachineryError("driver %s failed: %s" % (name, p.stderr[-400:]))
    return p.stdout.split("\n")[:-1] if p.stdout.endswith("\n") else p.stdout.split("\n")


# ------------------------------------------------------------------ C++ side

def build_harness(src, out_name, extra_flags=(), repo=None, std_flags=None):
    """Compile a harness against $VERIF_REPO/include.  Always recompiles: the tree may have changed."""
    repo = repo or REPO
    os.makedirs(BUILD, exist_ok=True)
    out = os.path.join(BUILD, out_name)
    cmd = [CXX] + (std_flags if std_flags is not None else CXXFLAGS) + list(extra_flags) + \
        ["-I", os.path.join(repo, "include"), "-I", os.path.join(VERIF, "harness"),
         os.path.join(VERIF, src), "-o", out]
    rc, o, e = sh(cmd, timeout=1200)
    if rc != 0:
        return None, (o + e)
    return out, ""


SAN_RE = re.compile(r"ERROR: AddressSanitizer: ([a-zA-Z0-9_-]+)|runtime error: ([^\n]*)|LeakSanitizer")


def _san_kind(stderr, rc):
    m = SAN_RE.search(stderr)
    if m:
        if m.group(1):
            return "ub(asan:%s)" % m.group(1)
        if m.group(2) is not None:
            msg = m.group(2)
            msg = re.sub(r"0x[0-9a-f]+", "ADDR", msg)
            msg = re.sub(r"-?\d+", "N", msg)
            return "ub(ubsan:%s)" % msg.strip().replace(" ", "_")[:80]
        return "ub(lsan)"
    return "ub(exit:%d)" % rc


HANG_S = int(os.environ.get("VERIF_HANG_S", "180"))


class _Proc:
    pass


def _run_watched(cmd, env):
    """subprocess.run with a progress watchdog: the harnesses flush one output line per input line, so a process that
    writes nothing for HANG_S seconds is hung on the line after the last one it answered; it is killed (`hung`)."""
    import select
    import tempfile
    r = _Proc()
    with tempfile.TemporaryFile() as ef:
        p = subprocess.Popen(cmd, stdout=subprocess.PIPE, stderr=ef, env=env)
        fd = p.stdout.fileno()
        chunks = []
        r.hung = False
        while True:
            ready, _, _ = select.select([fd], [], [], HANG_S)
            if not ready:
                r.hung = True
                p.kill()
                break
            b = os.read(fd, 1 << 16)
            if not b:
                break
            chunks.append(b)
        p.wait()
        p.stdout.close()
        ef.seek(0)
        r.stderr = ef.read().decode(errors="replace")
    r.stdout = b"".join(chunks).decode(errors="replace")
    r.returncode = p.returncode
    return r


def run_harness(exe, case_file, starts, n_lines, env=None, max_aborts=40):
    """Run the harness over the whole case file.  `starts` = sorted list of line indices at which a case
    starts.  A sanitizer abort (or any crash) on line k yields `ub(...)` for line k, `skipped` for the rest
    of that case, and a restart at the next case.  Returns list of output strings (len n_lines)."""
    outs = [None] * n_lines
    pos = 0
    aborts = 0
    e = dict(os.environ)
    e["ASAN_OPTIONS"] = "detect_leaks=1:abort_on_error=0:halt_on_error=1:allocator_may_return_null=1"
    e["UBSAN_OPTIONS"] = "print_stacktrace=0:halt_on_error=1"
    if env:
        e.update(env)
    import bisect
    hangs = 0
    while pos < n_lines:
        p = _run_watched([exe, case_file, str(pos)], e)
        got = p.stdout.split("\n")
        if got and got[-1] == "":
            got.pop()
        complete = (p.returncode == 0 and len(got) == n_lines - pos)
        if p.returncode == 0 and not complete:
            raise MachineryError("harness output has %d lines, expected %d" % (len(got), n_lines - pos))
        if complete:
            outs[pos:] = got
            break
        # crashed on line pos+len(got') : the last, possibly partial, line is discarded
        if p.returncode != 0 and "LeakSanitizer" in p.stderr and len(got) == n_lines - pos:
            # leak reported at exit: attribute to the run as a whole (last case)
            outs[pos:] = got
            outs[-1] = got[-1] + "\tleak"
            break
        k = pos + len(got)
        if p.stdout and not p.stdout.endswith("\n") and got:
            got.pop()
            k = pos + len(got)
        outs[pos:k] = got
        kind = _san_kind(p.stderr, p.returncode)
        if p.hung:
            # the implementation did not finish this line (the harness flushes one line per input line): an endless
            # loop is reported like a crash, on the line it happened
            kind = "ub(timeout:no_output_for_%ds)" % HANG_S
            hangs += 1
        if k >= n_lines:
            raise MachineryError("harness failed after the last line: rc=%d %s" % (p.returncode, p.stderr[-300:]))
        outs[k] = kind + "\t" + kind
        # skip to next case start
        j = bisect.bisect_right(starts, k)
        nxt = starts[j] if j < len(starts) else n_lines
        for t in range(k + 1, nxt):
            outs[t] = "skipped\tskipped"
        pos = nxt
        aborts += 1
        if aborts >= max_aborts or hangs >= 3:
            for t in range(pos, n_lines):
                outs[t] = "skipped\tskipped"
            break
    return outs, aborts


# ------------------------------------------------------------------ evaluation of a batch

def run_batch(ctx, cases, harness_exe, driver, jobs=None, harness_env=None):
    """Run all cases through both sides; returns list (per case) of list (per line) of Row."""
    jobs = jobs or NPROC
    if not cases:
        return []
    os.makedirs(BUILD, exist_ok=True)
    # chunk by cases
    nchunks = max(1, min(jobs, len(cases) // 200 + 1))
    per = (len(cases) + nchunks - 1) // nchunks
    chunks = [cases[i:i + per] for i in range(0, len(cases), per)]

    def work(ci):
        chunk = chunks[ci]
        path = os.path.join(BUILD, "%s_%s_%d.cases" % (ctx.prop, ctx.run_id, ci))
        starts, lines = [], []
        for c in chunk:
            starts.append(len(lines))
            lines.extend(c.lines)
        with open(path, "w") as f:
            f.write("\n".join(lines) + "\n")
        hout, aborts = run_harness(harness_exe, path, starts, len(lines), env=harness_env)
        if driver is None:      # the (generated) model does not build: compare impl with std only
            dout = ["%s\t%s" % ((h.split("\t") + [h])[1], (h.split("\t") + [h])[1]) for h in hout]
        else:
            dout = run_driver(driver, path)
        os.unlink(path)
        if len(dout) != len(lines):
            raise MachineryError("driver output has %d lines, expected %d" % (len(dout), len(lines)))
        res = []
        for idx, c in enumerate(chunk):
            s = starts[idx]
            rows = []
            for k in range(len(c.lines)):
                h = hout[s + k].split("\t")
                d = dout[s + k].split("\t")
                if len(h) < 2:
                    h = h + [h[0]]
                if len(d) < 2:
                    d = d + [d[0]]
                rows.append(Row(h[0], h[1], d[0], d[1]))
            res.append(rows)
        return res, aborts

    results = []
    total_aborts = 0
    with cf.ThreadPoolExecutor(max_workers=jobs) as ex:
        for res, aborts in ex.map(work, range(len(chunks))):
            results.extend(res)
            total_aborts += aborts
    ctx.aborts += total_aborts
    return results


MASK = "*"


def eq(a, b):
    """Equality of canonical outputs; `*` on either side masks an unspecified value."""
    return a == b or a == MASK or b == MASK


class Failure:
    def __init__(self, kind, case, line_idx, row):
        self.kind = kind          # 'R3' impl!=spec, 'R1' impl!=model, 'R2' spec!=std, 'BAD' bad-op
        self.case, self.line_idx, self.row = case, line_idx, row


def evaluate(cases, results):
    fails = []
    for c, rows in zip(cases, results):
        for k, r in enumerate(rows):
            if "bad-op" in (r.impl, r.model):
                fails.append(Failure("BAD", c, k, r))
                break
            if r.impl == "skipped":
                break
            if not eq(r.spec, r.std) and not r.impl.startswith("ub("):
                fails.append(Failure("R2", c, k, r))
                break
            if not eq(r.impl, r.spec):
                fails.append(Failure("R3", c, k, r))
                break
            if not eq(r.impl, r.model):
                fails.append(Failure("R1", c, k, r))
                break
    return fails


# ------------------------------------------------------------------ known findings

def load_known(prop):
    """known_findings.json plus known_findings.d/*.json (same format), entries of this property."""
    files = [KNOWN] if os.path.exists(KNOWN) else []
    d = os.path.join(VERIF, "known_findings.d")
    if os.path.isdir(d):
        files += [os.path.join(d, fn) for fn in sorted(os.listdir(d)) if fn.endswith(".json")]
    out = {}
    for f in files:
        for e in json.load(open(f)).get("findings", []):
            if e.get("property") == prop:
                out[e["id"]] = e
    return out


# ------------------------------------------------------------------ context / reporting

class Ctx:
    def __init__(self, prop, tier, seed):
        self.prop, self.tier, self.seed = prop, tier, seed
        self.t0 = time.time()
        self.run_id = "%d_%d" % (os.getpid(), int(self.t0 * 1000) % 100000)
        self.aborts = 0
        self.violations = []       # replay paths
        self.known_hits = {}       # finding id -> count
        self.notes = []

    def write_replay(self, payload):
        os.makedirs(REPLAYS, exist_ok=True)
        name = "%s-%s-%d-%d.json" % (self.prop, time.strftime("%Y%m%dT%H%M%S", time.gmtime()), self.seed,
                                     len(self.violations))
        path = os.path.join(REPLAYS, name)
        payload = dict(payload)
        payload.setdefault("property", self.prop)
        payload.setdefault("tier", self.tier)
        payload.setdefault("seed", self.seed)
        payload.setdefault("repo", REPO)
        json.dump(payload, open(path, "w"), indent=1)
        return path

    def violation(self, payload, found=True):
        path = self.write_replay(payload)
        self.violations.append(path)
        log("VIOLATION property=%s replay=%s%s" % (self.prop, path, "" if found else " no-failing-input-found"))

    def known(self, fid, what):
        if fid not in self.known_hits:
            log("KNOWN-FINDING: property=%s %s: %s" % (self.prop, fid, what))
        self.known_hits[fid] = self.known_hits.get(fid, 0) + 1

    def write_evidence(self, coverage, assumptions, level="proof"):
        os.makedirs(EVID, exist_ok=True)
        coverage = dict(coverage)
        coverage.setdefault("repo", repo_identity())
        ev = {"property_id": self.prop, "tier": self.tier, "seed": self.seed, "level": level,
              "coverage": coverage, "assumptions": assumptions,
              "wall_s": round(time.time() - self.t0, 2), "violations": len(self.violations)}
        json.dump(ev, open(os.path.join(EVID, self.prop + ".json"), "w"), indent=1)


def repo_identity():
    """which tree the evidence was produced from: path, HEAD commit, and whether the working tree has local edits"""
    rc, head, _ = sh(["git", "-C", REPO, "rev-parse", "--short", "HEAD"])
    rc2, st, _ = sh(["git", "-C", REPO, "status", "--porcelain", "--untracked-files=no"])
    return {"path": REPO, "head": head.strip() if rc == 0 else None, "dirty": bool(st.strip()) if rc2 == 0 else None}


def file_hash(path):
    try:
        return hashlib.sha256(open(path, "rb").read()).hexdigest()[:16]
    except OSError:
        return None


def source_hashes(rel_paths):
    out = {}
    for rp in rel_paths:
        p = os.path.join(REPO, rp)
        if os.path.isdir(p):
            h = hashlib.sha256()
            for dp, _, fns in sorted(os.walk(p)):
                for fn in sorted(fns):
                    h.update(open(os.path.join(dp, fn), "rb").read())
            out[rp] = h.hexdigest()[:16]
        else:
            out[rp] = file_hash(p)
    return out


def ddmin_lines(case, still_fails):
    """Delta-debug the lines of a history case (the first line is kept)."""
    head, body = case.lines[:1], case.lines[1:]
    n = 2
    while len(body) >= 2:
        size = max(1, len(body) // n)
        reduced = False
        for i in range(0, len(body), size):
            cand = body[:i] + body[i + size:]
            if cand and still_fails(Case(head + cand, case.tag)):
                body = cand
                n = max(n - 1, 2)
                reduced = True
                break
        if not reduced:
            if size == 1:
                break
            n = min(n * 2, len(body))
    return Case(head + body, case.tag)


def toolchain_versions():
    v = {}
    rc, o, _ = sh(["lean", "--version"])
    v["lean"] = o.strip().split(",")[0].replace("Lean (version ", "Lean ")
    rc, o, _ = sh([CXX, "--version"])
    v["cxx"] = o.splitlines()[0] if o else CXX
    return v
