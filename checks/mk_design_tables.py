#!/usr/bin/env python3
"""Regenerates the generated regions of DESIGN.md (between `<!-- BEGIN x -->` and `<!-- END x -->`):
STATUS (per-property table), SEEDED (self-validation table), FINDINGS (all findings), TRUSTED (as-built trusted base)."""
import os, re, subprocess, sys
HERE = os.path.dirname(os.path.abspath(__file__)); VERIF = os.path.dirname(HERE)
def run(script):
    return subprocess.run([sys.executable, os.path.join(HERE, script)], capture_output=True, text=True).stdout
p = os.path.join(VERIF, "DESIGN.md")
s = open(p).read()
for name, script in (("STATUS", "mk_status_table.py"), ("SEEDED", "mk_seeded_table.py"), ("FINDINGS", "mk_findings_table.py"), ("TRUSTED", "mk_trusted_table.py"), ("MUTANTS", "mk_mutants_table.py")):
    b, e = "<!-- BEGIN %s -->" % name, "<!-- END %s -->" % name
    if b in s and e in s:
        i0 = s.index(b) + len(b); i1 = s.index(e)
        s = s[:i0] + "\n" + run(script) + s[i1:]
    else:
        print("region", name, "missing")
open(p, "w").write(s)
