#!/usr/bin/env python3
"""Prints the markdown table of seeded changes (seeded/*/meta.json + evaluation.json) for DESIGN.md §0b."""
import glob, json, os
VERIF = os.path.dirname(os.path.dirname(os.path.abspath(__file__)))
rows = []
for d in sorted(glob.glob(os.path.join(VERIF, "seeded", "*"))):
    try:
        m = json.load(open(os.path.join(d, "meta.json")))
        e = json.load(open(os.path.join(d, "evaluation.json")))
    except OSError:
        continue
    r = (e.get("replays") or [{}])[0]
    how = "concrete input" if e.get("caught") and not e.get("no_failing_input_found_only") else ("no-failing-input-found" if e.get("caught") else "MISSED")
    oc = e.get("other_checks") or {}
    if not e.get("caught") and any(v.get("caught") for v in oc.values()):
        how = "MISSED by %s; caught by %s" % (e["property"], ", ".join(k for k, v in oc.items() if v.get("caught")))
    fe = e.get("first_evaluation")
    if fe and not fe.get("caught") and e.get("caught"):
        how += " (first evaluation: MISSED; check strengthened since)"
    if r.get("lean_error"):
        how += " + proof obligation broke"
    case = "; ".join(r.get("cases") or [])[:110]
    rows.append("| %s | %s | %s | %s | `%s` |" % (e["name"], m.get("what_breaks", "")[:150].replace("|", "/").replace("\n", " "),
                                                  "yes" if e.get("suite_passes_with_change") and e.get("demo_confirms") else "NOT CONFIRMED", how, case))
print("| seeded change | what it breaks | confirmed (suite green, demo fails) | caught by the property's check | minimal replay |")
print("|---|---|---|---|---|")
print("\n".join(rows))
