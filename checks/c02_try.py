#!/usr/bin/env python3
"""c02_try.py <part> [tier] [seed]  — development helper for one part of the C02 check
(containers | ranges | text): builds drv-c02 and the C02 harness of THIS tree, runs the part's
generator through both and prints every line on which the four columns disagree
(R1 impl=model, R2 spec=std, R3 impl=spec), bad-ops, sanitizer aborts and the line rate."""
import importlib
import os
import sys
import time

sys.path.insert(0, os.path.dirname(os.path.abspath(__file__)))
import lib  # noqa: E402

FLAGS = ["-ftrivial-auto-var-init=pattern", "-Wno-narrowing"]


def main():
    part = sys.argv[1]
    tier = sys.argv[2] if len(sys.argv) > 2 else "quick"
    seed = int(sys.argv[3]) if len(sys.argv) > 3 else 1
    mod = importlib.import_module("props.c02_" + part)
    t0 = time.time()
    ok, out = lib.lake_build(["drv-c02"])
    if not ok:
        print(out[-3000:])
        return 2
    exe, err = lib.build_harness("harness/c02.cpp", "c02_try_" + part, FLAGS)
    if exe is None:
        print(err[-6000:])
        return 2
    print("built in %.1fs" % (time.time() - t0))
    cases, dist = mod.generate(tier, seed)
    ctx = lib.Ctx("C02", tier, seed)
    t0 = time.time()
    res = lib.run_batch(ctx, cases, exe, "drv-c02")
    dt = time.time() - t0
    fails = lib.evaluate(cases, res)
    nlines = sum(len(c.lines) for c in cases)
    shown = 0
    for f in fails:
        if shown < 25:
            print(f.kind, f.case.tag, f.case.lines[: f.line_idx + 1][-3:], f.row.as_dict())
        shown += 1
    nt = sum(1 for c, rows in zip(cases, res) if mod.nontrivial(c, rows))
    print("%s %s seed=%d: %d cases, %d lines, %d non-trivial, %d failures, %d sanitizer aborts, %.1fs (%.0f lines/s)"
          % (part, tier, seed, len(cases), nlines, nt, len(fails), ctx.aborts, dt, nlines / max(dt, 1e-9)))
    print("dist:", dict(sorted(dist.items())))
    return 1 if fails else 0


if __name__ == "__main__":
    sys.exit(main())
