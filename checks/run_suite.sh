#!/bin/bash
# Build and run the pinned tetl test suite (guard OFF) for a repository tree.
# usage: run_suite.sh [repo_dir]   (default /repo; uses <repo_dir>/_build)
set -o pipefail
R=${1:-/repo}
B=$R/_build
if [ ! -f "$B/build.ninja" ]; then
  cmake -S "$R" -B "$B" -G Ninja -DCMAKE_BUILD_TYPE=RelWithDebInfo -DBUILD_TESTING=ON \
    -DCMAKE_CXX_FLAGS="-Wno-error" -DCMAKE_C_FLAGS="-Wno-error" >/dev/null 2>&1 || { echo "configure failed"; exit 2; }
fi
cmake --build "$B" -j"$(nproc)" -- -k0 2>&1 | grep -E "error|FAILED" | head -40
OUT=$(ctest --test-dir "$B" -j8 --timeout 900 2>&1)
echo "$OUT" | tail -4
case "$OUT" in *"100% tests passed, 0 tests failed out of 261"*) exit 0;; *) exit 1;; esac
