#!/usr/bin/env python3
"""After cherry-picking an agent's `fix:` commits into /repo main, rewrite the `commit` / `record` fields of
known_findings.d/*.json (and known_findings.json) to the hash the commit has on /repo's main branch.
Matching is by `git patch-id` so it does not depend on subjects."""
import json, os, re, subprocess, sys
VERIF = os.path.dirname(os.path.dirname(os.path.abspath(__file__)))
REPO = "/repo"

def sh(*a):
    return subprocess.run(a, capture_output=True, text=True).stdout

def patch_id(rev):
    p = subprocess.run("git -C %s show %s | git patch-id --stable" % (REPO, rev), shell=True, capture_output=True, text=True).stdout.split()
    return p[0] if p else None

main = {}
for line in sh("git", "-C", REPO, "log", "--format=%h", "main").split():
    pid = patch_id(line)
    if pid:
        main[pid] = line
files = [os.path.join(VERIF, "known_findings.json")]
d = os.path.join(VERIF, "known_findings.d")
files += [os.path.join(d, f) for f in sorted(os.listdir(d)) if f.endswith(".json")]
for f in files:
    data = json.load(open(f))
    changed = False
    for e in data.get("findings", []):
        c = e.get("commit")
        if e.get("status") != "fixed" or not c:
            continue
        pid = patch_id(c)
        new = main.get(pid)
        if new is None:
            print("WARNING %s: commit %s of %s not found on main" % (os.path.basename(f), c, e["id"]))
            continue
        if not new.startswith(c) and not c.startswith(new):
            e["commit"] = new
            if "record" in e:
                e["record"] = e["record"].replace(c, new)
            changed = True
    if changed:
        json.dump(data, open(f, "w"), indent=1)
        print("updated", os.path.basename(f))
